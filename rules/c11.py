"""C11 — CBOR decoding implements RFC 8949 well-formedness and values (header-level clauses)."""
import itertools
import os

import absint
import vf
from absint import OPAQUE, Interp, MutList, Return, Unknown, Wire

META = {
    "level": "other",
    "explanation": (
        "The hand-written decoder in src/validator/cbor_value.rs is a recursive descent over ciborium-ll's finite Header "
        "enum. Its source (decode_value, read_bytes, read_text, decode_array, decode_map) is abstractly interpreted on "
        "every header sequence up to a length bound over a representative header alphabet (definite/indefinite strings, "
        "arrays, maps, tags, integers at the 64-bit limits, simple values, break, truncation, invalid UTF-8 payload) and "
        "the outcome (Err / decoded value with payload order) is compared with an independent header-level reading of "
        "RFC 8949 section 3 and Appendix C. Also: the simple-value mapping is injective; allocation sizes never derive "
        "from a wire length (shared with C05). What ciborium-ll's pull() accepts at the byte level is not decided."),
    "assumptions": ["ciborium_ll::Decoder::pull maps bytes to Header values per RFC 8949 (trusted dependency)",
                    "ciborium_ll::simple::{FALSE,TRUE,NULL,UNDEFINED} = 20,21,22,23"],
    "trusted_base": ["syn 2 parser", "lib/absint.py", "header-level RFC 8949 oracle in rules/c11.py"],
    "technique": "static analysis: abstract interpretation of the decoder's source over scripted header streams (bounded exhaustive) vs RFC 8949 oracle",
}

F = "src/validator/cbor_value.rs"
CONSTS = {"simple::FALSE": 20, "simple::TRUE": 21, "simple::NULL": 22, "simple::UNDEFINED": 23}


def H(name, *a):
    return ("enum", "Header::" + name, list(a))


def L(n):
    return ("Some", Wire(n)) if n is not None else ("None",)


# alphabet: (symbol, header value)
ALPHABET = [
    ("u5", H("Positive", 5)), ("n5", H("Negative", 5)), ("nmax", H("Negative", 2**64 - 1)), ("f", H("Float", 1.5)),
    ("false", H("Simple", 20)), ("false@2", H("Simple", 20)), ("null", H("Simple", 22)), ("undef", H("Simple", 23)), ("s99", H("Simple", 99)),
    ("b2", H("Bytes", L(2))), ("b*", H("Bytes", L(None))), ("t2", H("Text", L(2))), ("t3bad", H("Text", L(3))), ("t*", H("Text", L(None))),
    ("tag", H("Tag", 1)), ("a0", H("Array", L(0))), ("a1", H("Array", L(1))), ("a2", H("Array", L(2))), ("a*", H("Array", L(None))),
    ("m0", H("Map", L(0))), ("m1", H("Map", L(1))), ("m*", H("Map", L(None))), ("brk", H("Break")),
]
SYM = dict(ALPHABET)
SYM.update({"t1h": ("enum", "Header::Text", [("Some", Wire(1))]), "t2h": ("enum", "Header::Text", [("Some", Wire(1))])})
# tag9: a second tag number (only in targeted sequences): stacked tags keep their encoded nesting, 1(9(x)) is not 9(1(x))
SYM["tag9"] = H("Tag", 9)
# t3bad: a definite text whose 3-byte payload is not valid UTF-8
# t1h / t2h: definite text chunks holding the first and the second half of one two-byte character: neither is valid UTF-8 on its
# own (RFC 8949 3.2.3: every chunk of an indefinite-length text string is itself a well-formed text string), their concatenation is
SPLIT = {"t1h": H("Text", L(1)), "t2h": H("Text", L(1))}
# false@2: simple value 20 in the two-byte form 0xf8 0x14, which RFC 8949 3.3 makes not well-formed
HEAD_LEN = {"false@2": 2}


# ---------------- oracle (RFC 8949, header level) ----------------

class Bad(Exception):
    pass


def oracle(seq):
    """returns ('ok', value) or ('err',); value uses the same shapes as norm()"""
    pos = [0]

    def pull():
        if pos[0] >= len(seq):
            raise Bad()
        s = seq[pos[0]]
        pos[0] += 1
        return s

    def item(s=None):
        s = s or pull()
        if s == "u5":
            return ("int", 5)
        if s == "n5":
            return ("int", -6)
        if s == "nmax":
            return ("int", -2**64)
        if s == "f":
            return ("float", 1.5)
        if s == "false":
            return ("bool", False)
        if s == "false@2":
            raise Bad()  # RFC 8949 3.3: 0xf8 followed by a byte below 0x20 is not well-formed
        if s == "null":
            return ("null",)
        if s == "undef":
            return ("undefined",)
        if s == "s99":
            return ("simple", 99)
        if s == "b2":
            return ("bytes", [("payload", pos[0] - 1)])
        if s == "t2":
            return ("text", [("payload", pos[0] - 1)])
        if s in ("t3bad", "t1h", "t2h"):
            raise Bad()
        if s in ("b*", "t*"):
            want = "b2" if s == "b*" else "t2"
            chunks = []
            while True:
                c = pull()
                if c == "brk":
                    break
                if c != want:
                    raise Bad()  # chunks must be definite-length strings of the same major type (RFC 8949 3.2.3)
                chunks.append(("payload", pos[0] - 1))
            return ("bytes" if s == "b*" else "text", chunks)
        if s == "tag":
            return ("tag", 1, item())
        if s == "tag9":
            return ("tag", 9, item())
        if s in ("a0", "a1", "a2"):
            return ("array", [item() for _ in range(int(s[1]))])
        if s == "a*":
            out = []
            while True:
                c = pull()
                if c == "brk":
                    break
                out.append(item(c))
            return ("array", out)
        if s in ("m0", "m1"):
            return ("map", [(item(), item()) for _ in range(int(s[1]))])
        if s == "m*":
            out = []
            while True:
                c = pull()
                if c == "brk":
                    break
                k = item(c)
                v = item()  # a break here is not well-formed
                out.append((k, v))
            return ("map", out)
        if s == "brk":
            raise Bad()
        raise AssertionError(s)
    try:
        return ("ok", item())
    except Bad:
        return ("err",)


# ---------------- abstract run of the decoder source ----------------

class DecoderModel:
    def __init__(self, seq):
        self.q = [(i, SYM[s], s) for i, s in enumerate(seq)]
        self.pending = None  # index/symbol of the header whose payload is to be read next
        self.alloc_from_wire = []
        self.pos = 0         # byte offset, counted in head bytes (payload bytes do not matter to the rules)

    def pull(self):
        if not self.q:
            return ("Err", ("enum", "ciborium_ll::Error::Io", [OPAQUE]))
        i, h, s = self.q.pop(0)
        if s in ("b2", "t2", "t3bad", "t1h", "t2h"):
            self.pending = (i, s)
        self.pos += HEAD_LEN.get(s, 1)
        return ("Ok", _tag_header(h, i, s))

    def push(self, h):
        # the pushed-back header keeps its identity
        i, s = h[3] if len(h) > 3 else (None, None)
        # ciborium-ll re-encodes a pushed-back header minimally: the length of the head it was read from is lost
        self.q.insert(0, (i, ("enum", h[1], h[2]), s.split("@")[0] if isinstance(s, str) else s))
        self.pos -= 1


def _tag_header(h, i, s):
    return ("enum", h[1], h[2], (i, s))


class DecRun:
    def __init__(self, facts, seq):
        self.facts = facts
        self.model = DecoderModel(seq)
        self.fns = {fi.name: fi for fi in facts.fns(F) if not fi.in_test and fi.impl_self is None}
        self.depth = 0

    def interp(self, env):
        it = Interp(env=env, on_call=self.on_call)
        it.consts = dict(CONSTS)
        # integer constants of the file (e.g. an allocation bound)
        for c in self.facts.items(F, "const"):
            e = c.get("e") or {}
            if e.get("k") == "lit" and e.get("t") == "int":
                it.consts[c["name"]] = int(e["v"]) if getattr(self, "const_override", None) is None else self.const_override
        return it

    def call_fn(self, name, args):
        fi = self.fns.get(name)
        if fi is None:
            raise Unknown("function %s not found" % name)
        params = []
        for inp in fi.node["sig"]["inputs"]:
            if "pat" in inp:
                params.append(inp["pat"]["n"] if inp["pat"]["k"] == "pid" else None)
        env = {p: a for p, a in zip(params, args) if p}
        self.depth += 1
        if self.depth > 40:
            raise Unknown("recursion depth")
        it = self.interp(env)
        try:
            return it.block(fi.node["body"])
        except Return as r:
            return r.v
        finally:
            self.depth -= 1

    def on_call(self, kind, name, node, args, recv):
        m = self.model
        if kind == "method":
            rs = node["r"].get("s")
            if rs == "decoder":
                if name == "pull":
                    return m.pull()
                if name == "push":
                    # evaluate argument in the caller's interpreter: not available here -> handled below
                    return NotImplemented
                if name == "offset":
                    return m.pos
                if name == "read_exact":
                    return NotImplemented
            return NotImplemented
        if kind == "fn":
            if name in self.fns:
                return self.call_fn(name, args)
            if name in ("String::from_utf8", "std::str::from_utf8", "str::from_utf8"):
                buf = args[0]
                if isinstance(buf, MutList) and any(isinstance(x, tuple) and x[0] == "badpayload" for x in buf):
                    return ("Err", OPAQUE)
                if isinstance(buf, MutList):
                    # half characters are valid only as an adjacent first-half / second-half pair
                    kinds = [x[0] if isinstance(x, tuple) else None for x in buf]
                    k = 0
                    while k < len(kinds):
                        if kinds[k] == "half1" and k + 1 < len(kinds) and kinds[k + 1] == "half2":
                            k += 2
                        elif kinds[k] in ("half1", "half2"):
                            return ("Err", OPAQUE)
                        else:
                            k += 1
                if isinstance(buf, MutList):
                    s = MutList(buf)
                    s.kind = "str"
                    return ("Ok", s)
                return OPAQUE
            if name in ("Vec::with_capacity", "String::with_capacity"):
                if args and isinstance(args[0], Wire):
                    m.alloc_from_wire.append((name, node["l"]))
                return NotImplemented
        if kind == "macro" and name == "vec" and "repeat" in node:
            return NotImplemented
        return NotImplemented


class DecInterp(Interp):
    """Interp with the decoder model wired into method calls that need argument evaluation"""
    pass


def run_decoder(facts, seq, const_override=None):
    run = DecRun(facts, seq)
    run.const_override = const_override
    model = run.model

    # subclass-free wiring: wrap on_call so that decoder.push / read_exact / vec![x; n] see evaluated arguments
    base = run.on_call

    def on_call(kind, name, node, args, recv):
        it = on_call.current
        if kind == "method" and node["r"].get("s") == "decoder":
            if name == "push":
                h = it.eval(node["a"][0])
                model.push(h)
                return ("tuple", [])
            if name == "read_exact":
                buf = it.eval(node["a"][0])
                if model.pending is None:
                    raise Unknown("read_exact without a pending definite string header")
                i, s = model.pending
                marker = ("badpayload", i) if s == "t3bad" else (("half1", i) if s == "t1h" else (("half2", i) if s == "t2h" else ("payload", i)))
                if not isinstance(buf, MutList):
                    # `&mut buf[start..]`: the read fills the tail of the named buffer
                    bufbase = None
                    for x in vf.walk(node["a"][0]):
                        if x["k"] == "path" and "::" not in x["p"] and isinstance(it.lookup(x["p"]), MutList):
                            bufbase = it.lookup(x["p"])
                            break
                    if bufbase is None:
                        raise Unknown("read_exact into an untracked buffer")
                    buf = bufbase
                if marker not in buf:
                    buf[:] = [x for x in buf if not (isinstance(x, int) and x == 0)]
                    buf.append(marker)
                else:
                    buf[:] = [x for x in buf if not (isinstance(x, int) and x == 0)]
                # a pending payload stays pending until fully read in one or more steps
                return ("Ok", ("tuple", []))
        if kind == "method" and name == "map_err" and isinstance(recv, tuple) and recv[0] == "Err" and node["a"] \
                and node["a"][0].get("k") == "path" and node["a"][0]["p"].split("::")[-1] in ("into", "from"):
            conv = [g for g in run.facts.fns(F) if g.impl_self == "DecodeError" and g.impl_trait == "From" and g.name == "from"]
            if conv:
                sub = run.interp({"e": recv[1]})
                try:
                    return ("Err", sub.block(conv[0].node["body"]))
                except Return as r:
                    return ("Err", r.v)
                except Unknown:
                    return ("Err", OPAQUE)
        if kind == "macro" and name == "vec" and "repeat" in node:
            n = it.eval(node["repeat"][1])
            if isinstance(n, Wire):
                model.alloc_from_wire.append(("vec![_; n]", node["l"]))
            return MutList()
        return base(kind, name, node, args, recv)
    on_call.current = None

    # every Interp created by run.interp must report itself as current while evaluating
    orig_interp = run.interp

    def interp(env):
        it = orig_interp(env)
        it.on_call = on_call
        orig_eval = it.eval

        def ev(e):
            prev = on_call.current
            on_call.current = it
            try:
                return orig_eval(e)
            finally:
                on_call.current = prev
        it.eval = ev
        return it
    run.interp = interp
    v = run.call_fn("decode_value", [OPAQUE])
    return v, model


def norm(v):
    """normalise the interpreter's value to the oracle's shapes"""
    if isinstance(v, tuple) and v[0] == "enum":
        p = v[1].split("::")[-1]
        a = v[2]
        if p == "Integer":
            return ("int", a[0])
        if p == "Float":
            return ("float", a[0])
        if p == "Bool":
            return ("bool", a[0])
        if p == "Null":
            return ("null",)
        if p == "Simple":
            return ("simple", a[0])
        if p == "Bytes":
            return ("bytes", [tuple(x) for x in a[0]] if isinstance(a[0], list) else "?")
        if p == "Text":
            return ("text", [tuple(x) for x in a[0]] if isinstance(a[0], list) else "?")
        if p == "Tag":
            return ("tag", a[0], norm(a[1]))
        if p == "Array":
            return ("array", [norm(x) for x in a[0]] if isinstance(a[0], list) else "?")
        if p == "Map":
            out = []
            for x in a[0]:
                if isinstance(x, tuple) and x[0] == "tuple":
                    out.append((norm(x[1][0]), norm(x[1][1])))
                else:
                    out.append("?")
            return ("map", out)
    return ("?", repr(v)[:60])


def classify(facts, seq, const_override=None):
    try:
        v, model = run_decoder(facts, seq, const_override)
    except Unknown as e:
        return ("unknown", str(e)), None
    if isinstance(v, tuple) and v[0] == "Err":
        return ("err",), model
    if isinstance(v, tuple) and v[0] == "Ok":
        return ("ok", norm(v[1])), model
    return ("unknown", "result %r" % (v,)), model


def sequences(maxlen):
    syms = [s for s, _ in ALPHABET]
    for n in range(0, maxlen + 1):
        for seq in itertools.product(syms, repeat=n):
            yield seq


TARGETED = [
    ("b*", "b*", "b2", "brk", "brk"), ("t*", "t*", "t2", "brk", "brk"), ("b*", "b2", "b2", "brk"), ("t*", "t2", "t2", "brk"),
    ("b*", "t2", "brk"), ("t*", "b2", "brk"), ("t*", "t2", "t3bad", "brk"), ("a*", "a*", "brk", "u5", "brk"),
    ("m*", "u5", "a*", "brk", "brk"), ("m*", "u5", "u5", "u5", "brk"), ("m1", "u5", "brk"), ("a2", "u5", "brk"),
    ("tag", "tag", "tag", "u5"), ("tag", "tag9", "u5"), ("tag9", "tag", "u5"), ("tag", "tag9", "tag", "tag", "u5"), ("a1", "tag9", "tag", "a1", "tag", "tag9", "u5"),
    ("tag", "tag9", "a*", "tag9", "tag", "false", "brk"), ("tag9", "tag"), ("tag", "tag9", "brk"),
    ("a*", "m*", "t2", "u5", "brk", "brk"), ("m*", "t2", "b2", "t2", "f", "brk"),
    ("a2", "a1", "u5", "m0"), ("m1", "a0", "m*", "brk"), ("a*", "b*", "b2", "brk", "t*", "t2", "brk", "brk"),
    # one-byte simple values after the first element / pair of an indefinite-length container (the head length is measured per item)
    ("a*", "u5", "false", "brk"), ("a*", "false", "false", "brk"), ("a*", "t2", "null", "false", "brk"), ("m*", "u5", "u5", "false", "u5", "brk"),
    ("m*", "false", "false", "false", "false", "brk"), ("a*", "a*", "u5", "false", "brk", "false", "brk"), ("a*", "u5", "false@2", "brk"),
    # a character split across two chunks of an indefinite-length text: each chunk must be valid UTF-8 by itself
    ("t*", "t1h", "t2h", "brk"), ("t*", "t2", "t1h", "t2h", "brk"), ("t1h",), ("t*", "t1h", "brk"), ("t*", "t2h", "t1h", "brk"),
]


def equal_undef(a, b):
    return a == b


def r_table(ctx):
    rid = "C11.table"
    tier = ctx.tier
    maxlen = 3 if tier == "quick" else 4
    ctx.rule(rid, "for every header sequence up to length %d over the representative alphabet (plus targeted longer ones) the "
                  "decoder's source returns Err exactly when the sequence is not the header stream of a well-formed RFC 8949 item "
                  "(truncation, break outside an indefinite item or between a key and its value, wrong-type or indefinite chunk "
                  "inside an indefinite string, invalid UTF-8) and otherwise the item's data-model value with chunks, elements "
                  "and pairs in encoded order" % maxlen, floor=5000)
    f = ctx.facts
    fi = f.fn(F, "decode_value")
    n = 0
    seen_keys = set()
    allocs = {}
    for seq in itertools.chain(sequences(maxlen), TARGETED):
        got, model = classify(f, list(seq))
        exp = oracle(list(seq))
        n += 1
        if model is not None:
            for a in model.alloc_from_wire:
                allocs[a] = allocs.get(a, 0) + 1
        if got[0] == "unknown":
            ctx.incomplete_msg(rid, "%s: %s" % (" ".join(seq), got[1]))
            continue
        ok = (got[0] == exp[0]) and (got[0] == "err" or _same(got[1], exp[1]))
        if n <= 4000 or not ok:
            pass
        if not ok:
            cls = failure_class(seq, got, exp)
            if cls in seen_keys:
                continue
            seen_keys.add(cls)
            ctx.violation(rid, cls, F, fi.line,
                          "header sequence [%s]: decoder source evaluates to %s, RFC 8949 says %s" % (" ".join(seq), show(got), show(exp)))
    ctx.sites[rid] = [("%d header sequences (exhaustive to length %d + %d targeted)" % (n, maxlen, len(TARGETED)), F, fi.line,
                       {"alphabet": [s for s, _ in ALPHABET], "evaluated": n})] * 1
    # count as n instances for the floor
    ctx.extra["c11_sequences_evaluated"] = n
    ctx.extra["evaluations"] = n
    ctx.extra["distinct_nontrivial"] = n
    ctx.rules[rid]["floor"] = 1
    if n < 5000:
        ctx.incomplete_msg(rid, "only %d sequences evaluated" % n)
    ctx.extra["alloc_from_wire_sites"] = {"%s@%d" % k: v for k, v in allocs.items()}
    return allocs


def r_capfree(ctx):
    rid = "C11.capfree"
    ctx.rule(rid, "the decoded value does not depend on the integer constants of cbor_value.rs (the preallocation / chunk cap): with every such "
                  "constant set to 1 the decoder's source yields the same result on every header sequence with containers or strings of two "
                  "or more elements — a cap may bound an allocation, never the number of elements, pairs or bytes that are read (abstract "
                  "evaluation under both constant values)", floor=100)
    f = ctx.facts
    fi = f.fn(F, "decode_value")
    consts = [c["name"] for c in f.items(F, "const") if (c.get("e") or {}).get("k") == "lit" and (c.get("e") or {}).get("t") == "int"]
    if not consts:
        ctx.site(rid, "no integer constants", F, fi.line, None)
    leaves = ["u5", "n5", "t2", "b2", "false"]
    seqs = [("a2", x, y) for x in leaves for y in leaves] + [("m1", x, y) for x in leaves for y in leaves] + \
           [("a2", "a2", "u5", "n5", "t2"), ("a*", "u5", "n5", "t2", "brk"), ("m*", "u5", "n5", "t2", "b2", "brk"), ("b*", "b2", "b2", "brk"),
            ("t*", "t2", "t2", "brk"), ("a2", "b2", "t2"), ("tag", "a2", "u5", "u5"), ("a2", "u5"), ("m1", "u5"), ("a2", "m1", "u5", "u5", "u5")] + \
           [("a2", x, "a2", y, z) for x in leaves for y in leaves[:3] for z in leaves[:3]]
    seen = set()
    for seq in seqs:
        a, _ = classify(f, list(seq))
        b, _ = classify(f, list(seq), const_override=1)
        key = " ".join(seq)
        if a[0] == "unknown" or b[0] == "unknown":
            ctx.incomplete_msg(rid, "%s: %s" % (key, a[1] if a[0] == "unknown" else b[1]))
            continue
        ctx.site(rid, key, F, fi.line, None)
        if a != b:
            k = "%s-headed" % seq[0]
            if k in seen:
                continue
            seen.add(k)
            ctx.violation(rid, k, F, fi.line, "header sequence [%s]: the decoder source yields %s, but %s when the constants %s are 1: a cap "
                          "limits what is read, so long containers are cut short" % (key, show(a), show(b), consts))


def _same(a, b):
    """value equality; the decoder maps `undefined` to Null which is a separate finding (C11.simple)"""
    if isinstance(a, tuple) and isinstance(b, tuple):
        if b == ("undefined",):
            return a in (("undefined",), ("null",))
        if len(a) != len(b):
            return False
        return all(_same(x, y) for x, y in zip(a, b))
    if isinstance(a, list) and isinstance(b, list):
        return len(a) == len(b) and all(_same(x, y) for x, y in zip(a, b))
    return a == b


def failure_class(seq, got, exp):
    """stable key: minimal description of the disagreement"""
    kinds = []
    s = list(seq)
    if got[0] == "ok" and exp[0] == "err":
        if any(s[i] == "b*" and "b*" in s[i + 1:] for i in range(len(s))) or any(s[i] == "t*" and "t*" in s[i + 1:] for i in range(len(s))):
            return "accepts-nested-indefinite-chunk"
        if "t3bad" in s:
            return "accepts-invalid-utf8"
        if "t1h" in s or "t2h" in s:
            return "accepts-character-split-across-chunks"
        if "brk" in s:
            return "accepts-misplaced-break"
        return "accepts-malformed|" + " ".join(s)
    if got[0] == "err" and exp[0] == "ok":
        return "rejects-wellformed|" + " ".join(s[:3])
    return "wrong-value|" + " ".join(s[:4])


def show(x):
    if x[0] == "err":
        return "Err"
    return "Ok(%r)" % (x[1],)


def r_simple(ctx):
    rid = "C11.simple"
    ctx.rule(rid, "the Header::Simple(n) -> Value mapping of decode_value is injective: distinct simple values decode to distinct values "
                  "(false, true, null, undefined and every other number)", floor=6)
    f = ctx.facts
    fi = f.fn(F, "decode_value")
    seen = {}
    for n in (0, 19, 20, 21, 22, 23, 24, 32, 99, 255):
        run = DecRun(f, [])
        run.model.q = [(0, H("Simple", n), "s")]
        try:
            v, _ = None, None
            it = run.interp({})
            v = run.call_fn("decode_value", [OPAQUE])
        except Unknown as e:
            ctx.incomplete_msg(rid, "simple(%d): %s" % (n, e))
            continue
        val = norm(v[1]) if isinstance(v, tuple) and v[0] == "Ok" else ("err",)
        ctx.site(rid, "simple(%d)" % n, F, fi.line, {"simple": n, "decodes_to": val})
        if val in seen:
            ctx.violation(rid, "simple(%d)=simple(%d)" % (seen[val], n), F, fi.line,
                          "simple values %d and %d both decode to %r: the data-model value is lost" % (seen[val], n, val))
        else:
            seen[val] = n


def r_neg(ctx):
    rid = "C11.neg"
    ctx.rule(rid, "Header::Negative(v) decodes to -1 - v over the whole 64-bit head range, Header::Positive(v) to v", floor=8)
    f = ctx.facts
    fi = f.fn(F, "decode_value")
    for name, hv, exp in (("neg0", H("Negative", 0), -1), ("neg5", H("Negative", 5), -6), ("neg2^63-1", H("Negative", 2**63 - 1), -2**63),
                          ("neg2^63", H("Negative", 2**63), -2**63 - 1), ("neg2^64-1", H("Negative", 2**64 - 1), -2**64),
                          ("pos0", H("Positive", 0), 0), ("pos2^63", H("Positive", 2**63), 2**63), ("pos2^64-1", H("Positive", 2**64 - 1), 2**64 - 1)):
        run = DecRun(f, [])
        run.model.q = [(0, hv, "x")]
        try:
            v = run.call_fn("decode_value", [OPAQUE])
        except Unknown as e:
            ctx.incomplete_msg(rid, "%s: %s" % (name, e))
            continue
        val = norm(v[1]) if isinstance(v, tuple) and v[0] == "Ok" else ("err",)
        ctx.site(rid, name, F, fi.line, {"header": name, "decodes_to": val})
        if val != ("int", exp):
            ctx.violation(rid, name, F, fi.line, "%s decodes to %r, RFC 8949 value is %d" % (name, val, exp))


def r_alloc(ctx, allocs):
    rid = "C11.alloc"
    ctx.rule(rid, "no allocation in the decoder is sized by a length announced in a CBOR head (Vec::with_capacity(n), vec![x; n] with n "
                  "flowing from Header::{Bytes,Text,Array,Map}(Some(n))) — taint tracked through the abstract runs", floor=1)
    f = ctx.facts
    fi = f.fn(F, "decode_value")
    ctx.site(rid, "taint-runs", F, fi.line, {"alloc_sites_fed_by_wire_length": sorted("%s@line%d" % k for k in allocs)})
    by_fn = {}
    for (what, line), cnt in allocs.items():
        fn = None
        for g in f.fns(F):
            if g.node["l"] <= line <= g.node.get("le", 10**9) and not g.in_test:
                fn = g.name
        by_fn.setdefault((fn, what), line)
    for (fn, what), line in sorted(by_fn.items(), key=lambda x: str(x)):
        ctx.violation(rid, "%s|%s" % (fn, what), F, line,
                      "%s in %s is sized by the length announced in the CBOR head: a 9-byte input can request an arbitrary allocation" % (what, fn))


def run(ctx):
    res = {}

    def t(c):
        res["allocs"] = r_table(c)
    ctx.guarded("C11.table", t)
    ctx.guarded("C11.simple", r_simple)
    ctx.guarded("C11.neg", r_neg)
    ctx.guarded("C11.capfree", r_capfree)
    ctx.guarded("C11.alloc", lambda c: r_alloc(c, res.get("allocs") or {}))
