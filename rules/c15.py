"""C15 — source positions are accurate (clauses decided on the position-computing source)."""
import itertools

import re
import absint
import vf
from absint import Interp, OPAQUE, Return, Unknown

META = {
    "level": "other",
    "explanation": (
        "The position arithmetic of src/pest_bridge.rs is pure scanning over the input text. Its source is abstractly interpreted "
        "(bounded exhaustive) on every string up to length 4 over the alphabet {a, space, ';', '\\n', 2-byte 'é'} plus CRLF / 3-byte "
        "samples and on every error index / span on a character boundary: (errpos) convert_pest_error's adjusted line/column, "
        "compute_error_range, scan_token_start/end: the range lies inside the input on character boundaries and is non-inverted, "
        "and line/column are those of the reported index; (spanpos) pest_span_to_ast_span, pest_span_to_position and "
        "position_from_ast_span agree with the definition line = 1 + newlines before start, column = 1 + chars since the last "
        "newline. (own) each convert_* function takes the span it stores from its own pair. Spans of whole documents through the "
        "parser are not decided (pest's own span computation is trusted)."),
    "assumptions": ["pest reports error positions and pair spans on character boundaries inside the input"],
    "trusted_base": ["syn 2 parser", "lib/absint.py"],
    "technique": "static analysis: abstract interpretation of the position-scanning source on a bounded-exhaustive string domain + span-provenance rule",
}

B = "src/pest_bridge.rs"
ALPHA = ["a", " ", ";", "\n", "é"]
EXTRA = ["a = é", "a = é\n", "ab\r\ncd é;x", "日本 = ", "x;c é\n y", "a=\"é\" /", "é", "a\n\né b"]


def strings(maxlen):
    for n in range(0, maxlen + 1):
        for t in itertools.product(ALPHA, repeat=n):
            yield "".join(t)
    for s in EXTRA:
        yield s


def boundaries(s):
    out, pos = [0], 0
    for c in s:
        pos += len(c.encode())
        out.append(pos)
    return out


def line_col(s, idx):
    raw = s.encode()
    before = raw[:idx].decode()
    line = before.count("\n") + 1
    col = len(before.split("\n")[-1]) + 1
    return line, col


class Fns:
    def __init__(self, facts):
        self.fns = {fi.name: fi for fi in facts.fns(B) if not fi.in_test and fi.impl_self is None and all(absint.default_cfg(c) for c in fi.cfg)}
        # helpers extracted after the rule was written are interpreted too
        self.resolver = vf.new_fn_resolver(facts, [B], cfg=absint.default_cfg)

    def call(self, name, args, depth=0):
        fi = self.fns.get(name)
        if fi is None:
            raise vf.Incomplete("%s not found in %s" % (name, B))
        names = [inp["pat"]["n"] if "pat" in inp and inp["pat"]["k"] == "pid" else None for inp in fi.node["sig"]["inputs"]]

        def on_call(kind, nm, node, a, recv):
            if kind == "fn" and nm in self.fns and nm in ("compute_error_range", "scan_token_end", "scan_token_start"):
                return self.call(nm, a, depth + 1)
            if kind == "fn" and nm == "create_enhanced_error_message":
                return ("tuple", [OPAQUE, OPAQUE])
            if kind == "method" and isinstance(recv, tuple) and recv[:1] == ("pestspan",):
                if nm == "start":
                    return recv[1]
                if nm == "end":
                    return recv[2]
            if kind == "method" and nm == "clone":
                return NotImplemented
            return NotImplemented
        it = Interp(env={n: a for n, a in zip(names, args) if n}, on_call=on_call)
        it.resolve_fn = self.resolver
        try:
            return it.block(fi.node["body"])
        except Return as r:
            return r.v


def r_errpos(ctx):
    rid = "C15.errpos"
    maxlen = 4 if ctx.tier == "quick" else 5
    ctx.rule(rid, "convert_pest_error (with compute_error_range / scan_token_*): for every input string of the bounded domain and every error "
                  "index on a character boundary, the reported Position has 0 <= range.0 <= range.1 <= len on character boundaries, "
                  "index = range.0, and (line, column) = line and column of that index counted in characters", floor=1)
    fns = Fns(ctx.facts)
    fi = fns.fns.get("convert_pest_error")
    if fi is None:
        raise vf.Incomplete("convert_pest_error not found")
    n = 0
    seen = set()
    for s in strings(maxlen):
        bs = boundaries(s)
        for idx in bs:
            l0, c0 = line_col(s, idx)
            err = ("enum", "pest::error::Error", {
                "line_col": ("enum", "pest::error::LineColLocation::Pos", [("tuple", [l0, c0])]),
                "location": ("enum", "pest::error::InputLocation::Pos", [idx])})
            try:
                v = fns.call("convert_pest_error", [err, ("str", s)])
            except Unknown as e:
                msg = str(e)
                n += 1
                cls = "panic" if msg.startswith("panic") else "unknown"
                if cls == "panic":
                    k = "panic|" + msg.split("(")[0].strip()
                    if k not in seen:
                        seen.add(k)
                        ctx.violation(rid, k, B, fi.line, "convert_pest_error on input %r, error index %d: %s" % (s, idx, msg))
                else:
                    ctx.incomplete_msg(rid, "%r@%d: %s" % (s, idx, msg))
                continue
            n += 1
            pos = v[2].get("position") if isinstance(v, tuple) and v[0] == "enum" and isinstance(v[2], dict) else None
            if not (isinstance(pos, tuple) and pos[0] == "enum"):
                ctx.incomplete_msg(rid, "%r@%d: no position in result" % (s, idx))
                continue
            p = pos[2]
            rng = p.get("range")
            if not (isinstance(rng, tuple) and rng[0] == "tuple"):
                ctx.incomplete_msg(rid, "%r@%d: range %r" % (s, idx, rng))
                continue
            a, b = rng[1]
            problems = []
            if not (0 <= a <= b <= len(s.encode())):
                problems.append("range-outside-or-inverted")
            if a not in bs or b not in bs:
                problems.append("range-inside-multibyte-char")
            if p.get("index") != a:
                problems.append("index-not-range-start")
            if a in bs and (p.get("line") is OPAQUE or p.get("column") is OPAQUE):
                ctx.incomplete_msg(rid, "%r@%d: line/column not evaluable" % (s, idx))
            elif a in bs:
                el, ec = line_col(s, a)
                if p.get("line") != el:
                    problems.append("line-wrong")
                if p.get("column") != ec:
                    problems.append("column-wrong")
            for pr in problems:
                if pr not in seen:
                    seen.add(pr)
                    ctx.violation(rid, pr, B, fi.line, "convert_pest_error on input %r with the parser error at byte %d reports range (%d,%d), index %r, line %r, "
                                  "column %r: %s" % (s, idx, a, b, p.get("index"), p.get("line"), p.get("column"), pr))
    ctx.site(rid, "strings x indices", B, fi.line, {"evaluated": n, "alphabet": ALPHA, "max_len": maxlen})
    ctx.extra["evaluations"] = ctx.extra.get("evaluations", 0) + n
    ctx.extra["distinct_nontrivial"] = ctx.extra.get("distinct_nontrivial", 0) + n
    if n < 2000:
        ctx.incomplete_msg(rid, "only %d (string, index) pairs evaluated" % n)


def r_spanpos(ctx):
    rid = "C15.spanpos"
    ctx.rule(rid, "pest_span_to_ast_span, pest_span_to_position and position_from_ast_span: for every string of the bounded domain and every "
                  "span on character boundaries, start/end are passed through, line = 1 + newlines before start and column = 1 + characters "
                  "since the last newline", floor=1)
    fns = Fns(ctx.facts)
    n = 0
    seen = set()
    for s in strings(3 if ctx.tier == "quick" else 4):
        bs = boundaries(s)
        for i, a in enumerate(bs):
            for b in bs[i:]:
                el, ec = line_col(s, a)
                span = ("pestspan", a, b)
                try:
                    v1 = fns.call("pest_span_to_ast_span", [span, ("str", s)])
                    v2 = fns.call("pest_span_to_position", [span, ("str", s)])
                    v3 = fns.call("position_from_ast_span", [("tuple", [a, b, el]), ("str", s)])
                except Unknown as e:
                    k = "eval|" + str(e).split("(")[0]
                    if str(e).startswith("panic") and k not in seen:
                        seen.add(k)
                        ctx.violation(rid, k, B, 1, "span functions on %r span (%d,%d): %s" % (s, a, b, e))
                    elif not str(e).startswith("panic"):
                        ctx.incomplete_msg(rid, "%r (%d,%d): %s" % (s, a, b, e))
                    continue
                n += 1
                checks = [("pest_span_to_ast_span", v1 == ("tuple", [a, b, el]), v1)]
                for nm, v in (("pest_span_to_position", v2), ("position_from_ast_span", v3)):
                    d = v[2] if isinstance(v, tuple) and v[0] == "enum" and isinstance(v[2], dict) else {}
                    checks.append((nm, d.get("line") == el and d.get("column") == ec and d.get("range") == ("tuple", [a, b]) and d.get("index") == a, d))
                for nm, ok, got in checks:
                    if not ok and "opaque" in repr(got):
                        ctx.incomplete_msg(rid, "%s on %r span (%d,%d): the result could not be evaluated (%r)" % (nm, s, a, b, got))
                        continue
                    if not ok and nm not in seen:
                        seen.add(nm)
                        fi = fns.fns[nm]
                        ctx.violation(rid, nm, B, fi.line, "%s on %r span (%d,%d) yields %r; expected start %d, end %d, line %d, column %d" % (nm, s, a, b, got, a, b, el, ec))
    ctx.site(rid, "strings x spans", B, 1, {"evaluated": n})
    ctx.extra["evaluations"] = ctx.extra.get("evaluations", 0) + n
    ctx.extra["distinct_nontrivial"] = ctx.extra.get("distinct_nontrivial", 0) + n
    if n < 1000:
        ctx.incomplete_msg(rid, "only %d spans evaluated" % n)


OWN_EXEMPT = {
    "convert_value_to_type2": "the `value` pair is the whole `type2` pair (type2 = value | ...): same extent as the caller's span",
    "convert_number_to_type2": "value = number | ...: the number pair has the extent of the enclosing value/type2 pair",
    "convert_bytes_value_to_type2": "value = ... | bytes_value: same extent",
}


def r_own(ctx):
    rid = "C15.own"
    ctx.rule(rid, "every convert_* function of pest_bridge.rs that stores a `span` computes it from its own `pair` "
                  "(pest_span_to_ast_span(&pair.as_span(), input)), not from a span handed down by its caller", floor=10)
    f = ctx.facts
    for fi in f.fns(B):
        if fi.in_test or not fi.name.startswith("convert_") or not all(absint.default_cfg(c) for c in fi.cfg):
            continue
        params = [inp["pat"]["n"] for inp in fi.node["sig"]["inputs"] if "pat" in inp and inp["pat"]["k"] == "pid"]
        local_span = None
        for loc in vf.find(fi.node, "local"):
            if loc["pat"].get("k") == "pid" and loc["pat"]["n"] == "span" and loc.get("init") is not None:
                local_span = vf.src(loc["init"])
        stores = any(fl["n"] == "span" and vf.src(fl["e"]) == "span" for st in vf.find(fi.node, "struct") for fl in st["fields"])
        if not stores:
            continue
        key = fi.name
        ctx.site(rid, key, B, fi.line, {"span_param": "span" in params, "local_span": local_span})
        if "span" in params and fi.name in OWN_EXEMPT:
            continue
        if "span" in params:
            ctx.violation(rid, key, B, fi.line, "%s stores a span received from its caller: the node's span is its parent's, so it overlaps its siblings" % fi.name)
        else:
            # the span must come from the function's own Pair parameter: pest_span_to_ast_span(&<pair param>.as_span(), ..)
            pair_params = [inp["pat"]["n"] for inp in fi.node["sig"]["inputs"] if "pat" in inp and inp["pat"]["k"] == "pid" and "Pair" in str(inp.get("ty"))]
            own = any(local_span is not None and local_span.replace(" ", "").startswith("pest_span_to_ast_span(&%s.as_span()," % pp) for pp in pair_params)
            if own:
                continue
            other = re.match(r"pest_span_to_ast_span\(&(\w+)\.as_span\(\),", (local_span or "").replace(" ", ""))
            if other and other.group(1) not in pair_params:
                ctx.violation(rid, key + "|origin", B, fi.line, "%s computes its span from `%s`, which is not its own pair" % (fi.name, other.group(1)))
            else:
                ctx.incomplete_msg(rid, "%s: origin of the stored span (`%s`) not recognised" % (fi.name, local_span))


def r_identspan(ctx):
    rid = "C15.identspan"
    ctx.rule(rid, "convert_identifier gives an Identifier the span of its whole pair — the socket prefix `$` / `$$` belongs to the identifier "
                  "(Identifier carries `socket`), so a position derived from the span points at the first character of the name as written; "
                  "a plain name gets the span of the pair as well (abstract evaluation on grammar-shaped pairs with distinct spans for the "
                  "pair, the socket and the id token)", floor=3)
    B = "src/pest_bridge.rs"
    fi = None
    for x in ctx.facts.fn_all(B, "convert_identifier"):
        if all(absint.default_cfg(c) for c in x.cfg):
            fi = x
    if fi is None:
        raise vf.Incomplete("convert_identifier not found")

    def P(rule, text, lo, hi, *kids):
        return ("enum", "Pair", {"rule": rule, "text": text, "span": (lo, hi), "children": list(kids)})
    cases = {"plain": P("typename", "foo", 10, 13, P("id", "foo", 10, 13)),
             "$socket": P("typename", "$foo", 10, 14, P("socket_type", "$", 10, 11), P("id", "foo", 11, 14)),
             "$$socket": P("groupname", "$$foo", 10, 15, P("socket_group", "$$", 10, 12), P("id", "foo", 12, 15))}
    for cname, pair in cases.items():
        def on_call(knd, name, node, args, recv):
            if knd == "method" and isinstance(recv, tuple) and recv[:2] == ("enum", "Pair"):
                d = recv[2]
                if name == "as_rule":
                    return ("enum", "Rule::" + d["rule"], [])
                if name == "into_inner":
                    return absint.PyIter(d["children"])
                if name == "as_str":
                    return ("str", d["text"])
                if name == "as_span":
                    return ("pestspan",) + d["span"]
                if name == "clone":
                    return recv
            if knd == "fn" and name and name.split("::")[-1] == "pest_span_to_ast_span" and args and isinstance(args[0], tuple) and args[0][:1] == ("pestspan",):
                return ("tuple", [args[0][1], args[0][2], 1])
            return NotImplemented
        it = Interp(env={"pair": pair, "input": OPAQUE, "_is_group": False, "is_group": False}, cfg=absint.default_cfg, on_call=on_call)
        it.resolve_fn = vf.new_fn_resolver(ctx.facts, [B], cfg=absint.default_cfg)
        try:
            try:
                res = it.block(fi.node["body"])
            except Return as r:
                res = r.v
        except Unknown as e:
            ctx.incomplete_msg(rid, "%s: %s" % (cname, e))
            continue
        sp = None
        if isinstance(res, tuple) and res[0] == "Ok" and isinstance(res[1], tuple) and res[1][:1] == ("enum",) and isinstance(res[1][2], dict):
            sp = res[1][2].get("span")
        if not (isinstance(sp, tuple) and sp[:1] == ("tuple",) and not absint.has_opaque(sp)):
            ctx.incomplete_msg(rid, "%s: the identifier's span could not be evaluated (%r)" % (cname, sp))
            continue
        got = tuple(sp[1][:2])
        want = pair[2]["span"]
        ctx.site(rid, cname, B, fi.line, {"span": list(got)})
        if got != want:
            ctx.violation(rid, cname, B, fi.line, "convert_identifier gives `%s` (bytes %d..%d) the span %r: positions reported for this identifier point past its "
                          "socket prefix; the span of the identifier as written is %r" % (pair[2]["text"], want[0], want[1], got, want))


def run(ctx):
    ctx.guarded("C15.errpos", r_errpos)
    ctx.guarded("C15.spanpos", r_spanpos)
    ctx.guarded("C15.own", r_own)
    ctx.guarded("C15.identspan", r_identspan)
