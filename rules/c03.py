"""C03 — parser accepts exactly the RFC grammar and mirrors it in the AST (structural clauses)."""
import json
import os

import vf
import pestg

META = {
    "level": "other",
    "explanation": (
        "Static rule set over cddl.pest (parsed with pest's own meta-grammar) and the pair->AST converters in "
        "src/pest_bridge.rs / src/token.rs (all cfg arms): dead ordered-choice alternatives (prefix rule), agreement "
        "of the four control-operator tables, implicit-whitespace junctures versus the RFC 8610 Appendix B places "
        "where S may occur, converter dispatch covering every child pair the grammar can produce, rule-order "
        "preservation in convert_cddl, assignment/socket/range-operator flag mapping; (lexical) the token-level rules "
        "(identifiers, numbers, text and byte strings, comments) are evaluated with PEG semantics on every string up to a "
        "length bound over class-specific alphabets and compared with a transcription of the ABNF of RFC 8610 App. B / RFC 9682. "
        "Decides those structural necessary conditions for all inputs and the lexical languages up to the bound; language "
        "equality PEG vs ABNF above the token level is not decided."),
    "assumptions": [
        "pest implements PEG ordered choice and implicit WHITESPACE/COMMENT skipping between sequence operands of "
        "non-atomic rules as documented",
        "spec/rfc8610_junctures.json transcribes where RFC 8610 App. B / RFC 9682 permit S",
        "RFC_LEX in rules/c03.py transcribes id, number, text, bytes and COMMENT of RFC 9682 Appendix A (ABNF literals case-insensitive)",
    ],
    "trusted_base": ["pest_meta 2.8 grammar parser", "syn 2 Rust parser", "rule layer (python)", "lib/pestg.py PEG matcher"],
    "technique": "static analysis: grammar rules on cddl.pest (prefix, juncture, table agreement), bounded-exhaustive comparison of the lexical "
                 "rules with the ABNF, abstract interpretation of the pair->AST converters on grammar-shaped pairs",
}

BRIDGE = "src/pest_bridge.rs"
TOKEN = "src/token.rs"

CONVERTERS = {
    "convert_cddl": "cddl", "convert_rule": "rule", "convert_type_expr": "type_expr", "convert_type1": "type1",
    "convert_type2": "type2", "convert_group": "group", "convert_group_choice": "group_choice",
    "convert_group_entry": "group_entry", "convert_occurrence": "occur", "convert_member_key_simple": "member_key",
    "convert_tag_expr": "tag_expr", "convert_generic_params": "generic_params",
    "convert_generic_args": "generic_args", "convert_identifier": "typename",
    "convert_control_operator": "control_op", "convert_value_to_type2": "value",
    "convert_number_to_type2": "number", "convert_bytes_value_to_type2": "bytes_value",
}
# children a converter may ignore, with the reason (frozen after reading)
CHILD_EXEMPT = {
    ("*", "COMMENT"): "comments are collected by collect_comment_toks from the whole tree, not by the converters",
    ("*", "EOI"): "end marker",
    ("type_expr", "type_choice_op"): "separator token carries no information beyond sequence position",
    ("group", "group_choice_op"): "separator token carries no information beyond sequence position",
    ("tag_expr", "DIGIT"): "major-type digit is read from the pair text (after_hash.chars().next())",
}


def rule_paths(node):
    out = set()
    for n in vf.walk(node):
        p = n.get("p")
        if isinstance(p, str) and p.startswith("Rule::"):
            out.add(p[6:])
    return out


def reachable(g, start="cddl"):
    seen, stack = set(), [start]
    while stack:
        n = stack.pop()
        if n in seen or n not in g.rules:
            continue
        seen.add(n)
        stack.extend(g.idents(g.rules[n]["expr"]))
    return seen


def r_prefix(ctx, g):
    rid = "C03.prefix"
    ctx.rule(rid, "in every ordered choice of cddl.pest no alternative whose whole match is a fixed string is a "
                  "proper prefix of a later fixed-string alternative (PEG choice commits: the later one is dead)", floor=8)
    reach = reachable(g)
    for (rname, ordn, alts) in g.choices():
        if rname not in reach:
            continue  # documentation-only rules (prelude_type) are never entered by the parser
        lits = [(i, g.literal(a)) for i, a in enumerate(alts)]
        fixed = [(i, s) for i, s in lits if s is not None and s != ""]
        if len(fixed) < 2:
            continue
        line = g.rules[rname].get("l")
        ctx.site(rid, "%s#%d" % (rname, ordn), "cddl.pest", line, {"alternatives": [s for _, s in fixed]})
        for a in range(len(fixed)):
            for b in range(a + 1, len(fixed)):
                ia, sa = fixed[a]
                ib, sb = fixed[b]
                if sb.startswith(sa) and sb != sa:
                    ctx.violation(rid, "%s|%s<%s" % (rname, sa, sb), "cddl.pest", line,
                                  "alternative \"%s\" precedes \"%s\" in rule %s: the longer literal can never match, "
                                  "every text that needs it is rejected" % (sa, sb, rname))
                elif sa == sb:
                    ctx.violation(rid, "%s|dup:%s" % (rname, sa), "cddl.pest", line,
                                  "alternative \"%s\" listed twice in rule %s" % (sa, rname))


def str_match_table(fnode):
    """arms of `match <str> { "lit" => Some(Enum::V), .. }` -> {lit: (variant, cfg)}"""
    out = {}
    for m in vf.find(fnode, "match"):
        for arm in m["arms"]:
            for p in vf.pat_alternatives(arm["pat"]):
                if p["k"] == "plit" and p["e"].get("t") == "str":
                    v = None
                    for x in vf.walk(arm["body"]):
                        if x["k"] == "path" and "::" in x["p"]:
                            v = x["p"]
                            break
                    out[p["e"]["v"]] = (v, arm.get("cfg") or [])
    return out


def display_table(facts, file, enum):
    """Variant -> literal written by `impl Display for enum` (arms `Enum::V => write!(f, "lit")`)"""
    out = {}
    for fi in facts.fns(file):
        if fi.impl_self == enum and fi.impl_trait == "Display" and fi.name == "fmt":
            for m in vf.find(fi.node, "match"):
                for arm in m["arms"]:
                    lits = [x for x in vf.walk(arm["body"]) if x["k"] == "lit" and x.get("t") == "str"]
                    for p in vf.pat_alternatives(arm["pat"]):
                        v = vf.variant_of(vf.pat_path(p), enum)
                        if v and lits:
                            out[v] = (lits[0]["v"], arm.get("cfg") or [])
    return out


def r_ctltable(ctx, g):
    rid = "C03.ctltable"
    ctx.rule(rid, "control_name literals (grammar) = arms of lookup_control_from_str (all cfg) = ControlOperator "
                  "variants = Display strings, and lookup(Display(v)) = v for every variant", floor=30)
    f = ctx.facts
    cn = g.rules.get("control_name")
    if cn is None:
        raise vf.Incomplete("grammar rule control_name missing")
    gl = []
    e = cn["expr"]
    # the list of names may be followed by a lookahead that ends the name (`( "size" | ... ) ~ !(EALPHA | ...)`)
    if e["k"] == "seq":
        body = [x for x in e["e"] if x["k"] not in ("neg", "pos")]
        if len(body) == 1:
            e = body[0]
    alts = e["e"] if e["k"] == "choice" else [e]
    for a in alts:
        s = g.literal(a)
        if s is None:
            raise vf.Incomplete("control_name alternative is not a literal: %s" % g.show(a))
        gl.append(s)
    lookup = str_match_table(f.fn(TOKEN, "lookup_control_from_str").node)
    enum = f.item(TOKEN, "enum", "ControlOperator")
    variants = {v["name"]: v for v in enum["variants"]}
    disp = display_table(f, TOKEN, "ControlOperator")
    line = cn.get("l")
    for s in gl:
        ctx.site(rid, "grammar:%s" % s, "cddl.pest", line, {"literal": s})
        if "." + s not in lookup:
            ctx.violation(rid, "nolookup:%s" % s, "cddl.pest", line,
                          "grammar accepts control name \"%s\" but lookup_control_from_str has no arm for \".%s\": a "
                          "documented operator becomes a parse error" % (s, s))
    lfn = f.fn(TOKEN, "lookup_control_from_str")
    for lit, (var, cfg) in lookup.items():
        ctx.site(rid, "lookup:%s" % lit, TOKEN, lfn.line, {"literal": lit, "variant": var, "cfg": cfg})
        if not lit.startswith(".") or lit[1:] not in gl:
            ctx.violation(rid, "nogrammar:%s" % lit, TOKEN, lfn.line,
                          "lookup_control_from_str knows \"%s\" but the grammar's control_name cannot produce it" % lit)
        v = vf.variant_of(var, "ControlOperator")
        if v is None or v not in variants:
            ctx.violation(rid, "novariant:%s" % lit, TOKEN, lfn.line, "lookup arm \"%s\" maps to unknown variant %s" % (lit, var))
            continue
        d = disp.get(v)
        if d is None:
            ctx.violation(rid, "nodisplay:%s" % v, TOKEN, lfn.line, "ControlOperator::%s has no Display arm" % v)
        elif d[0] != lit:
            ctx.violation(rid, "roundtrip:%s" % v, TOKEN, lfn.line,
                          "Display(ControlOperator::%s) = \"%s\" but lookup(\"%s\") = %s: printing and re-parsing changes "
                          "the operator" % (v, d[0], lit, v))
    mapped = {vf.variant_of(v, "ControlOperator") for v, _ in lookup.values()}
    for v in variants:
        ctx.site(rid, "variant:%s" % v, TOKEN, variants[v]["l"], {"variant": v})
        if v not in mapped:
            ctx.violation(rid, "unreachable-variant:%s" % v, TOKEN, variants[v]["l"],
                          "ControlOperator::%s is produced by no lookup arm" % v)
    # two literals mapping to the same variant
    seen = {}
    for lit, (var, cfg) in lookup.items():
        if var in seen:
            ctx.violation(rid, "alias:%s" % lit, TOKEN, lfn.line, "\"%s\" and \"%s\" both map to %s" % (lit, seen[var], var))
        seen[var] = lit


def r_ctlboundary(ctx, g):
    rid = "C03.ctlboundary"
    ctx.rule(rid, "a control name ends where an identifier would end (RFC 8610: ctlop = \".\" id): control_name, evaluated with PEG semantics, "
                  "matches no proper prefix of a longer identifier — `.sizes` is the unknown control `sizes`, not `.size` followed by `s`; "
                  "and only `#6` carries a parenthesised content type: tag_expr consumes `#6.5(int)` whole but stops before the parenthesis "
                  "of `#1.5(int)`, `#0(int)`, `#7.25(int)`", floor=30)
    m = pestg.Matcher(ctx.facts.grammar())
    cn = g.rules.get("control_name")
    if cn is None:
        raise vf.Incomplete("grammar rule control_name missing")
    names = sorted({x["v"] for x in vf_walk_grammar(cn["expr"]) if x.get("k") == "str" and x["v"] and x["v"][0].isalpha()})
    if len(names) < 20:
        raise vf.Incomplete("only %d control names found in control_name" % len(names))
    line = cn.get("l")
    seen = False
    for k in names:
        for c in ("s", "X", "7", "_", "-x", ".x", "$"):
            w = k + c
            if any(n.startswith(w) for n in names):
                continue
            try:
                got = m.prefix("control_name", w)
            except pestg.Unsupported as e:
                raise vf.Incomplete("matcher: %s" % e)
            ctx.site(rid, "%s+%s" % (k, c), "cddl.pest", line, {"text": w, "consumed": got})
            if got is not None and got < len(w) and not seen:
                seen = True
                ctx.violation(rid, "control_name|prefix-of-identifier", "cddl.pest", line, "control_name consumes %r of %r: `.%s` is read as the control `.%s` "
                              "followed by `%s` instead of being rejected as an unknown control" % (w[:got], w, w, w[:got], w[got:]))
    te = g.rules.get("tag_expr")
    if te is None:
        raise vf.Incomplete("grammar rule tag_expr missing")
    for text, want in (("#6.5(int)", 9), ("#6(int)", 7), ("#1.5(int)", 4), ("#0(int)", 2), ("#7.25(int)", 5), ("#6.5", 4), ("#1.5", 4), ("#", 1)):
        try:
            got = m.prefix("tag_expr", text)
        except pestg.Unsupported as e:
            raise vf.Incomplete("matcher: %s" % e)
        ctx.site(rid, "tag_expr|" + text, "cddl.pest", te.get("l"), {"consumed": got, "expected": want})
        if got != want:
            ctx.violation(rid, "tag_expr|content-type-after-major-%s" % text[1:2] if text[1:2].isdigit() and text[1:2] != "6" else "tag_expr|" + text, "cddl.pest", te.get("l"),
                          "tag_expr consumes %r of %r (expected %r): a parenthesised type after a major type other than 6 is not derivable, "
                          "and the converter drops it" % (text[:got] if got is not None else None, text, text[:want]))


def vf_walk_grammar(e):
    if isinstance(e, dict):
        yield e
        for v in e.values():
            yield from vf_walk_grammar(v)
    elif isinstance(e, list):
        for v in e:
            yield from vf_walk_grammar(v)


def r_juncture(ctx, g):
    rid = "C03.juncture"
    ctx.rule(rid, "every sequence juncture of a non-atomic grammar rule that is not separated by the explicit S rule "
                  "admits implicit WHITESPACE/COMMENT; it must be a place where RFC 8610 App. B writes S "
                  "(spec/rfc8610_junctures.json) — otherwise underivable text is accepted", floor=10)
    spec = json.load(open(os.path.join(vf.VERIF, "spec", "rfc8610_junctures.json")))
    allowed = {(a["rule"], a["juncture"]): a["reason"] for a in spec["permitted"]}
    # a juncture is identified by the pairs of symbols that can become adjacent across it (terminals as written, rule names; silent
    # rules and optional parts looked through), not by how the sequence is written: merging two alternatives or factoring a
    # sub-expression into a silent rule leaves the pairs — and the text that is wrongly accepted — unchanged
    seen = set()
    for (rname, key, a, b, pairs) in g.junctures():
        line = g.rules[rname].get("l")
        ctx.site(rid, "%s|%s" % (rname, key), "cddl.pest", line, {"rule": rname, "juncture": key, "adjacent": ["%s %s" % p for p in pairs]})
        if (rname, key) in allowed:
            continue
        if not pairs:
            ctx.incomplete_msg(rid, "rule %s: juncture `%s`: no adjacent symbols derived" % (rname, key))
        for (x, y) in pairs:
            k = "%s|%s ~ %s" % (rname, x, y)
            if k in seen:
                continue
            seen.add(k)
            ctx.violation(rid, k, "cddl.pest", line,
                          "rule %s: %s can be followed by %s with no explicit S between them (juncture `%s`), so pest skips whitespace/comments "
                          "there; RFC 8610 allows none at this place" % (rname, x, y, key))


def r_children(ctx, g):
    rid = "C03.children"
    ctx.rule(rid, "each convert_* function dispatches on every child pair kind its grammar rule can produce (silent "
                  "rules looked through), so no derivation is dropped from the AST", floor=18)
    f = ctx.facts
    for fn, gr in CONVERTERS.items():
        fis = f.fn_all(BRIDGE, fn)
        if not fis:
            raise vf.Incomplete("converter %s not found" % fn)
        if gr not in g.rules:
            raise vf.Incomplete("grammar rule %s not found" % gr)
        need = g.children(gr)
        if fn == "convert_identifier":
            need = need | g.children("groupname")
        for fi in fis:
            have = rule_paths(fi.node)
            cfgk = ",".join(fi.cfg) or "any"
            ctx.site(rid, "%s[%s]" % (fn, cfgk), BRIDGE, fi.line, {"grammar_rule": gr, "children": sorted(need), "dispatched": sorted(have)})
            for c in sorted(need - have):
                if ("*", c) in CHILD_EXEMPT or (gr, c) in CHILD_EXEMPT:
                    continue
                ctx.violation(rid, "%s[%s]|%s" % (fn, cfgk, c), BRIDGE, fi.line,
                              "%s never looks at child pair Rule::%s which grammar rule `%s` can produce: that part of the "
                              "derivation is dropped from the AST" % (fn, c, gr))
    # convert_type2 leading-character dispatch: one branch per literal-led alternative of type2
    fi = f.fn(BRIDGE, "convert_type2")
    chars = set()
    for n in vf.walk(fi.node):
        if n["k"] == "mcall" and n["m"] == "starts_with" and n["a"] and n["a"][0].get("k") == "lit":
            chars.add(str(n["a"][0]["v"]))
    t2 = g.rules["type2"]["expr"]
    leads = set()
    for alt in (t2["e"] if t2["k"] == "choice" else [t2]):
        first = alt["e"][0] if alt["k"] == "seq" else alt
        if first["k"] == "str":
            leads.add(first["v"])
        elif first["k"] == "ident" and first["v"] == "tag_expr":
            leads.add("#")
    ctx.site(rid, "convert_type2|leading", BRIDGE, fi.line, {"grammar_leads": sorted(leads), "dispatch_chars": sorted(chars)})
    for c in sorted(leads - chars):
        ctx.violation(rid, "convert_type2|lead:%s" % c, BRIDGE, fi.line,
                      "type2 alternative starting with \"%s\" has no starts_with branch in convert_type2" % c)


MUTATORS_BAD = {"sort", "sort_by", "sort_by_key", "sort_unstable", "sort_unstable_by", "sort_unstable_by_key",
                "reverse", "dedup", "dedup_by", "dedup_by_key", "retain", "retain_mut", "swap", "swap_remove",
                "insert", "remove", "truncate", "drain", "pop", "clear", "rotate_left", "rotate_right", "split_off"}


def r_order(ctx, g):
    rid = "C03.order"
    ctx.rule(rid, "in convert_cddl the `rules` vector is only pushed to (once per Rule::rule pair, inside the iteration "
                  "over the pair tree) and never reordered, filtered or truncated before it is returned", floor=2)
    f = ctx.facts
    fi = f.fn(BRIDGE, "convert_cddl")
    pushes = 0
    for n in vf.walk(fi.node):
        if n["k"] == "mcall" and vf.src(n["r"]) in ("rules",):
            ctx.site(rid, "convert_cddl|rules.%s" % n["m"], BRIDGE, n["l"], {"call": vf.src(n)[:120]})
            if n["m"] == "push":
                pushes += 1
            if n["m"] in MUTATORS_BAD:
                ctx.violation(rid, "convert_cddl|rules.%s" % n["m"], BRIDGE, n["l"],
                              "convert_cddl calls rules.%s(): the AST no longer has one rule per grammar-level rule in "
                              "source order" % n["m"])
    # the push must be in the arm for Rule::rule and its argument must be the converted pair
    ok = False
    for m in vf.find(fi.node, "match"):
        for arm in m["arms"]:
            if vf.pat_path(arm["pat"]) == "Rule::rule":
                body = arm["body"]
                for n in vf.walk(body):
                    if n["k"] == "mcall" and n["m"] == "push" and vf.src(n["r"]) == "rules":
                        if any(x["k"] == "call" and vf.src(x["f"]) == "convert_rule" for x in vf.walk(n)):
                            ok = True
                        # unconditional within the arm?
                        for c in vf.walk(body):
                            if c["k"] in ("if", "match") and any(y is n for y in vf.walk(c)):
                                ctx.violation(rid, "convert_cddl|conditional-push", BRIDGE, c["l"],
                                              "the push of a converted rule is conditional: some grammar-level rules can be "
                                              "missing from the AST")
    if pushes != 1 or not ok:
        ctx.violation(rid, "convert_cddl|push-shape", BRIDGE, fi.line,
                      "expected exactly one rules.push(convert_rule(..)?) in the Rule::rule arm, found %d push(es)" % pushes)
    # result returns that vector
    ret_ok = False
    for n in vf.find(fi.node, "struct"):
        if n["p"].endswith("CDDL"):
            for fl in n["fields"]:
                if fl["n"] == "rules" and vf.src(fl["e"]) == "rules":
                    ret_ok = True
    if not ret_ok:
        ctx.violation(rid, "convert_cddl|return", BRIDGE, fi.line, "CDDL { rules } is not built from the collected vector")
    ctx.site(rid, "convert_cddl|return", BRIDGE, fi.line, {"returns_rules": ret_ok})


def flag_assignments(fnode, flag):
    """(value, enclosing-condition-src) for `flag = <bool>` assignments"""
    out = []
    for n in vf.walk(fnode):
        if n["k"] == "assign" and vf.src(n["a"]) == flag:
            out.append(n)
    return out


def r_assign(ctx, g):
    rid = "C03.assign"
    ctx.rule(rid, "the grammar spells the assignment, socket and range operators as RFC 8610 does (= /= //= $ $$ .. ...) and offers exactly "
                  "{=, /=} for type rules, {=, //=} for group rules and {.., ...} as range operators; how the converters map them to AST "
                  "flags is decided semantically by C03.rulehead and C03.type1", floor=7)
    f = ctx.facts
    # grammar literals
    exp = {"assign": "=", "assign_t_choice": "/=", "assign_g_choice": "//=", "socket_type": "$", "socket_group": "$$",
           "range_op_inclusive": "..", "range_op_exclusive": "..."}
    for r, lit in exp.items():
        if r not in g.rules:
            raise vf.Incomplete("grammar rule %s missing" % r)
        got = g.literal(g.rules[r]["expr"])
        ctx.site(rid, "grammar:%s" % r, "cddl.pest", g.rules[r]["l"], {"literal": got})
        if got != lit:
            ctx.violation(rid, "grammar:%s" % r, "cddl.pest", g.rules[r]["l"],
                          "grammar rule %s matches %r, RFC 8610 says %r" % (r, got, lit))
    # assign_t must offer exactly {assign, assign_t_choice}; assign_g exactly {assign, assign_g_choice}
    for r, want in (("assign_t", {"assign", "assign_t_choice"}), ("assign_g", {"assign", "assign_g_choice"}),
                    ("range_op", {"range_op_inclusive", "range_op_exclusive"})):
        got = g.children(r)
        if got != want:
            ctx.violation(rid, "grammar:%s" % r, "cddl.pest", g.rules[r]["l"], "rule %s offers %s, expected %s" % (r, sorted(got), sorted(want)))


OCC_CASES = [("occur_optional", "?", ("Optional", None, None)), ("occur_zero_or_more", "*", ("ZeroOrMore", None, None)),
             ("occur_one_or_more", "+", ("OneOrMore", None, None)), ("occur_exact", "3*", ("Exact", 3, None)), ("occur_exact", "0*", ("Exact", 0, None)),
             ("occur_range", "3*5", ("Exact", 3, 5)), ("occur_range", "*5", ("Exact", None, 5)), ("occur_range", "0*1", ("Exact", 0, 1)),
             ("occur_range", "0x10*0b11", ("Exact", 16, 3)), ("occur_exact", "0x1f*", ("Exact", 31, None))]


def r_occur(ctx, g):
    import absint
    from absint import Interp, Return, Unknown, OPAQUE
    rid = "C03.occur"
    ctx.rule(rid, "convert_occurrence maps each occurrence spelling of the grammar (?, *, +, n*, n*m, *m, with decimal, hex and binary bounds) to "
                  "the Occur variant and the exact bounds written — the lower bound before `*`, the upper bound after it, neither swapped nor "
                  "defaulted (abstract evaluation of the converter on grammar-shaped pairs; the integer-literal decoder parse_u64_lit is "
                  "a trusted primitive here, decided by C07)", floor=10)
    f = ctx.facts
    B = "src/pest_bridge.rs"
    kinds = g.children("occur")
    free = {fi.name: fi for fi in f.fns(B) if fi.impl_self is None and not fi.in_test and fi.name in ("parse_uint_lit",)}
    for fi in [x for x in f.fn_all(B, "convert_occurrence")]:
        cfgk = ",".join(fi.cfg) or "any"
        for rule, text, want in OCC_CASES:
            key = "%s|%s" % (cfgk, text)
            if rule not in kinds:
                ctx.incomplete_msg(rid, "grammar rule occur cannot produce %s any more" % rule)
                continue
            inner = ("enum", "Pair", {"rule": rule, "text": text, "children": []})
            pair = ("enum", "Pair", {"rule": "occur", "text": text, "children": [inner]})

            def on_call(kind, name, node, args, recv):
                if kind == "method" and isinstance(recv, tuple) and recv[:2] == ("enum", "Pair"):
                    d = recv[2]
                    if name == "as_rule":
                        return ("enum", "Rule::" + d["rule"], [])
                    if name == "into_inner":
                        return ("list", d["children"])
                    if name == "as_str":
                        return ("str", d["text"])
                    if name == "as_span":
                        return OPAQUE
                if kind == "fn" and name:
                    b = name.split("::")[-1]
                    if b in free:
                        fn = free[b]
                        names = [i["pat"]["n"] for i in fn.node["sig"]["inputs"] if "pat" in i and i["pat"]["k"] == "pid"]
                        sub = Interp(env=dict(zip(names, args)), cfg=absint.default_cfg, on_call=on_call)
                        try:
                            return sub.block(fn.node["body"])
                        except Return as r:
                            return r.v
                    if b in ("pest_span_to_ast_span", "pest_span_to_position"):
                        return OPAQUE
                    if b == "parse_u64_lit":
                        # the integer-literal primitive (decided by C07.intwrap/C07.single): decimal, 0x and 0b spellings
                        t = args[0][1] if isinstance(args[0], tuple) and args[0][:1] == ("str",) else None
                        try:
                            v = int(t, 16) if t[:2] in ("0x", "0X") else int(t[2:], 2) if t[:2] in ("0b", "0B") else int(t)
                            v = int(t[2:], 16) if t[:2] in ("0x", "0X") else v
                            return ("Some", v) if 0 <= v < 2**64 else ("None",)
                        except Exception:
                            return ("None",)
                    if b in ("from_str_radix",):
                        t = args[0][1] if isinstance(args[0], tuple) and args[0][:1] == ("str",) else None
                        try:
                            return ("Ok", int(t, args[1]))
                        except Exception:
                            return ("Err", OPAQUE)
                    if b == "try_from" and args and isinstance(args[0], int):
                        return ("Ok", args[0])
                if kind == "method" and name == "parse" and isinstance(recv, tuple) and recv[:1] == ("str",):
                    try:
                        return ("Ok", int(recv[1]))
                    except Exception:
                        return ("Err", OPAQUE)
                return NotImplemented
            it = Interp(env={"pair": pair, "input": OPAQUE}, cfg=absint.default_cfg if "not(" not in cfgk else (lambda c, cf=absint.default_cfg: cf(c) if "ast-span" not in c else "not(" in c),
                        on_call=on_call)
            it.resolve_fn = vf.new_fn_resolver(ctx.facts, [B], cfg=absint.default_cfg)
            try:
                try:
                    res = it.block(fi.node["body"])
                except Return as r:
                    res = r.v
            except Unknown as e:
                ctx.incomplete_msg(rid, "%s: %s" % (key, e))
                continue
            got = None
            if isinstance(res, tuple) and res[0] == "Ok":
                oc = res[1]
                if isinstance(oc, tuple) and oc[:1] == ("enum",) and isinstance(oc[2], dict):
                    o = oc[2].get("occur")
                    if isinstance(o, tuple) and o[:1] == ("enum",):
                        v = o[1].split("::")[-1]
                        fl = o[2] if isinstance(o[2], dict) else {}
                        un = lambda x: None if x in (None, ("None",)) else (x[1] if isinstance(x, tuple) and x[0] == "Some" else x)
                        got = (v, un(fl.get("lower")), un(fl.get("upper")))
            ctx.site(rid, key, B, fi.line, {"spelling": text, "ast": repr(got)})
            if got != want and (absint.has_opaque(got) or (got is None and absint.has_opaque(res))):
                ctx.incomplete_msg(rid, "%s: part of the converted occurrence could not be evaluated: %r" % (key, got))
            elif got != want:
                ctx.violation(rid, "%s|%s" % (cfgk, {"?": "optional", "*": "zero-or-more", "+": "one-or-more"}.get(text, "bounds " + text)), B, fi.line,
                              "convert_occurrence turns `%s` into %r; the grammar derivation is %r" % (text, got if got else res, want))


def r_rulehead(ctx, g):
    import absint
    from absint import Interp, Return, Unknown, OPAQUE, PyIter
    rid = "C03.rulehead"
    ctx.rule(rid, "convert_rule / convert_identifier on a grammar-shaped rule pair: a typename head gives Rule::Type, a groupname head "
                  "Rule::Group; the name and the socket prefix ($ -> TYPE, $$ -> GROUP, none -> None) are those written; `/=` sets "
                  "is_type_choice_alternate and `//=` is_group_choice_alternate and `=` neither; generic parameters are present exactly "
                  "when written; the value / entry is the converted type expression / group entry (abstract evaluation, sub-converters "
                  "scripted)", floor=16)
    f = ctx.facts
    B = "src/pest_bridge.rs"
    for need in ("rule", "typename", "groupname", "assign_t", "assign_g", "assign", "assign_t_choice", "assign_g_choice", "socket_type", "socket_group", "id"):
        if need not in g.rules:
            raise vf.Incomplete("grammar rule %s missing" % need)

    def P(rule, text="", *kids):
        return ("enum", "Pair", {"rule": rule, "text": text, "children": list(kids)})
    fr = {}
    for fi in f.fns(B):
        if fi.impl_self is None and not fi.in_test and fi.name in ("convert_rule", "convert_identifier") and absint.default_cfg_all(fi.node) and all(absint.default_cfg(c) for c in fi.cfg):
            fr.setdefault(fi.name, fi)
    if len(fr) != 2:
        raise vf.Incomplete("convert_rule / convert_identifier not found")
    for kind in ("typename", "groupname"):
        for sock, sockrule in ((None, None), ("$", "socket_type"), ("$$", "socket_group")):
            for assign in (("assign", "="), ("assign_t_choice", "/=")) if kind == "typename" else (("assign", "="), ("assign_g_choice", "//=")):
                for generic in (False, True):
                    key = "%s|%s%s|%s|%s" % (kind, sock or "", "name", assign[1], "generic" if generic else "plain")
                    idkids = ([P(sockrule, sock)] if sock else []) + [P("id", "name")]
                    head = P(kind, (sock or "") + "name", *idkids)
                    kids = [head]
                    if generic:
                        kids.append(P("generic_params", "<t>"))
                    kids.append(P("assign_t" if kind == "typename" else "assign_g", assign[1], P(assign[0], assign[1])))
                    kids.append(P("type_expr" if kind == "typename" else "group_entry", "body"))
                    pair = P("rule", "", *kids)

                    def on_call(knd, name, node, args, recv):
                        if knd == "method" and isinstance(recv, tuple) and recv[:2] == ("enum", "Pair"):
                            d = recv[2]
                            if name == "as_rule":
                                return ("enum", "Rule::" + d["rule"], [])
                            if name == "into_inner":
                                return PyIter(d["children"])
                            if name == "as_str":
                                return ("str", d["text"])
                            if name == "as_span":
                                return OPAQUE
                            if name == "clone":
                                return recv
                        if knd == "fn" and name:
                            b = name.split("::")[-1]
                            if b == "convert_identifier":
                                fn = fr[b]
                                names = [i["pat"]["n"] for i in fn.node["sig"]["inputs"] if "pat" in i and i["pat"]["k"] == "pid"]
                                sub = Interp(env=dict(zip(names, args)), cfg=absint.default_cfg, on_call=on_call)
                                try:
                                    return sub.block(fn.node["body"])
                                except Return as r:
                                    return r.v
                            if b in ("convert_generic_params", "convert_type_expr", "convert_group_entry"):
                                return ("Ok", ("converted", b, args[0][2]["text"] if isinstance(args[0], tuple) else None))
                            if b in ("pest_span_to_ast_span", "pest_span_to_position"):
                                return OPAQUE
                        return NotImplemented
                    it = Interp(env={"pair": pair, "input": OPAQUE}, cfg=absint.default_cfg, on_call=on_call)
                    it.resolve_fn = vf.new_fn_resolver(ctx.facts, [B], cfg=absint.default_cfg)
                    try:
                        try:
                            res = it.block(fr["convert_rule"].node["body"])
                        except Return as r:
                            res = r.v
                    except Unknown as e:
                        ctx.incomplete_msg(rid, "%s: %s" % (key, e))
                        continue
                    got = None
                    if isinstance(res, tuple) and res[0] == "Ok" and isinstance(res[1], tuple) and res[1][:1] == ("enum",):
                        var = res[1][1].split("::")[-1]
                        inner = res[1][2].get("rule") if isinstance(res[1][2], dict) else None
                        if isinstance(inner, tuple) and inner[:1] == ("Box",):
                            inner = inner[1]
                        if isinstance(inner, tuple) and inner[:1] == ("enum",) and isinstance(inner[2], dict):
                            fl = inner[2]
                            nm = fl.get("name")
                            nmf = nm[2] if isinstance(nm, tuple) and nm[:1] == ("enum",) and isinstance(nm[2], dict) else {}
                            sk = nmf.get("socket")
                            sk = None if sk in (None, ("None",)) else (sk[1][1].split("::")[-1] if isinstance(sk, tuple) and sk[0] == "Some" and isinstance(sk[1], tuple) else repr(sk))
                            idv = nmf.get("ident")
                            got = {"variant": var, "ident": idv[1] if isinstance(idv, tuple) and idv[:1] == ("str",) else repr(idv), "socket": sk,
                                   "alt": fl.get("is_type_choice_alternate", fl.get("is_group_choice_alternate")),
                                   "generic": isinstance(fl.get("generic_params"), tuple) and fl["generic_params"][0] == "Some",
                                   "body": (fl.get("value") or fl.get("entry"))}
                    want = {"variant": "Type" if kind == "typename" else "Group", "ident": "name", "socket": {None: None, "$": "TYPE", "$$": "GROUP"}[sock],
                            "alt": assign[0] != "assign", "generic": generic,
                            "body": ("converted", "convert_type_expr" if kind == "typename" else "convert_group_entry", "body")}
                    ctx.site(rid, key, B, fr["convert_rule"].line, {"ast": repr(got)[:160]})
                    if got != want and got is not None and any(absint.has_opaque(got.get(k)) for k in want if got.get(k) != want[k]):
                        ctx.incomplete_msg(rid, "%s: part of the converted rule could not be evaluated: %s" % (key, {k: got.get(k) for k in want if got.get(k) != want[k]}))
                    elif got != want:
                        diff = [k for k in want if got is None or got.get(k) != want[k]]
                        ctx.violation(rid, "%s|%s" % (kind, ",".join(diff)), B, fr["convert_rule"].line,
                                      "convert_rule on `%sname%s %s ...` (%s): AST has %s, the derivation says %s"
                                      % (sock or "", "<t>" if generic else "", assign[1], kind,
                                         {k: (got or {}).get(k) for k in diff}, {k: want[k] for k in diff}))


def r_type1(ctx, g):
    import absint
    from absint import Interp, Return, Unknown, OPAQUE, PyIter
    rid = "C03.type1"
    ctx.rule(rid, "convert_type1 on a grammar-shaped type1 pair: `A` gives no operator; `A .. B` a RangeOp with is_inclusive = true and `A ... B` "
                  "with is_inclusive = false, lower operand A and upper operand B in that order; `A .ctl B` a CtlOp with the converted control "
                  "name, target A and controller B (abstract evaluation, convert_type2 / convert_control_operator scripted)", floor=4)
    f = ctx.facts
    B = "src/pest_bridge.rs"
    fi = None
    for x in f.fn_all(B, "convert_type1"):
        if all(absint.default_cfg(c) for c in x.cfg):
            fi = x
    if fi is None:
        raise vf.Incomplete("convert_type1 not found")
    for need in ("type1", "type2", "range_op", "range_op_inclusive", "range_op_exclusive", "control_op", "controller"):
        if need not in g.rules:
            raise vf.Incomplete("grammar rule %s missing" % need)
    ch = g.children("type1")

    def P(rule, text="", *kids):
        return ("enum", "Pair", {"rule": rule, "text": text, "children": list(kids)})
    cases = {"plain": ([P("type2", "A")], None),
             "range ..": ([P("type2", "A"), P("range_op", "..", P("range_op_inclusive", "..")), P("type2", "B")], ("RangeOp", True)),
             "range ...": ([P("type2", "A"), P("range_op", "...", P("range_op_exclusive", "...")), P("type2", "B")], ("RangeOp", False)),
             "control": ([P("type2", "A"), P("control_op", ".size", P("control_name", "size")), P("controller", "B", P("type2", "B"))], ("CtlOp", "CTRL(.size)"))}
    if "COMMENT" in ch:
        # comments between the operands and the operator (RFC 8610: type1 = type2 [S (rangeop / ctlop) S type2]) appear as sibling pairs
        C = lambda: P("COMMENT", "; c\n")
        for base in ("range ..", "range ...", "control"):
            kids, want = cases[base]
            cases[base + " ;before-op"] = ([kids[0], C(), kids[1], kids[2]], want)
            cases[base + " ;after-op"] = ([kids[0], kids[1], C(), kids[2]], want)
            cases[base + " ;both"] = ([kids[0], C(), C(), kids[1], C(), kids[2]], want)
        cases["plain ;after"] = ([cases["plain"][0][0], C()], None)
    for cname, (kids, want) in cases.items():
        for k in kids:
            if k[2]["rule"] not in ch:
                ctx.incomplete_msg(rid, "type1 cannot contain %s per cddl.pest" % k[2]["rule"])
        pair = P("type1", cname, *kids)

        def on_call(knd, name, node, args, recv):
            if knd == "method" and isinstance(recv, tuple) and recv[:2] == ("enum", "Pair"):
                d = recv[2]
                if name == "as_rule":
                    return ("enum", "Rule::" + d["rule"], [])
                if name == "into_inner":
                    return PyIter(d["children"])
                if name == "as_str":
                    return ("str", d["text"])
                if name == "as_span":
                    return OPAQUE
                if name == "clone":
                    return recv
            if knd == "fn" and name:
                b = name.split("::")[-1]
                if b == "convert_type2":
                    return ("Ok", ("enum", "Type2::Converted", {"text": args[0][2]["text"]}))
                if b == "convert_control_operator":
                    return ("Ok", ("str", "CTRL(%s)" % args[0][2]["text"]))
                if b in ("pest_span_to_ast_span", "pest_span_to_position", "default"):
                    return OPAQUE
            return NotImplemented
        it = Interp(env={"pair": pair, "input": OPAQUE}, cfg=absint.default_cfg, on_call=on_call)
        it.resolve_fn = vf.new_fn_resolver(ctx.facts, [B], cfg=absint.default_cfg)
        try:
            try:
                res = it.block(fi.node["body"])
            except Return as r:
                res = r.v
        except Unknown as e:
            ctx.incomplete_msg(rid, "%s: %s" % (cname, e))
            continue
        got = None
        if isinstance(res, tuple) and res[0] == "Ok" and isinstance(res[1], tuple) and isinstance(res[1][2], dict):
            t1 = res[1][2]
            txt = lambda v: v[2].get("text") if isinstance(v, tuple) and v[:1] == ("enum",) and isinstance(v[2], dict) else repr(v)
            op = t1.get("operator")
            if op in (None, ("None",)):
                got = (txt(t1.get("type2")), None, None)
            elif isinstance(op, tuple) and op[0] == "Some" and isinstance(op[1], tuple) and isinstance(op[1][2], dict):
                o = op[1][2]
                oo = o.get("operator")
                kind = oo[1].split("::")[-1] if isinstance(oo, tuple) and oo[:1] == ("enum",) else repr(oo)
                det = oo[2].get("is_inclusive") if kind == "RangeOp" else (oo[2].get("ctrl") if isinstance(oo[2], dict) else None)
                if isinstance(det, tuple) and det[:1] == ("str",):
                    det = det[1]
                got = (txt(t1.get("type2")), (kind, det), txt(o.get("type2")))
        exp = ("A", want, "B" if want else None)
        ctx.site(rid, cname, B, fi.line, {"ast": repr(got)})
        if got != exp and (absint.has_opaque(got) or (got is None and absint.has_opaque(res))):
            ctx.incomplete_msg(rid, "%s: part of the converted type1 could not be evaluated: %r" % (cname, got))
        elif got != exp:
            ctx.violation(rid, cname, B, fi.line, "convert_type1 on %s gives (first operand, operator, second operand) = %r; the derivation is %r" % (cname, got, exp))



def r_groupentry(ctx, g):
    import absint
    from absint import Interp, Return, Unknown, OPAQUE, PyIter
    rid = "C03.groupentry"
    ctx.rule(rid, "convert_group_entry on a grammar-shaped pair of the `occur? groupname generic_args?` alternative and of the inline-group "
                  "alternative: a group name gives GroupEntry::TypeGroupname with the name written, the occurrence exactly when written and "
                  "the generic arguments exactly when written (they follow the name in the pair); `( group )` gives InlineGroup with its "
                  "occurrence (abstract evaluation, the sub-converters scripted)", floor=5)
    f = ctx.facts
    B = "src/pest_bridge.rs"
    fi = None
    for x in f.fn_all(B, "convert_group_entry"):
        if all(absint.default_cfg(c) for c in x.cfg):
            fi = x
    if fi is None:
        raise vf.Incomplete("convert_group_entry not found")
    ch = g.children("group_entry")
    for need in ("occur", "groupname", "generic_args", "group"):
        if need not in ch:
            raise vf.Incomplete("group_entry cannot contain %s per cddl.pest" % need)

    def P(rule, text="", *kids):
        return ("enum", "Pair", {"rule": rule, "text": text, "children": list(kids)})
    cases = {"g": ([P("groupname", "g", P("id", "g"))], (False, "g", False)),
             "g<int>": ([P("groupname", "g", P("id", "g")), P("generic_args", "<int>")], (False, "g", True)),
             "? g": ([P("occur", "?"), P("groupname", "g", P("id", "g"))], (True, "g", False)),
             "* g<int>": ([P("occur", "*"), P("groupname", "g", P("id", "g")), P("generic_args", "<int>")], (True, "g", True)),
             "$$g<int, tstr>": ([P("groupname", "$$g", P("socket_group", "$$"), P("id", "g")), P("generic_args", "<int, tstr>")], (False, "$$g", True))}
    for cname, (kids, want) in cases.items():
        pair = P("group_entry", cname, *kids)

        def on_call(knd, name, node, args, recv):
            if knd == "method" and isinstance(recv, tuple) and recv[:2] == ("enum", "Pair"):
                d = recv[2]
                if name == "as_rule":
                    return ("enum", "Rule::" + d["rule"], [])
                if name == "into_inner":
                    return PyIter(d["children"])
                if name == "as_str":
                    return ("str", d["text"])
                if name == "as_span":
                    return OPAQUE
                if name == "clone":
                    return recv
            if knd == "fn" and name:
                b = name.split("::")[-1]
                if b == "convert_identifier":
                    return ("Ok", ("enum", "Identifier", {"text": args[0][2]["text"]}))
                if b == "convert_occurrence":
                    return ("Ok", ("enum", "Occurrence", {"text": args[0][2]["text"]}))
                if b == "convert_generic_args":
                    return ("Ok", ("enum", "GenericArgs", {"text": args[0][2]["text"]}))
                if b in ("pest_span_to_ast_span", "pest_span_to_position", "default"):
                    return OPAQUE
            return NotImplemented
        it = Interp(env={"pair": pair, "input": OPAQUE}, cfg=absint.default_cfg, on_call=on_call)
        it.resolve_fn = vf.new_fn_resolver(ctx.facts, [B], cfg=absint.default_cfg)
        try:
            try:
                res = it.block(fi.node["body"])
            except Return as r:
                res = r.v
        except Unknown as e:
            ctx.incomplete_msg(rid, "%s: %s" % (cname, e))
            continue
        got = None
        if isinstance(res, tuple) and res[0] == "Ok" and isinstance(res[1], tuple) and res[1][:1] == ("enum",) and res[1][1].endswith("TypeGroupname") and isinstance(res[1][2], dict):
            ge = res[1][2].get("ge")
            if isinstance(ge, tuple) and ge[:1] == ("enum",) and isinstance(ge[2], dict):
                d = ge[2]
                some = lambda v: isinstance(v, tuple) and v[:1] == ("Some",)
                nm = d.get("name")
                if not absint.has_opaque((d.get("occur"), d.get("generic_args"))) and isinstance(nm, tuple) and nm[:1] == ("enum",) and isinstance(nm[2], dict):
                    got = (some(d.get("occur")), nm[2].get("text"), some(d.get("generic_args")))
        ctx.site(rid, cname, B, fi.line, {"ast": repr(got)})
        if got is None and absint.has_opaque(res):
            ctx.incomplete_msg(rid, "%s: the converted entry could not be evaluated: %r" % (cname, res if not isinstance(res, tuple) else res[:2]))
        elif got != want:
            ctx.violation(rid, cname, B, fi.line, "convert_group_entry on `%s` gives (occurrence present, name, generic arguments present) = %r; the derivation is %r"
                          % (cname, got if got is not None else "not a TypeGroupname entry", want))


# ------------------------------------------------------------------ lexical layer vs the ABNF
NONASCII = "\u00A0-\uD7FF\uE000-\U0010FFFD"
HEX = "0-9a-fA-F"
_UINT = r"(?:[1-9][0-9]*|0[xX][%s]+|0[bB][01]+|0)" % HEX
_HEXSCALAR = r"(?:10[%(h)s]{4}|[1-9a-fA-F][%(h)s]{4}|(?:[0-9a-cA-CeEfF][%(h)s]{3}|[dD][0-7][%(h)s]{2})|[%(h)s]{1,3})" % {"h": HEX}
_NONSURR = r"(?:[0-9a-cA-CeEfF][%(h)s]{3}|[dD][0-7][%(h)s]{2})" % {"h": HEX}
_HEXCHAR = r"(?:\{(?:0+%(hs)s?|%(hs)s)\}|%(ns)s|[dD][89abAB][%(h)s]{2}\\u[dD][c-fC-F][%(h)s]{2})" % {"hs": _HEXSCALAR, "ns": _NONSURR, "h": HEX}
_SESC = r"\\(?:[\"/\\bfnrt]|u%s)" % _HEXCHAR
RFC_LEX = {
    # RFC 8610 Appendix B as updated by RFC 9682 Appendix A (ABNF strings are case-insensitive)
    "id": r"[A-Za-z@_$](?:[-.]*[A-Za-z@_$0-9])*",
    "number": r"-?0[xX][%(h)s]+(?:\.[%(h)s]+)?[pP][+-]?[0-9]+|-?%(u)s(?:\.[0-9]+)?(?:[eE][+-]?[0-9]+)?" % {"h": HEX, "u": _UINT},
    "text": r"\"(?:[\x20-\x21\x23-\x5B\x5D-\x7E%(na)s]|%(sesc)s)*\"" % {"na": NONASCII, "sesc": _SESC},
    "bytes": r"'(?:[\x20-\x26\x28-\x5B\x5D-\x7E%(na)s]|%(sesc)s|\\'|\r?\n)*'" % {"na": NONASCII, "sesc": _SESC},
    "comment": r";(?:[\x20-\x7E%(na)s])*" % {"na": NONASCII},
}
# class -> (crate rules whose union is compared, alphabet, max length quick / thorough, wrapper)
LEX_CLASSES = {
    "id": (("typename", "groupname"), ["a", "Z", "7", "-", ".", "@", "_", "$"], 4, 5, ("", "")),
    "number": (("number",), ["0", "1", "9", "a", "x", "b", "e", "p", ".", "-", "+"], 4, 5, ("", "")),
    "text": (("text_value",), ["a", "\"", "\\", "/", "n", "q", "\t", "\n", "\x7f", "\u00e9", "\x01"], 4, 5, ("\"", "\"")),
    "bytes": (("bytes_utf8",), ["a", "'", "\\", "\"", "n", "q", "\t", "\n", "\r", "\x7f", "\u00e9"], 4, 5, ("'", "'")),
    "comment": (("COMMENT",), ["a", ";", "\x7f", "\u00e9", "\x01", "\x85", "\""], 4, 5, (";", "")),
}
LEX_TARGETED = {
    "text": ['"\\u00e9"', '"\\u{e9}"', '"\\u{0000e9}"', '"\\uD83D\\uDE00"', '"\\u{1F600}"', '"\\x41"', '"\\\'"'],
    "bytes": ["'it\\'s'", "'a\\\\'", "'\\n'", "'\\u00e9'", "'\\q'"],
    "id": ["a--b", "a-.b", "a.-.b", "$$$a", "$a$b", "a$"],
    "number": ["0x1p3", "-0x1.8p-2", "1e5", "1.5e+10", "0b1e2", "0x1.8", "1.e5", "-0", "0X1F", "1E5", "0B101"],
}


def r_lexical(ctx, g):
    import re
    import itertools
    rid = "C03.lexical"
    ctx.rule(rid, "the lexical rules of cddl.pest (identifiers with socket prefix, numbers, text strings, unprefixed byte strings, comment "
                  "bodies) accept exactly the strings the ABNF of RFC 8610 Appendix B as updated by RFC 9682 derives for id, number, text, "
                  "bytes and COMMENT: both are evaluated on every string up to a length bound over a class-specific alphabet (letters, "
                  "separators, quotes, backslash, control characters, DEL, a non-ASCII letter) plus targeted spellings; which \\u escapes "
                  "denote a scalar value is decided on the unescaping function by C07.unescape, not here", floor=5)
    m = pestg.Matcher(ctx.facts.grammar())
    total = 0
    for cls, (rules, alphabet, nq, nt, (pre, post)) in LEX_CLASSES.items():
        ref = re.compile(RFC_LEX[cls], re.S)
        maxlen = nq if ctx.tier == "quick" else nt
        for r in rules:
            if r not in g.rules:
                raise vf.Incomplete("grammar rule %s missing" % r)
        diffs = {"rejects-derivable": [], "accepts-underivable": []}
        n = 0

        def strings():
            for k in range(0, maxlen + 1):
                for t in itertools.product(alphabet, repeat=k):
                    yield pre + "".join(t) + post
            for t in LEX_TARGETED.get(cls, []):
                yield t
        for w in strings():
            n += 1
            try:
                got = any(m.match(r, w) for r in rules)
            except pestg.Unsupported as e:
                raise vf.Incomplete("matcher: %s" % e)
            exp = ref.fullmatch(w) is not None
            if got == exp:
                continue
            if cls == "text" and "\\u" in w and got and not exp:
                continue        # the grammar admits any hex digits after \u; which of them are scalar values is decided by C07.unescape
            diffs["rejects-derivable" if exp else "accepts-underivable"].append(w)
        total += n
        ctx.site(rid, cls, "cddl.pest", g.rules[rules[0]]["l"], {"strings": n, "max_len": maxlen, "alphabet": [repr(a)[1:-1] for a in alphabet],
                                                                   "rejects_derivable": len(diffs["rejects-derivable"]), "accepts_underivable": len(diffs["accepts-underivable"])})
        for kind, ws in diffs.items():
            # one report per distinguishing feature: the shortest witness of each (class, kind, feature)
            feats = {}
            for w in sorted(ws, key=lambda x: (len(x), x)):
                body = w[len(pre):len(w) - len(post)] if post else w[len(pre):]
                feat = _lex_feature(cls, kind, body)
                feats.setdefault(feat, w)
            for feat, w in sorted(feats.items()):
                ctx.violation(rid, "%s|%s|%s" % (cls, kind, feat), "cddl.pest", g.rules[rules[0]]["l"],
                              "%s: the grammar %s %r (%s); %d such string(s) up to length %d" % (
                                  cls, "rejects the derivable" if kind == "rejects-derivable" else "accepts the underivable", w, feat,
                                  sum(1 for x in ws if _lex_feature(cls, kind, x[len(pre):len(x) - len(post)] if post else x[len(pre):]) == feat), maxlen))
    ctx.extra["evaluations"] = ctx.extra.get("evaluations", 0) + total
    ctx.extra["distinct_nontrivial"] = ctx.extra.get("distinct_nontrivial", 0) + total


def _lex_feature(cls, kind, body):
    """the feature of a differing string that names the disagreement (so that each disagreement is reported once)"""
    import re
    if cls in ("text", "bytes", "comment"):
        for ch, name in (("\t", "raw tab"), ("\n", "raw line feed"), ("\r", "raw carriage return"), ("\x7f", "DEL"), ("\x01", "C0 control character"),
                         ("\x85", "C1 control character")):
            if ch in body:
                return name
        mm = re.search(r"\\(.?)", body)
        if mm:
            return "backslash followed by %r" % mm.group(1) if mm.group(1) else "trailing backslash"
        return "other"
    if cls == "id":
        if re.search(r"[-.]{2,}", body):
            return "consecutive - or ."
        if body.startswith("$$$") or re.match(r"\${1,2}$", body):
            return "only or more than two leading $"
        if body.endswith(("-", ".")):
            return "trailing - or ."
        if re.match(r"\${1,2}[-.0-9]", body):
            return "$ followed by a digit, - or . (the ABNF's id may continue with any of them after a leading $)"
        return "other"
    if cls == "number":
        if re.match(r"-?0[bB][01]+[.eE]", body) or re.match(r"-?0[xX][0-9a-fA-F]+\.[0-9a-fA-F]*$", body) or re.match(r"-?0[xX][0-9a-fA-F]*\.", body):
            return "radix integer with fraction or exponent"
        return "other"
    return "other"


def run(ctx):
    g = pestg.G(ctx.facts.grammar())
    for name, fn in (("C03.prefix", r_prefix), ("C03.ctltable", r_ctltable), ("C03.juncture", r_juncture),
                     ("C03.children", r_children), ("C03.order", r_order), ("C03.assign", r_assign), ("C03.occur", r_occur), ("C03.rulehead", r_rulehead), ("C03.type1", r_type1), ("C03.groupentry", r_groupentry), ("C03.lexical", r_lexical), ("C03.ctlboundary", r_ctlboundary)):
        ctx.guarded(name, lambda c, fn=fn: fn(c, g))
    # which text literals the parser accepts also depends on the unescaping function the bridge applies to every text literal:
    # the grammar admits any hex digits after \\u, the function decides which of them denote a scalar value
    import c07
    ctx.guarded("C03.unescape", lambda c: c07.r_unescape(c, rid="C03.unescape"))
