"""C18 — the CLI reports exactly what the library decides."""
import vf

META = {
    "level": "other",
    "explanation": (
        "src/bin/cli.rs is straight-line routing that no test reaches (cfg(not(test))). (scenario) main is abstractly interpreted on scripted "
        "invocations — which files exist, what the library answers per document, UTF-8 or binary stdin, --ci, --features, --csv-header, both "
        "additional-controls twins — with the file system, the logger macros and the library entry points scripted; the calls made, the "
        "reports logged and main's result are compared with the property's statement for every invocation of the bounded domain. "
        "Helpers extracted from main are interpreted too. (ci) the error! macro's definition logs and returns Err under --ci. (listargs) "
        "list-valued options split at the delimiter. Process-level behaviour (exit codes of the built binary) follows from main's Result "
        "and is not executed."),
    "assumptions": ["`fn main() -> Result<(), Box<dyn Error>>` maps Err to a non-zero exit status (Rust std)",
                    "std::fs / std::io / Path behave as scripted (read returns the file's content; exists() tells whether it is there)"],
    "trusted_base": ["syn 2 parser", "lib/absint.py"],
    "technique": "static analysis: abstract interpretation of main over a bounded-exhaustive domain of scripted invocations; macro-definition rule; clap attribute rule",
}

CLI = "src/bin/cli.rs"
ROUTES = {"json": "validate_json_from_str", "cbor": "validate_cbor_from_slice", "csv": "validate_csv_from_str"}


def walk_ctx(n, anc=()):
    if isinstance(n, dict):
        if "k" in n:
            yield n, anc
            anc = anc + (n,)
        for v in n.values():
            if isinstance(v, (dict, list)):
                yield from walk_ctx(v, anc)
    elif isinstance(n, list):
        for v in n:
            yield from walk_ctx(v, anc)


def r_listargs(ctx):
    rid = "C18.listargs"
    ctx.rule(rid, "every list-valued option of `cddl validate` (a field of type Option<Vec<String>>: --features, --json, --cbor, --csv) is "
                  "declared to split its value at the delimiter (use_value_delimiter = true or value_delimiter = ..), so that the documented "
                  "comma-separated form `--features a,b` reaches the library as the list [a, b] and not as one feature \"a,b\"", floor=4)
    it = ctx.facts.item(CLI, "structdef", "Validate")
    if it is None:
        raise vf.Incomplete("struct Validate not found in %s" % CLI)
    n = 0
    for fld in it["fields"]:
        if fld["ty"].replace(" ", "") != "Option<Vec<String>>":
            continue
        n += 1
        attrs = " ".join(fld.get("attrs") or [])
        split = "use_value_delimiter=true" in attrs.replace(" ", "") or "value_delimiter=" in attrs.replace(" ", "").replace("use_value_delimiter=", "")
        ctx.site(rid, fld["n"], CLI, fld["l"], {"clap": attrs[:160], "splits": split})
        if not split:
            ctx.violation(rid, fld["n"], CLI, fld["l"], "option --%s is list-valued but does not split its value at the delimiter: `--%s a,b` is passed on "
                          "as the single value \"a,b\"" % (fld["n"], fld["n"]))



def _scenarios(tier):
    """(ci, features, csv_header, docs, stdin) — docs: list of (route, name, state) with state ok | fail | missing"""
    base = [("json", "j1"), ("json", "j2"), ("cbor", "c1"), ("cbor", "c2"), ("csv", "v1"), ("csv", "v2")]
    sets = [[(r, n, "ok") for r, n in base]]
    for i in range(len(base)):
        for st in ("fail", "missing"):
            sets.append([(r, n, st if k == i else "ok") for k, (r, n) in enumerate(base)])
    # two faults in different positions (the first one decides under --ci)
    for i in range(len(base)):
        for j in range(i + 1, len(base)):
            sets.append([(r, n, "fail" if k == i else ("missing" if k == j else "ok")) for k, (r, n) in enumerate(base)])
    if tier == "thorough":
        import itertools
        sets = [[(r, n, st) for (r, n), st in zip(base, sts)] for sts in itertools.product(("ok", "fail", "missing"), repeat=len(base))]
    sets.append([])                                           # no document files at all
    sets.append([("json", "j1", "ok")])
    sets.append([("cbor", "c1", "fail")])
    sets.append([("csv", "v1", "ok")])
    stdins = [None, ("utf8", "ok"), ("utf8", "fail"), ("binary", "ok"), ("binary", "fail")]
    for docs in sets:
        for ci in (False, True):
            for feats in (None, ["feat-a", "feat-b"]):
                for hdr in (False, True):
                    for sd in (stdins if (len(docs) <= 1 or (tier == "thorough" and all(d[2] == "ok" for d in docs))) else [None]):
                        yield ci, feats, hdr, docs, sd


def r_scenario(ctx, main):
    import absint
    from absint import Interp, MutList, Return, Unknown, OPAQUE
    rid = "C18.scenario"
    ctx.rule(rid, "main is interpreted on scripted invocations of `cddl validate` (files per route present/missing, library verdict per document "
                  "Ok/Err, stdin UTF-8/binary, --ci, --features, --csv-header; both additional-controls twins): the library calls made are "
                  "exactly one per present document, in command-line order, with the route's own entry point, the schema file's text, that "
                  "document's own content, the user's feature list and Some(true) for the header exactly under --csv-header; a document is "
                  "reported successful iff its call returned Ok and as an error iff it returned Err or the file is missing; main returns Err "
                  "iff --ci and some document failed or is missing (stopping there), or the schema does not compile", floor=8)
    f = ctx.facts
    UNIT = ("tuple", [])
    n_eval = 0
    seen = set()

    def viol(key, msg):
        if key not in seen:
            seen.add(key)
            ctx.violation(rid, key, CLI, main.line, msg)
    for cfgname, addl in (("addl", True), ("noaddl", False)):
        cfg = lambda c, addl=addl: absint.eval_cfg(c, lambda ft: ft not in ("lsp", "_build-parser") and (ft != "additional-controls" or addl))
        resolver = vf.new_fn_resolver(f, [CLI], cfg=cfg)
        for ci, feats, hdr, docs, sd in _scenarios(ctx.tier):
            if feats is not None and not addl:
                continue
            for schema_ok in ((True, False) if not docs else (True,)):
                label = "%s ci=%s features=%s header=%s docs=%s stdin=%s schema_ok=%s" % (cfgname, ci, feats, hdr, ",".join("%s:%s" % (n, st) for _, n, st in docs), sd, schema_ok)
                state = {n: st for _, n, st in docs}
                calls, log = [], []

                def content_of(v):
                    # the document a value stands for: ("content", name) possibly wrapped in a one-element buffer
                    if isinstance(v, tuple) and v[:1] == ("content",):
                        return v[1]
                    if isinstance(v, (list, MutList)) and len(v) == 1:
                        return content_of(v[0])
                    if isinstance(v, (list, MutList)) and len(v) > 1 and all(content_of(x) for x in v):
                        return "+".join(content_of(x) for x in v)      # a buffer holding several documents' bytes
                    return None

                def fname(v):
                    if isinstance(v, tuple) and v[:1] in (("path",), ("file",)):
                        return fname(v[1])
                    if isinstance(v, tuple) and v[:1] == ("str",):
                        return v[1]
                    return None

                def lib(route_fn, args):
                    want_n = {"validate_json_from_str": 2, "validate_cbor_from_slice": 2, "validate_csv_from_str": 3}[route_fn] + (1 if addl else 0)
                    if len(args) != want_n:
                        raise Unknown("%s called with %d arguments" % (route_fn, len(args)))
                    doc = content_of(args[1])
                    rec = {"fn": route_fn, "schema": content_of(args[0]), "doc": doc,
                           "header": args[2] if route_fn == "validate_csv_from_str" else None, "features": args[-1] if addl else None}
                    calls.append(rec)
                    st = state.get(doc) if doc != "<stdin>" else (sd[1] if sd else None)
                    if st == "ok":
                        return ("Ok", UNIT)
                    if st == "fail":
                        return ("Err", ("liberr", doc))
                    if doc is None:
                        raise Unknown("library called on %r, which this scenario does not provide" % (args[1],))
                    return ("Err", ("liberr", doc))      # not one of the scenario's documents: reported by the call comparison

                def on_call(kind, nm, node, args, recv):
                    base = (nm or "").split("::")[-1]
                    if kind == "macro":
                        if nm in ("info", "warn", "debug", "trace"):
                            log.append((nm, args))
                            return UNIT
                        if nm == "error":
                            log.append(("error", args[1:]))
                            if args and args[0] is True:
                                raise Return(("Err", ("ci-error", args[1:])))
                            if not args or args[0] is not False:
                                raise Unknown("error! with first argument %r" % (args[:1],))
                            return UNIT
                        if nm == "format":
                            # a message built ahead of the report: keep the names of the values it is built from readable
                            a = list(node.get("args") or [])
                            if a and a[0].get("k") == "lit" and a[0].get("t") == "str":
                                vals = []
                                for x in a[1:]:
                                    v = absint.CURRENT.eval(x) if absint.CURRENT is not None else OPAQUE
                                    t = fname(v) if fname(v) is not None else ("<%s>" % v[1] if isinstance(v, tuple) and v[:1] == ("liberr",) else None)
                                    vals.append(t if t is not None else "?")
                                parts = __import__("re").split(r"\{[^{}]*\}", a[0]["v"])
                                out = parts[0]
                                for p_, v_ in zip(parts[1:], vals + ["?"] * len(parts)):
                                    out += v_ + p_
                                return ("str", out)
                            return OPAQUE
                        if nm in ("write", "writeln"):
                            return OPAQUE
                        return NotImplemented
                    if kind == "fn":
                        if nm in ("TermLogger::init",):
                            return ("Ok", UNIT)
                        if nm in ("Cli::parse", "Cli::parse_from"):
                            return cli
                        if nm in ("Path::new", "PathBuf::from") and args:
                            return ("path", args[0])
                        if nm in ("fs::read_to_string", "std::fs::read_to_string", "fs::read", "std::fs::read") and args:
                            x = fname(args[0])
                            if x is None:
                                raise Unknown("read of %r" % (args[0],))
                            return ("Ok", ("content", x))
                        if nm in ("File::open", "fs::File::open", "std::fs::File::open") and args:
                            x = fname(args[0])
                            if x is None:
                                raise Unknown("open of %r" % (args[0],))
                            return ("Ok", ("file", ("str", x)))
                        if nm in ("io::stdin", "std::io::stdin"):
                            return ("file", ("str", "<stdin>"))
                        if nm in ("std::str::from_utf8", "str::from_utf8", "core::str::from_utf8") and args:
                            x = content_of(args[0])
                            if x != "<stdin>" or sd is None:
                                raise Unknown("from_utf8 of %r" % (args[0],))
                            return ("Ok", ("content", x)) if sd[0] == "utf8" else ("Err", OPAQUE)
                        if nm in ("String::from_utf8",) and args:
                            x = content_of(args[0])
                            if x != "<stdin>" or sd is None:
                                raise Unknown("from_utf8 of %r" % (args[0],))
                            return ("Ok", ("content", x)) if sd[0] == "utf8" else ("Err", OPAQUE)
                        if base == "root_type_name_from_cddl_str" and args:
                            return ("Ok", ("str", "root")) if schema_ok else ("Err", ("schema-error",))
                        if base == "cddl_from_str" and args:
                            return ("Ok", OPAQUE) if schema_ok else ("Err", ("schema-error",))
                        if base in ROUTES.values():
                            return lib(base, args)
                        return NotImplemented
                    if kind == "method":
                        if isinstance(recv, tuple) and recv[:1] == ("path",):
                            if nm == "exists" or nm == "is_file":
                                x = fname(recv)
                                if x == "schema.cddl":
                                    return True
                                if x not in state:
                                    raise Unknown("exists() of %r" % (recv,))
                                return state[x] != "missing"
                            if nm in ("display", "to_path_buf", "as_ref", "to_owned", "clone"):
                                return recv
                            raise Unknown("Path::%s" % nm)
                        if isinstance(recv, tuple) and recv[:1] == ("file",):
                            if nm in ("lock", "by_ref"):
                                return recv
                            if nm in ("read_to_end", "read_to_string"):
                                buf = absint.CURRENT.eval(node["a"][0])
                                if not isinstance(buf, MutList):
                                    raise Unknown("%s into %r" % (nm, buf))
                                buf.append(("content", fname(recv)))
                                return ("Ok", 1)
                            raise Unknown("File::%s" % nm)
                        if isinstance(recv, tuple) and recv[:1] == ("liberr",):
                            if nm in ("to_string", "trim_end", "trim", "as_str"):
                                return recv
                        if isinstance(recv, tuple) and recv[:1] == ("content",) and nm in ("as_str", "as_bytes", "as_slice", "to_string", "clone", "to_owned", "as_ref", "into_bytes", "to_vec"):
                            return recv
                        return NotImplemented
                    return NotImplemented
                fo = ("None",) if feats is None else ("Some", MutList([("str", x) for x in feats]))
                groups = {r: [n for rr, n, _ in docs if rr == r] for r in ROUTES}
                validate = ("enum", "Validate", {
                    "cddl": ("str", "schema.cddl"), "features": fo, "csv_header": hdr, "stdin": sd is not None,
                    **{r: (("Some", MutList([("str", n) for n in groups[r]])) if groups[r] else ("None",)) for r in ROUTES}})
                cli = ("enum", "Cli", {"ci": ci, "command": ("enum", "Commands::Validate", [validate])})
                it = Interp(env={}, cfg=cfg, on_call=on_call, max_steps=200000)
                it.resolve_fn = resolver
                it.strict_try = True
                self_it = [it]
                try:
                    try:
                        res = it.block(main.node["body"])
                    except Return as r:
                        res = r.v
                except Unknown as e:
                    ctx.incomplete_msg(rid, "%s: %s" % (label, e))
                    continue
                n_eval += 1
                # ---- oracle
                exp_calls, exp_log, exp_err = [], [], False
                order = [(r, n) for r in ("json", "cbor", "csv") for n in groups[r]]
                if not schema_ok:
                    exp_err = True
                else:
                    for r, n in order:
                        if state[n] == "missing":
                            exp_log.append(("error", n))
                        else:
                            exp_calls.append((ROUTES[r], n))
                            exp_log.append(("info" if state[n] == "ok" else "error", n))
                        if state[n] != "ok" and ci:
                            exp_err = True
                            break
                    if not exp_err and sd is not None:
                        exp_calls.append((ROUTES["json"] if sd[0] == "utf8" else ROUTES["cbor"], "<stdin>"))
                        exp_log.append(("info" if sd[1] == "ok" else "error", "<stdin>"))
                        if sd[1] != "ok" and ci:
                            exp_err = True
                # ---- compare calls
                got_calls = [(c["fn"], c["doc"]) for c in calls]
                routes_seen = {c["fn"] for c in calls}
                if got_calls != exp_calls:
                    kind = "route" if [d for _, d in got_calls] == [d for _, d in exp_calls] else ("order" if sorted(map(str, got_calls)) == sorted(map(str, exp_calls)) else "calls")
                    viol("%s|%s" % (kind, cfgname), "%s: the library calls are %s; expected %s" % (label, got_calls, exp_calls))
                for c in calls:
                    if c["schema"] != "schema.cddl":
                        viol("schema|%s|%s" % (c["fn"], cfgname), "%s: %s is given %r as the schema, not the text of the --cddl file" % (label, c["fn"], c["schema"]))
                    if addl:
                        ft = c["features"]
                        got_f = None if ft == ("None",) else ([x[1] if isinstance(x, tuple) and x[:1] == ("str",) else x for x in ft[1]] if isinstance(ft, tuple) and ft[0] == "Some" and isinstance(ft[1], (list, MutList)) else "?%r" % (ft,))
                        if got_f != feats:
                            viol("features|%s|%s" % (c["fn"], "none" if feats is None else "some"), "%s: %s for %s is called with features %r; the user's --features list is %r" % (label, c["fn"], c["doc"], got_f, feats))
                    if c["fn"] == ROUTES["csv"]:
                        h = c["header"]
                        okh = (h == ("Some", True)) if hdr else (h in (("None",), ("Some", False)))
                        if not okh:
                            viol("header|%s|%s" % (hdr, cfgname), "%s: validate_csv_from_str gets has_header=%r with --csv-header %s" % (label, h, "given" if hdr else "absent"))
                # ---- compare reports: each expected (kind, doc) in order; a log record is attributed to the document it mentions
                def doc_of(rec):
                    for a in rec[1]:
                        x = fname(a) if not (isinstance(a, tuple) and a[:1] == ("liberr",)) else None
                        if x in state:
                            return x
                    txt = " ".join(a[1] for a in rec[1] if isinstance(a, tuple) and a[:1] == ("str",) and isinstance(a[1], str))
                    if "stdin" in txt:
                        return "<stdin>"
                    for name in state:
                        if __import__("re").search(r"(?<![A-Za-z0-9])%s(?![A-Za-z0-9])" % name, txt):
                            return name
                    return None
                got_log = [(k, doc_of((k, a))) for k, a in log]
                # reports about the schema or the feature list name no document; a validation report that cannot be attributed to one
                # makes the scenario undecidable, not wrong
                unattributed = [k for (k, d), (_, a) in zip(got_log, log) if d is None and any(
                    isinstance(x, tuple) and x[:1] == ("str",) and isinstance(x[1], str) and "alidation" in x[1] for x in a)]
                got_log = [(k, d) for k, d in got_log if d is not None]
                if unattributed and got_log != exp_log:
                    ctx.incomplete_msg(rid, "%s: %d validation report(s) could not be attributed to a document" % (label, len(unattributed)))
                    continue
                if schema_ok and got_log != exp_log:
                    viol("report|%s" % cfgname, "%s: reports are %s; expected %s (info = success, error = failure)" % (label, got_log, exp_log))
                is_err = isinstance(res, tuple) and res[:1] == ("Err",)
                is_ok = isinstance(res, tuple) and res[:1] == ("Ok",)
                if not (is_err or is_ok):
                    ctx.incomplete_msg(rid, "%s: main's result %r" % (label, res))
                elif is_err != exp_err:
                    viol("exit|ci=%s|%s" % (ci, cfgname), "%s: main returns %s; expected %s" % (label, "Err" if is_err else "Ok", "Err" if exp_err else "Ok"))
        ctx.site(rid, "validate|" + cfgname, CLI, main.line, {"scenarios": n_eval})
    # compile-cddl: present file, parser verdict decides; missing file under --ci fails
    for ci in (False, True):
        # "ok-unchecked": the parser (cddl_from_str) accepts the file, the stricter checked entry point (CDDL::from_slice / from_str, which also
        # rejects undefined references and duplicate rules) does not — `compile-cddl` succeeds exactly when the *parser* accepts
        for st in ("ok", "fail", "missing", "ok-unchecked"):
            log = []

            def on_call(kind, nm, node, args, recv, st=st, ci=ci):
                base = (nm or "").split("::")[-1]
                if kind == "macro":
                    if nm == "info":
                        log.append(("info", args))
                        return UNIT
                    if nm == "error":
                        log.append(("error", args[1:]))
                        if args and args[0] is True:
                            raise Return(("Err", ("ci-error",)))
                        return UNIT
                    return NotImplemented
                if kind == "fn":
                    if nm == "TermLogger::init":
                        return ("Ok", UNIT)
                    if nm == "Cli::parse":
                        return ("enum", "Cli", {"ci": ci, "command": ("enum", "Commands::CompileCddl", {"file": ("str", "s.cddl")})})
                    if nm == "Path::new":
                        return ("path", args[0])
                    if nm in ("fs::read_to_string", "std::fs::read_to_string", "fs::read", "std::fs::read"):
                        return ("Ok", ("content", "s.cddl"))
                    if base == "cddl_from_str":
                        return ("Ok", OPAQUE) if st in ("ok", "ok-unchecked") else ("Err", ("parse-error",))
                    if nm in ("CDDL::from_slice", "CDDL::from_str", "cddl::ast::CDDL::from_slice", "ast::CDDL::from_slice", "CDDL::try_from", "cddl::ast::CDDL::from_str"):
                        return ("Ok", OPAQUE) if st == "ok" else ("Err", ("checked-entry-point-error",))
                    return NotImplemented
                if kind == "method" and isinstance(recv, tuple) and recv[:1] == ("path",) and nm == "exists":
                    return st != "missing"
                return NotImplemented
            it = Interp(env={}, cfg=absint.default_cfg, on_call=on_call)
            it.resolve_fn = vf.new_fn_resolver(f, [CLI], cfg=absint.default_cfg)
            it.strict_try = True
            try:
                try:
                    res = it.block(main.node["body"])
                except Return as r:
                    res = r.v
            except Unknown as e:
                ctx.incomplete_msg(rid, "compile-cddl %s ci=%s: %s" % (st, ci, e))
                continue
            is_err = isinstance(res, tuple) and res[:1] == ("Err",)
            want_err = st == "fail" or (st == "missing" and ci)
            ctx.site(rid, "compile-cddl|%s|ci=%s" % (st, ci), CLI, main.line, {"returns": "Err" if is_err else repr(res)[:20], "reports": [k for k, _ in log]})
            if is_err != want_err:
                ctx.violation(rid, "compile-cddl|%s|ci=%s" % (st, ci), CLI, main.line, "compile-cddl on a file the parser %s (ci=%s) returns %s" %
                              ({"ok": "accepts", "fail": "rejects", "missing": "cannot read: it is missing",
                                "ok-unchecked": "accepts (while the checked entry point CDDL::from_slice would reject it: an undefined reference)"}[st], ci, "Err" if is_err else "Ok"))
            if st in ("ok", "ok-unchecked") and not is_err and [k for k, _ in log] != ["info"]:
                ctx.violation(rid, "compile-cddl|report-ok", CLI, main.line, "compile-cddl on an accepted file reports %s" % [k for k, _ in log])
            if st == "fail" and "info" in [k for k, _ in log]:
                ctx.violation(rid, "compile-cddl|report-fail", CLI, main.line, "compile-cddl reports conformance for a file the parser rejects")
    if n_eval < 400:
        ctx.incomplete_msg(rid, "only %d invocations evaluated" % n_eval)
    ctx.extra["evaluations"] = ctx.extra.get("evaluations", 0) + n_eval
    ctx.extra["distinct_nontrivial"] = ctx.extra.get("distinct_nontrivial", 0) + n_eval


def run(ctx):
    ctx.guarded("C18.listargs", r_listargs)
    f = ctx.facts
    mains = [fi for fi in f.fns(CLI) if fi.name == "main" and not any("target_arch=\"wasm32\"" == c for c in fi.cfg)]
    if not mains:
        ctx.incomplete_msg("C18", "main not found in %s" % CLI)
        return
    main = mains[0]
    ctx.guarded("C18.scenario", lambda c: r_scenario(c, main))
    ctx.rule("C18.ci", "the error! macro logs and, when its first argument is true, returns Err", floor=1)
    mac = [it for it in f.files[CLI]["items"] if it.get("k") == "imacro" and it.get("ident") == "error"]
    if not mac:
        ctx.incomplete_msg("C18.ci", "macro_rules! error not found")
    else:
        t = mac[0].get("toks", "")
        good = "log::error!" in t and "if$ci" in t.replace(" ", "") and "returnErr(" in t.replace(" ", "")
        ctx.site("C18.ci", "macro error!", CLI, mac[0]["l"], {"logs": "log::error!" in t, "returns_err_under_ci": "returnErr(" in t.replace(" ", "")})
        if not good:
            ctx.violation("C18.ci", "macro error!", CLI, mac[0]["l"], "error! no longer logs and returns Err when its first argument ($ci) is true")
