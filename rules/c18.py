"""C18 — the CLI reports exactly what the library decides."""
import vf

META = {
    "level": "other",
    "explanation": (
        "src/bin/cli.rs is 340 lines of straight-line routing that no test reaches (cfg(not(test))). Decided on its syntax tree: "
        "(route) each input route calls the matching library entry point; (features) every library call passes the user's "
        "--features list, never a literal None; (header) the CSV route passes --csv-header; (ci) every failure branch (missing "
        "file, Err from the library) goes through the error! macro with cli.ci, whose definition logs and returns Err under "
        "--ci; compile-cddl propagates the parser's Err with `?`. Process-level behaviour (exit codes of the built binary) follows "
        "from main's Result and is not executed."),
    "assumptions": ["`fn main() -> Result<(), Box<dyn Error>>` maps Err to a non-zero exit status (Rust std)"],
    "trusted_base": ["syn 2 parser"],
    "technique": "static analysis: custom syntax-tree rules on call sites, argument provenance and error-path discipline",
}

CLI = "src/bin/cli.rs"
ROUTES = {"json": "validate_json_from_str", "cbor": "validate_cbor_from_slice", "csv": "validate_csv_from_str"}


def walk_ctx(n, anc=()):
    if isinstance(n, dict):
        if "k" in n:
            yield n, anc
            anc = anc + (n,)
        for v in n.values():
            if isinstance(v, (dict, list)):
                yield from walk_ctx(v, anc)
    elif isinstance(n, list):
        for v in n:
            yield from walk_ctx(v, anc)


def r_listargs(ctx):
    rid = "C18.listargs"
    ctx.rule(rid, "every list-valued option of `cddl validate` (a field of type Option<Vec<String>>: --features, --json, --cbor, --csv) is "
                  "declared to split its value at the delimiter (use_value_delimiter = true or value_delimiter = ..), so that the documented "
                  "comma-separated form `--features a,b` reaches the library as the list [a, b] and not as one feature \"a,b\"", floor=4)
    it = ctx.facts.item(CLI, "structdef", "Validate")
    if it is None:
        raise vf.Incomplete("struct Validate not found in %s" % CLI)
    n = 0
    for fld in it["fields"]:
        if fld["ty"].replace(" ", "") != "Option<Vec<String>>":
            continue
        n += 1
        attrs = " ".join(fld.get("attrs") or [])
        split = "use_value_delimiter=true" in attrs.replace(" ", "") or "value_delimiter=" in attrs.replace(" ", "").replace("use_value_delimiter=", "")
        ctx.site(rid, fld["n"], CLI, fld["l"], {"clap": attrs[:160], "splits": split})
        if not split:
            ctx.violation(rid, fld["n"], CLI, fld["l"], "option --%s is list-valued but does not split its value at the delimiter: `--%s a,b` is passed on "
                          "as the single value \"a,b\"" % (fld["n"], fld["n"]))


def run(ctx):
    ctx.guarded("C18.listargs", r_listargs)
    f = ctx.facts
    mains = [fi for fi in f.fns(CLI) if fi.name == "main" and not any("target_arch=\"wasm32\"" == c for c in fi.cfg)]
    if not mains:
        ctx.incomplete_msg("C18", "main not found in %s" % CLI)
        return
    main = mains[0]
    ctx.rule("C18.route", "inside `if let Some(files) = &validate.<x>` the library call is validate_<x>_*; the stdin route calls the JSON "
                          "validator when the bytes are UTF-8 and the CBOR validator otherwise", floor=5)
    ctx.rule("C18.features", "every call of validate_json_from_str / validate_cbor_from_slice / validate_csv_from_str that takes a features "
                             "argument passes a value derived from validate.features (enabled_features), never a literal None", floor=5)
    ctx.rule("C18.fresh", "inside a per-file loop the document argument of the library call is built only from variables declared in that loop "
                          "iteration (the loop variable or locals of the loop body): each file is validated on its own content", floor=3)
    ctx.rule("C18.header", "validate_csv_from_str's header argument derives from validate.csv_header", floor=1)
    ctx.rule("C18.ci", "every `!p.exists()` branch and every Err arm of a library result expands error!(cli.ci, ..); the error! macro logs "
                       "and, when its first argument is true, returns Err; compile-cddl applies `?` to cddl_from_str", floor=8)
    counts = {}
    for n, anc in walk_ctx(main.node):
        if n["k"] == "call" and n["f"]["k"] == "path" and n["f"]["p"] in ROUTES.values():
            fn = n["f"]["p"]
            # enclosing route
            route = None
            for a in reversed(anc):
                if a["k"] == "if":
                    c = vf.src(a["c"])
                    for r in ROUTES:
                        if "validate.%s" % r in c and "csv_header" not in c:
                            route = route or r
                    if "from_utf8" in c:
                        # then-branch = utf8 ok = json ; else = cbor
                        in_then = any(x is n for x in vf.walk(a["t"]))
                        route = route or ("stdin-utf8" if in_then else "stdin-binary")
                    if "validate.stdin" in c and route is None:
                        route = "stdin"
            cfgs = []
            for a in anc:
                cfgs += a.get("cfg") or []
            cfgk = "addl" if any('feature="additional-controls"' == c for c in cfgs) else ("noaddl" if any("not(feature=\"additional-controls\")" == c for c in cfgs) else "any")
            base = "%s|%s|%s" % (route, fn, cfgk)
            i = counts.get(base, 0)
            counts[base] = i + 1
            key = base if i == 0 else "%s#%d" % (base, i)
            ctx.site("C18.route", key, CLI, n["l"], {"call": vf.src(n)[:120]})
            want = {"json": ROUTES["json"], "cbor": ROUTES["cbor"], "csv": ROUTES["csv"], "stdin-utf8": ROUTES["json"], "stdin-binary": ROUTES["cbor"]}.get(route)
            if want is None or want != fn:
                ctx.violation("C18.route", key, CLI, n["l"], "route %s calls %s (expected %s)" % (route, fn, want))
            # the document argument must be read freshly for each file: a variable declared inside the innermost enclosing loop
            loops = [a for a in anc if a["k"] == "for"]
            if loops and len(n["a"]) >= 2:
                doc = n["a"][1]
                names = [x["p"] for x in vf.walk(doc) if x["k"] == "path" and "::" not in x["p"]]
                body_locals = set()
                for loc in vf.find(loops[-1]["b"], "local"):
                    body_locals |= set(vf.pat_bindings(loc["pat"]))
                loopvars = set(vf.pat_bindings(loops[-1]["pat"]))
                ctx.site("C18.fresh", key, CLI, n["l"], {"document_arg": vf.src(doc), "declared_in_loop": sorted(set(names) & (body_locals | loopvars))})
                for nm in names:
                    if nm not in body_locals and nm not in loopvars and nm not in ("fs", "file"):
                        ctx.violation("C18.fresh", key, CLI, n["l"], "%s route: the document passed to %s (`%s`) uses `%s`, which outlives one loop iteration: "
                                      "what is validated for a file can depend on the files before it" % (route, fn, vf.src(doc), nm))
            if cfgk == "addl":
                last = n["a"][-1] if n["a"] else None
                ctx.site("C18.features", key, CLI, n["l"], {"features_arg": vf.src(last)})
                if last is None or "enabled_features" not in vf.src(last):
                    ctx.violation("C18.features", key, CLI, n["l"], "%s route: %s is called with features argument `%s`: the user's --features list is "
                                  "ignored, so the CLI can report a different verdict than the library call with the same features" % (route, fn, vf.src(last)))
            if fn == ROUTES["csv"]:
                hdr = n["a"][2] if len(n["a"]) > 2 else None
                ctx.site("C18.header", key, CLI, n["l"], {"header_arg": vf.src(hdr)})
                ok = False
                if hdr is not None and hdr["k"] == "path":
                    for loc in vf.find(main.node, "local"):
                        if loc["pat"].get("k") == "pid" and loc["pat"]["n"] == hdr["p"] and loc.get("init") is not None:
                            init = loc["init"]
                            if init["k"] == "if" and "validate.csv_header" in vf.src(init["c"]) and "Some(true)" in vf.src(init["t"]["stmts"][-1]["e"] if init["t"]["stmts"] else None):
                                ok = True
                if not ok:
                    ctx.violation("C18.header", key, CLI, n["l"], "the CSV header argument `%s` is not `Some(true)` exactly when validate.csv_header" % vf.src(hdr))
    # enabled_features derives from validate.features
    ok = False
    for loc in vf.find(main.node, "local"):
        if loc["pat"].get("k") in ("pid", "ptype") and "enabled_features" in vf.src(loc["pat"]) and loc.get("init") is not None:
            import json
            if "features" in json.dumps(loc["init"]) and "validate" in json.dumps(loc["init"]):
                ok = True
    ctx.site("C18.features", "enabled_features<-validate.features", CLI, main.line, {"ok": ok})
    if not ok:
        ctx.violation("C18.features", "enabled_features|provenance", CLI, main.line, "enabled_features is not derived from validate.features")
    # ci discipline
    mac = [it for it in f.files[CLI]["items"] if it.get("k") == "imacro" and it.get("ident") == "error"]
    if not mac:
        ctx.incomplete_msg("C18.ci", "macro_rules! error not found")
    else:
        t = mac[0].get("toks", "")
        good = "log::error!" in t and "if$ci" in t.replace(" ", "") and "returnErr(" in t.replace(" ", "")
        ctx.site("C18.ci", "macro error!", CLI, mac[0]["l"], {"logs": "log::error!" in t, "returns_err_under_ci": "returnErr(" in t.replace(" ", "")})
        if not good:
            ctx.violation("C18.ci", "macro error!", CLI, mac[0]["l"], "error! no longer logs and returns Err when its first argument ($ci) is true")
    cnt = {}
    for n, anc in walk_ctx(main.node):
        if n["k"] == "if" and ".exists()" in vf.src(n["c"]) and vf.src(n["c"]).startswith("!"):
            k = "missing-file#%d" % cnt.setdefault("m", 0)
            cnt["m"] += 1
            has = any(x["k"] == "macro" and x["name"] == "error" and (x.get("args") or [{}])[0].get("s") == "cli.ci" for x in vf.walk(n["t"]))
            ctx.site("C18.ci", k, CLI, n["l"], {"error_macro_with_cli_ci": has})
            if not has:
                ctx.violation("C18.ci", k, CLI, n["l"], "a missing input file is not reported through error!(cli.ci, ..): --ci exits 0 although a document is missing")
        if n["k"] == "match" and n["e"]["k"] == "path" and n["e"]["p"] in ("r", "c"):
            k = "result-match#%d" % cnt.setdefault("r", 0)
            cnt["r"] += 1
            err_arm = [a for a in n["arms"] if (vf.pat_path(a["pat"]) or "") == "Err"]
            ok_arm = [a for a in n["arms"] if (vf.pat_path(a["pat"]) or "") == "Ok"]
            has = bool(err_arm) and any(x["k"] == "macro" and x["name"] == "error" and (x.get("args") or [{}])[0].get("s") == "cli.ci" for x in vf.walk(err_arm[0]["body"]))
            ok_clean = bool(ok_arm) and not any(x["k"] == "macro" and x["name"] == "error" for x in vf.walk(ok_arm[0]["body"]))
            ctx.site("C18.ci", k, CLI, n["l"], {"err_arm_reports": has, "ok_arm_clean": ok_clean})
            if not has:
                ctx.violation("C18.ci", k, CLI, n["l"], "an Err from the library is not reported through error!(cli.ci, ..)")
            if not ok_clean:
                ctx.violation("C18.ci", k + "|ok", CLI, n["l"], "the Ok arm of a library result reports an error")
    # compile-cddl
    ok = False
    for n in vf.walk(main.node):
        if n["k"] == "try" and "cddl_from_str" in vf.src(n["e"]):
            ok = True
    ctx.site("C18.ci", "compile-cddl", CLI, main.line, {"propagates_parser_error": ok})
    if not ok:
        ctx.violation("C18.ci", "compile-cddl", CLI, main.line, "compile-cddl does not propagate cddl_from_str's Err with `?`")
