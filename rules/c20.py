"""C20 — ParentVisitor returns the syntactic parent (type-level and structural clauses)."""
import re

import vf

META = {
    "level": "other",
    "explanation": (
        "The parent index de-duplicates nodes by `==` on CDDLType and the parent query looks a node up by `==` again, so the index is a "
        "function from *nodes* to parents only if equality separates distinct nodes. (identity) for every node kind stored in the "
        "arena the equality relation is computed from the type definitions: derived PartialEq is position-discriminating when the "
        "type (every variant) carries a `span` field or a mandatory field of a position-discriminating type; a hand-written eq that "
        "does not compare spans is not. Kinds that are not position-discriminating are reported (two occurrences of the same text "
        "collide). (coverage) every child-bearing field of every node kind is registered with insert(parent, child) in the visitor. "
        "(firstwins) insert never overwrites an existing parent and never fails. Correctness of parent() on all documents is not decided."),
    "assumptions": ["derived PartialEq compares all fields structurally"],
    "trusted_base": ["syn 2 parser"],
    "technique": "static analysis: type-level computation over the AST type definitions + registration-coverage rule",
}

AST = "src/ast/mod.rs"
TOK = "src/token.rs"
PAR = "src/ast/parent.rs"


def base_type(ty):
    t = ty.replace(" ", "")
    t = re.sub(r"&'[a-z]+", "", t)
    return t


def inner_types(ty):
    """(wrapper kind, inner type name) e.g. Option<Foo<'a>> -> ('Option','Foo')"""
    t = base_type(ty)
    m = re.match(r"^(Option|Vec|Box)<(.*)>$", t)
    if m:
        k, rest = m.group(1), m.group(2)
        sub = inner_types(rest)
        return (k if sub[0] in (None, "Box") else k + "+" + sub[0], sub[1]) if k != "Box" else sub
    t = re.sub(r"<.*>$", "", t)
    return (None, t)


def r_identity(ctx):
    rid = "C20.identity"
    ctx.rule(rid, "every node kind the ParentVisitor stores in its arena (CDDLType variants) has a position-discriminating equality: derived "
                  "PartialEq over a `span` field (in every variant) or over a mandatory field of such a type; hand-written equality must compare spans", floor=20)
    f = ctx.facts
    defs = {}
    for file in (AST, TOK):
        for it in f.items(file):
            if it["k"] in ("structdef", "enum"):
                defs[it["name"]] = (it, file)
    manual = {}
    for file in (AST, TOK):
        for fi in f.fns(file):
            if fi.impl_trait == "PartialEq" and fi.name == "eq" and not fi.in_test:
                manual[fi.impl_self] = fi
    memo = {}

    def discr(name, stack=()):
        """True if equality on `name` separates nodes at different source positions (under feature ast-span)"""
        if name in memo:
            return memo[name]
        if name in stack or name not in defs:
            return False
        it, file = defs[name]
        if name in manual:
            body = " ".join(vf.src(x) for x in vf.walk(manual[name].node) if x["k"] in ("field", "path"))
            r = "span" in body
            memo[name] = r
            return r
        if "PartialEq" not in (it.get("derives") or []):
            memo[name] = False
            return False

        def fields_ok(fields):
            for fd in fields:
                if fd["n"] == "span":
                    return True
            for fd in fields:
                k, inner = inner_types(fd["ty"])
                if k is None and discr(inner, stack + (name,)):
                    return True
            return False
        if it["k"] == "structdef":
            r = fields_ok(it["fields"])
        else:
            r = all(fields_ok(v["fields"]) for v in it["variants"])
        memo[name] = r
        return r
    cd = f.item(AST, "enum", "CDDLType")
    for v in cd["variants"]:
        ty = inner_types(v["fields"][0]["ty"])[1] if v["fields"] else v["name"]
        ok = discr(ty) or v["name"] == "CDDL"   # the document root exists once
        how = "hand-written eq" if ty in manual else ("derived" if ty in defs else "foreign")
        ctx.site(rid, v["name"], AST, v["l"], {"type": ty, "equality": how, "position_discriminating": ok})
        if not ok:
            file = defs[ty][1] if ty in defs else AST
            line = (manual[ty].line if ty in manual else defs[ty][0]["l"]) if ty in defs else v["l"]
            ctx.violation(rid, v["name"], file, line, "CDDLType::%s holds %s whose equality (%s) does not separate two occurrences of the same text at "
                          "different positions: the second occurrence gets the first one's parent" % (v["name"], ty, how))


def r_firstwins(ctx):
    import absint
    from absint import Interp, MutList, Return, Unknown
    rid = "C20.firstwins"
    ctx.rule(rid, "ParentVisitor::insert(parent, child): a child without a parent gets `parent`, a child that already has one keeps it (first "
                  "registration wins), the child is appended to the parent's children, and the result is Ok; ArenaTree::node returns the index "
                  "of the first equal value and otherwise appends a new node whose index is its position (abstract evaluation on small arenas)",
             floor=5)
    f = ctx.facts
    ins = [fi for fi in f.fns(PAR) if fi.impl_self == "ParentVisitor" and fi.name == "insert" and not fi.in_test]
    nd = [fi for fi in f.fns(PAR) if fi.impl_self == "ArenaTree" and fi.name == "node" and not fi.in_test]
    if not ins or not nd:
        raise vf.Incomplete("ParentVisitor::insert / ArenaTree::node not found")
    methods = {(fi.impl_self, fi.name): fi for fi in f.fns(PAR) if fi.impl_self and not fi.in_test}

    def mknode(idx, val, parent):
        return ("enum", "Node", {"idx": idx, "val": val, "parent": parent, "children": MutList()})

    def on_call(kind, name, node, args, recv):
        if kind == "fn" and name and name.endswith("Node::new") and ("Node", "new") in methods:
            return mknode(args[0], args[1], ("None",))
        return NotImplemented
    for label, before in (("child has no parent", ("None",)), ("child already has parent 2", ("Some", 2))):
        arena = MutList([mknode(0, ("str", "root"), ("None",)), mknode(1, ("str", "child"), before), mknode(2, ("str", "other"), ("None",))])
        selfo = ("enum", "ParentVisitor", {"arena_tree": ("enum", "ArenaTree", {"arena": arena})})
        it = Interp(env={"self": selfo, "parent": 0, "child": 1}, on_call=on_call)
        try:
            try:
                res = it.block(ins[0].node["body"])
            except Return as r:
                res = r.v
        except Unknown as e:
            ctx.incomplete_msg(rid, "insert, %s: %s" % (label, e))
            continue
        after = arena[1][2]["parent"]
        kids = list(arena[0][2]["children"])
        want = ("Some", 0) if before == ("None",) else before
        ctx.site(rid, "insert|" + label, PAR, ins[0].line, {"parent_after": repr(after), "children_of_parent": kids, "result": repr(res)[:30]})
        if after != want:
            ctx.violation(rid, "insert|overwrite" if before != ("None",) else "insert|unset", PAR, ins[0].line,
                          "insert(0, 1) when the %s: its parent becomes %r, expected %r" % (label, after, want))
        if kids != [1]:
            ctx.violation(rid, "insert|children", PAR, ins[0].line, "insert(0, 1): the parent's children are %r, expected [1]" % (kids,))
        if not (isinstance(res, tuple) and res[0] == "Ok"):
            ctx.violation(rid, "insert|err", PAR, ins[0].line, "insert returns %r: building the index can fail" % (res,))
    for label, val, want_idx, want_len in (("value equal to node 1", ("str", "b"), 1, 3), ("new value", ("str", "z"), 3, 4), ("value equal to nodes 1 and 2 (first wins)", ("str", "dup"), 1, 3)):
        vals = [("str", "a"), ("str", "b"), ("str", "c")] if val != ("str", "dup") else [("str", "a"), ("str", "dup"), ("str", "dup")]
        arena = MutList([mknode(i, v, ("None",)) for i, v in enumerate(vals)])
        selfo = ("enum", "ArenaTree", {"arena": arena})
        it = Interp(env={"self": selfo, "val": val}, on_call=on_call)
        try:
            try:
                res = it.block(nd[0].node["body"])
            except Return as r:
                res = r.v
        except Unknown as e:
            ctx.incomplete_msg(rid, "node, %s: %s" % (label, e))
            continue
        ctx.site(rid, "node|" + label, PAR, nd[0].line, {"index": res, "arena_len": len(arena)})
        ok = res == want_idx and len(arena) == want_len and (want_len == 3 or (arena[3][2]["idx"] == 3 and arena[3][2]["val"] == val))
        if not ok:
            ctx.violation(rid, "node|" + label.split(" ")[0], PAR, nd[0].line, "ArenaTree::node with a %s returns %r with %d nodes in the arena; expected index %d and %d nodes"
                          % (label, res, len(arena), want_idx, want_len))


def r_coverage(ctx):
    rid = "C20.coverage"
    ctx.rule(rid, "for every AST node kind, every field that holds child nodes (a CDDLType kind, possibly inside Option/Vec/Box) is registered "
                  "by the ParentVisitor: some visit_* method creates CDDLType::<Child> from that field and inserts it under the node", floor=25)
    f = ctx.facts
    cd = f.item(AST, "enum", "CDDLType")
    kinds = {}
    for v in cd["variants"]:
        kinds[inner_types(v["fields"][0]["ty"])[1]] = v["name"]
    defs = {}
    for it in f.items(AST):
        if it["k"] in ("structdef", "enum"):
            defs[it["name"]] = it
    # registration facts: in impl Visitor for ParentVisitor, for each method: parent kind(s) created and child kinds created
    reg = set()
    for fi in f.fns(PAR):
        if fi.impl_self != "ParentVisitor" or fi.in_test:
            continue
        made = []
        for n in vf.walk(fi.node):
            if n["k"] == "call" and vf.src(n["f"]).startswith("CDDLType::"):
                made.append(vf.src(n["f"]).split("::")[1])
        for a in made:
            for b in made:
                reg.add((a, b))
    for name, it in defs.items():
        if name not in kinds:
            continue
        variants = [("", it["fields"])] if it["k"] == "structdef" else [(v["name"], v["fields"]) for v in it["variants"]]
        for vn, fields in variants:
            for fd in fields:
                k, inner = inner_types(fd["ty"])
                if inner in kinds and fd["n"] not in ("span",):
                    key = "%s%s.%s" % (name, "::" + vn if vn else "", fd["n"])
                    ok = (kinds[name], kinds[inner]) in reg
                    ctx.site(rid, key, AST, fd["l"], {"parent": kinds[name], "child": kinds[inner], "registered": ok})
                    if not ok:
                        ctx.violation(rid, key, AST, fd["l"], "field %s (child kind %s) of %s is never registered under its parent in the ParentVisitor: "
                                      "parent() of that child is None" % (key, kinds[inner], name))


def r_descent(ctx):
    import absint
    from absint import Interp, Return, Unknown, OPAQUE, MutList
    rid = "C20.descent"
    ctx.rule(rid, "ParentVisitor::visit_type1 on a type1 with a range or control operator: the walk reaches visit_type2 for the target (left "
                  "operand) and for the controller (right operand) — whatever lies below either operand is indexed only if the walk "
                  "descends into it — and without an operator it reaches the type2 (abstract evaluation through the overriding methods of "
                  "src/ast/parent.rs, the default methods of the Visitor trait and the walk_* functions of src/visitor.rs; arena and "
                  "visit_type2 scripted)", floor=3)
    f = ctx.facts
    VIS = "src/visitor.rs"
    over = {fi.name: fi for fi in f.fns(PAR) if fi.impl_trait and fi.impl_trait.split("<")[0].endswith("Visitor") and not fi.in_test and all(absint.default_cfg(c) for c in fi.cfg)}
    defaults = {}
    walks = {}
    for fi in f.fns(VIS):
        if fi.in_test or not all(absint.default_cfg(c) for c in fi.cfg):
            continue
        if fi.name.startswith("walk_") and fi.impl_self is None:
            walks[fi.name] = fi
        elif fi.name.startswith("visit_") and fi.node.get("body") is not None:
            defaults.setdefault(fi.name, fi)
    if "visit_type1" not in over:
        raise vf.Incomplete("ParentVisitor::visit_type1 not found")

    def t2(tag):
        return ("enum", "Type2::Map", {"group": OPAQUE, "tag": tag})
    ops = {"control": ("enum", "RangeCtlOp::CtlOp", {"ctrl": ("enum", "ControlOperator::WITHIN", [])}),
           "range": ("enum", "RangeCtlOp::RangeOp", {"is_inclusive": True}), "none": None}
    for label, op in ops.items():
        seen = []
        operator = ("None",) if op is None else ("Some", ("enum", "Operator", {"operator": op, "type2": t2("controller")}))
        t1 = ("enum", "Type1", {"type2": t2("target"), "operator": operator})
        selfo = ("enum", "Self", {"arena_tree": ("arena",)})
        depth = [0]

        def call_fn(fi, selfv, args, on_call):
            names = [inp["pat"]["n"] if inp.get("pat", {}).get("k") == "pid" else None for inp in fi.node["sig"]["inputs"] if "self" not in inp]
            env = {n: a for n, a in zip(names, args) if n}
            if selfv is not None:
                env["self"] = selfv
            sub = Interp(env=env, cfg=absint.default_cfg, on_call=on_call)
            depth[0] += 1
            try:
                if depth[0] > 30:
                    raise Unknown("depth")
                try:
                    return sub.block(fi.node["body"])
                except Return as r:
                    return r.v
            finally:
                depth[0] -= 1

        def on_call(kind, nm, node, args, recv, seen=seen):
            is_visitor = isinstance(recv, tuple) and recv[:2] == ("enum", "Self")
            if kind == "method" and isinstance(recv, tuple) and recv[:1] == ("arena",) and nm == "node":
                return ("nodeid",)
            if kind == "method" and is_visitor:
                a = [absint.CURRENT.eval(x) for x in node["a"]]
                if nm == "insert":
                    return ("Ok", ("tuple", []))
                if nm == "visit_type2":
                    seen.append(a[0][2].get("tag") if isinstance(a[0], tuple) and len(a[0]) > 2 and isinstance(a[0][2], dict) else repr(a[0])[:30])
                    return ("Ok", ("tuple", []))
                if nm in over:
                    return call_fn(over[nm], recv, a, on_call)
                if nm in defaults:
                    return call_fn(defaults[nm], recv, a, on_call)
                return NotImplemented
            if kind == "fn" and nm:
                b = nm.split("::")[-1]
                if b in walks:
                    # walk_x(visitor, ...): the first argument is the visitor
                    fi = walks[b]
                    names = [inp["pat"]["n"] if inp.get("pat", {}).get("k") == "pid" else None for inp in fi.node["sig"]["inputs"]]
                    sub = Interp(env={n: v for n, v in zip(names, args) if n}, cfg=absint.default_cfg, on_call=on_call)
                    try:
                        return sub.block(fi.node["body"])
                    except Return as r:
                        return r.v
                if b.startswith("CDDLType::"):
                    return ("cddltype", b)
            return NotImplemented
        try:
            call_fn(over["visit_type1"], selfo, [t1], on_call)
        except Unknown as e:
            ctx.incomplete_msg(rid, "%s operator: %s" % (label, e))
            continue
        fi = over["visit_type1"]
        ctx.site(rid, label, PAR, fi.line, {"visit_type2_reached_for": seen})
        want = ["target"] if op is None else ["target", "controller"]
        for w in want:
            if w not in seen:
                ctx.violation(rid, "%s|%s-not-walked" % (label, w), PAR, fi.line, "ParentVisitor::visit_type1 on `target %s controller`: visit_type2 is never reached for the "
                              "%s (reached: %r) — every node below a composite %s (`{ a: tstr } .within base`) has no parent in the index"
                              % ({"control": ".ctl", "range": "..", "none": ""}[label], w, seen, w))


def run(ctx):
    ctx.guarded("C20.identity", r_identity)
    ctx.guarded("C20.firstwins", r_firstwins)
    ctx.guarded("C20.coverage", r_coverage)
    ctx.guarded("C20.descent", r_descent)
