"""C10 — map validation does not depend on entry order (structural clauses)."""
import json
import subprocess

import absint
import valtables as vt
import vf
from absint import MutList, OPAQUE

META = {
    "level": "other",
    "explanation": (
        "(jsonorder) serde_json is resolved without `preserve_order`, so serde_json::Map is a BTreeMap and two JSON texts that "
        "differ only in member order parse to equal values: the JSON validator, a function of the Value, cannot distinguish them. "
        "(ledger) the CBOR validator's claim ledger is keyed by physical pair index: claim/release of single-entry claims and the "
        "unconsumed-pair predicates are abstractly interpreted on representative ledgers and must pair exactly (release removes the "
        "claimed pair's index and nothing else; a pair is available iff its index is not in the ledger). (occreset) the occurrence "
        "in force for one member (its own or inherited from an enclosing group) is cleared when the member returns, in both "
        "validators, so it cannot leak onto whichever sibling happens to come next. (nodedup) decode_map keeps "
        "every pair (decided by C11.table). Order independence of the CBOR matching search itself is not decided."),
    "assumptions": ["serde_json::Map without preserve_order is BTreeMap<String, Value> (serde_json documentation)"],
    "trusted_base": ["Cargo.lock / cargo metadata", "syn 2 parser", "lib/absint.py"],
    "technique": "static analysis: dependency-configuration rule + abstract interpretation of the claim-ledger methods and of the member-entry visitor (pairing rules)",
}

CBOR = "src/validator/cbor.rs"


def r_jsonorder(ctx):
    rid = "C10.jsonorder"
    ctx.rule(rid, "no package in the workspace enables serde_json's `preserve_order` feature (cargo metadata --offline on the working tree) and "
                  "Cargo.lock does not contain indexmap as a dependency of serde_json", floor=1)
    try:
        out = subprocess.run(["cargo", "metadata", "--offline", "--format-version", "1", "--manifest-path", vf.REPO + "/Cargo.toml"],
                             capture_output=True, text=True, timeout=120)
        md = json.loads(out.stdout)
    except Exception as e:
        raise vf.Incomplete("cargo metadata failed: %s" % e)
    found = False
    for node in md.get("resolve", {}).get("nodes", []):
        if node["id"].split("#")[-1].startswith("serde_json@") or "/serde_json#" in node["id"] or " serde_json " in node["id"] or "serde_json" in node["id"].split("#")[-1]:
            if "serde_json" not in node["id"]:
                continue
            found = True
            feats = node.get("features", [])
            ctx.site(rid, "serde_json", "Cargo.toml", 1, {"id": node["id"], "features": feats})
            if "preserve_order" in feats:
                ctx.violation(rid, "serde_json|preserve_order", "Cargo.toml", 1,
                              "serde_json is built with preserve_order: JSON object member order becomes observable to the validator")
    if not found:
        raise vf.Incomplete("serde_json not found in cargo metadata")


def claim(idx):
    return ("enum", "SingleMapEntryClaim", {"entry_index": idx, "entry": ("None",), "generic_context": ("None",)})


def mk_self(ledger, claims):
    state = ("enum", "ValidationState", {"eval_generic_rule": ("None",), "generic_rules": MutList(), "is_member_key": True,
                                         "data_location": OPAQUE, "occurrence": ("None",), "advance_to_next_entry": False})
    return ("enum", "Self", {"state": state, "claimed_map_entries": MutList(ledger), "single_entry_claims": MutList([claim(i) for i in claims]),
                             "active_single_entry_claim": ("None",), "object_value": ("None",)})


def r_ledger(ctx, rid="C10.ledger"):
    ctx.rule(rid, "claim_single_map_key(i) appends i to claimed_map_entries and a claim for i to single_entry_claims (active claim = its "
                  "position); remove_single_map_entry_claim(p) removes claim p and exactly the ledger entry equal to that claim's pair "
                  "index; is_unconsumed_map_entry / find_unconsumed_map_entry / collect_unconsumed_map_entries_matching treat a pair as "
                  "available iff its physical index is not in the ledger (abstract evaluation on representative ledgers)", floor=20)
    f = ctx.facts
    R = lambda: vt.ObjRun(f, CBOR, "CBORValidator", inline={"claim_single_map_key", "is_unconsumed_map_entry", "find_unconsumed_map_entry"})
    line = R().fn("remove_single_map_entry_claim").line

    def ck(key, cond, msg, detail):
        ctx.site(rid, key, CBOR, line, detail)
        if not cond:
            ctx.violation(rid, key, CBOR, line, msg)
    # claim
    for ledger, claims, idx in (([7, 3], [7], 5), ([], [], 0), ([1], [1], 0)):
        key = "claim|ledger=%s|claims=%s|i=%d" % (ledger, claims, idx)
        try:
            o = mk_self(ledger, claims)
            R().call("claim_single_map_key", o, [idx])
            l2 = list(o[2]["claimed_map_entries"])
            c2 = [c[2]["entry_index"] for c in o[2]["single_entry_claims"]]
            act = o[2]["active_single_entry_claim"]
            ck(key, l2 == ledger + [idx] and c2 == claims + [idx] and act == ("Some", len(claims)),
               "claim_single_map_key(%d) on ledger %s / claims %s leaves ledger %s, claims %s, active %r" % (idx, ledger, claims, l2, c2, act),
               {"ledger_after": l2, "claims_after": c2, "active": repr(act)})
        except absint.Unknown as e:
            ctx.incomplete_msg(rid, "%s: %s" % (key, e))
    # release: position p in claims -> ledger loses exactly claims[p]
    for ledger, claims, p in (([7, 3, 5], [7, 5], 1), ([3, 7, 5], [7, 5], 0), ([0, 1, 2], [2, 0], 0), ([4], [4], 0), ([9, 1], [1], 0), ([2, 0], [0, 2], 1)):
        key = "release|ledger=%s|claims=%s|p=%d" % (ledger, claims, p)
        try:
            o = mk_self(ledger, claims)
            R().call("remove_single_map_entry_claim", o, [p])
            l2 = list(o[2]["claimed_map_entries"])
            c2 = [c[2]["entry_index"] for c in o[2]["single_entry_claims"]]
            exp_l = list(ledger)
            exp_l.remove(claims[p])
            exp_c = claims[:p] + claims[p + 1:]
            ck(key, l2 == exp_l and c2 == exp_c,
               "remove_single_map_entry_claim(%d) on ledger %s / claims %s leaves ledger %s (expected %s), claims %s (expected %s): a pair stays "
               "claimed or a foreign pair is released" % (p, ledger, claims, l2, exp_l, c2, exp_c), {"ledger_after": l2, "claims_after": c2})
        except absint.Unknown as e:
            ctx.incomplete_msg(rid, "%s: %s" % (key, e))
    # availability predicates
    for ledger in ([], [0], [1], [0, 2], [2, 1, 0]):
        for i in (0, 1, 2):
            key = "unconsumed|ledger=%s|i=%d" % (ledger, i)
            try:
                v = R().call("is_unconsumed_map_entry", OPAQUE, [i, MutList(ledger)])
                ck(key, v is (i not in ledger), "is_unconsumed_map_entry(%d, %s) = %r" % (i, ledger, v), {"result": v})
            except absint.Unknown as e:
                ctx.incomplete_msg(rid, "%s: %s" % (key, e))
        entries = MutList([("tuple", [("k", j), ("v", j)]) for j in range(3)])
        for accept in ([0, 1, 2], [1, 2], [2], []):
            pred = {"k": "closure", "params": [{"k": "pid", "n": "kk", "by_ref": False, "mut": False}],
                    "body": {"k": "path", "p": "__pred"}}
            key = "find|ledger=%s|matching=%s" % (ledger, accept)
            try:
                run = R()
                # predicate: key j matches iff j in accept
                run.scripts["predicate"] = lambda r, it, node, args, accept=accept: args[0][1] in accept
                v = run.call("find_unconsumed_map_entry", OPAQUE, {"entries": entries, "claimed_entries": MutList(ledger), "predicate": OPAQUE})
                cand = [j for j in range(3) if j in accept and j not in ledger]
                exp = ("Some", cand[0]) if cand else ("None",)
                got = ("Some", v[1][1][0]) if isinstance(v, tuple) and v[0] == "Some" else v
                ck(key, got == exp, "find_unconsumed_map_entry with ledger %s and keys %s matching returns %r, expected first unclaimed matching "
                                    "pair %r" % (ledger, accept, got, exp), {"result": repr(got)})
                v = run.call("collect_unconsumed_map_entries_matching", OPAQUE, {"entries": entries, "claimed_entries": MutList(ledger), "predicate": OPAQUE})
                got = list(v) if isinstance(v, list) else (v[1] if isinstance(v, tuple) and v[0] == "list" else v)
                ck(key.replace("find|", "collect|"), got == cand, "collect_unconsumed_map_entries_matching with ledger %s and keys %s matching returns "
                   "%r, expected %r" % (ledger, accept, got, cand), {"result": repr(got)})
            except absint.Unknown as e:
                ctx.incomplete_msg(rid, "%s: %s" % (key, e))


def r_reassign(ctx, rid="C10.reassign"):
    ctx.rule(rid, "CBOR visit_value_member_key_entry: the pair a single (non-repeating) member picked first depends on the order of the "
                  "encoded map, so when that pair's value fails the member must ask try_reassign_failed_single_entries for another "
                  "one-to-one assignment before it keeps the error — whenever a claim was made and the validator is not itself probing, "
                  "whatever the member looks like (cut or not, own occurrence or not); skipping the search makes the verdict depend on "
                  "entry order (abstract evaluation with scripted key/value visitors)", floor=8)
    f = ctx.facts
    file, ty = vt.VIS["cbor"]
    for own in (None, "Optional"):
        for cut in (False, True):
            for probing in (False, True):
                for reassign_ok in (True, False):
                    key = "own=%s|cut=%s|probing=%s|reassign %s" % (own, cut, probing, "succeeds" if reassign_ok else "fails")
                    state = ("enum", "ValidationState", {"occurrence": ("None",), "data_location": ("str", "root"), "is_member_key": False,
                                                         "advance_to_next_entry": False, "is_multi_type_choice": False, "is_multi_group_choice": False,
                                                         "type_group_name_entry": ("None",), "generic_rules": MutList(), "eval_generic_rule": ("None",),
                                                         "cddl": OPAQUE, "enabled_features": OPAQUE})
                    selfo = ("enum", "Self", {"state": state, "errors": MutList(), "map_entry_candidates": ("None",), "object_value": ("None",),
                                              "active_single_entry_claim": ("None",), "claimed_map_entries": MutList(), "single_entry_claims": MutList(),
                                              "validated_keys": ("None",), "probing_single_entry_assignment": probing,
                                              "cbor": ("enum", "Value::Map", [MutList([("tuple", [OPAQUE, OPAQUE]), ("tuple", [OPAQUE, OPAQUE])])])})
                    entry = ("enum", "ValueMemberKeyEntry", {
                        "occur": ("None",) if own is None else ("Some", ("enum", "Occurrence", {"occur": ("enum", "Occur::" + own, {})})),
                        "member_key": ("Some", OPAQUE), "entry_type": OPAQUE})
                    calls = []

                    def visit_memberkey(run, it, node, recv, selfo=selfo):
                        selfo[2]["object_value"] = ("Some", OPAQUE)
                        selfo[2]["active_single_entry_claim"] = ("Some", 0)
                        selfo[2]["single_entry_claims"].append(("enum", "SingleEntryClaim", {"entry": ("None",), "entry_index": 0}))
                        selfo[2]["claimed_map_entries"].append(0)
                        return ("Ok", ("tuple", []))

                    def failing_child(*a):
                        o = child_obj()
                        o[2]["errors"].append(("str", "value mismatch"))
                        return o

                    def reassign(run, it, node, recv, calls=calls, reassign_ok=reassign_ok):
                        calls.append("reassign")
                        return ("Ok", reassign_ok)
                    scripts = {"visit_memberkey": visit_memberkey, "visit_type": lambda r, it, node, recv: ("Ok", ("tuple", [])),
                               "new_with_recursion_state": lambda r, it, node, recv: failing_child(),
                               "CBORValidator::new": lambda r, it, node, a: failing_child(), "new": lambda r, it, node, a: failing_child(),
                               "try_reassign_failed_single_entries": reassign,
                               "current_generic_evaluation_context": lambda r, it, node, recv: OPAQUE,
                               "member_key_has_cut": lambda r, it, node, a, cut=cut: cut,
                               "remove_single_map_entry_claim": lambda r, it, node, recv: ("tuple", []),
                               "validate_repeating_member_count": lambda r, it, node, recv: ("tuple", []),
                               "repeating_member_upper_bound": lambda r, it, node, a: ("None",)}
                    run = vt.ObjRun(f, file, ty, inline={"visit_occurrence"}, scripts=scripts)
                    for fi2 in f.fns(file):
                        if fi2.impl_self == ty and fi2.name in ("visit_occurrence", "visit_value_member_key_entry"):
                            run.methods.setdefault(fi2.name, []).append(fi2)
                    fi = run.fn("visit_value_member_key_entry")
                    try:
                        run.call("visit_value_member_key_entry", selfo, {"entry": entry})
                    except absint.Unknown as e:
                        ctx.incomplete_msg(rid, "%s: %s" % (key, e))
                        continue
                    ctx.site(rid, key, file, fi.line, {"reassign_calls": len(calls), "errors_left": len(selfo[2]["errors"]) + run.errors})
                    want = 0 if probing else 1
                    if len(calls) != want:
                        ctx.violation(rid, "cut=%s|own=%s|probing=%s" % (cut, own, probing), file, fi.line,
                                      "CBOR visit_value_member_key_entry (own occurrence %s, key %s a cut, %s): the first-picked pair's value fails and "
                                      "try_reassign_failed_single_entries is called %d time(s), expected %d" % (own, "with" if cut else "without",
                                                                                                             "probing" if probing else "not probing", len(calls), want))


def r_candidates(ctx, rid="C10.candidates"):
    ctx.rule(rid, "CBOR try_reassign_failed_single_entries: when the pair a single member picked first fails its value, every still "
                  "unconsumed pair of the map is a candidate for it — with one claim on pair 0 whose value fails and an unclaimed pair 1 "
                  "that the member validates, the claim must move to pair 1 (the same map encoded in the other order is accepted, so "
                  "anything else makes the verdict depend on entry order); with two claims whose pairs must be swapped, they are swapped "
                  "(abstract evaluation, pair validation scripted)", floor=2)
    f = ctx.facts
    file, ty = vt.VIS["cbor"]
    K0, V0, K1, V1 = ("str", "k0"), ("str", "v0"), ("str", "k1"), ("str", "v1")

    def claim(idx, entry):
        return ("enum", "SingleEntryClaim", {"entry_index": idx, "entry": entry, "generic_context": ("None",)})
    E0, ECUR = ("enum", "ValueMemberKeyEntry", {"id": "E0"}), ("enum", "ValueMemberKeyEntry", {"id": "CUR"})
    scenarios = {
        # name: (claims, current position, compat(entry id, value) -> bool, expected result, expected entry_index of each claim)
        "one claim on pair 0, pair 1 unclaimed and acceptable": ([claim(0, ("None",))], 0, lambda e, v: v == V1, True, [1]),
        "two claims that must be swapped": ([claim(0, ("Some", E0)), claim(1, ("None",))], 1,
                                            lambda e, v: (e == "E0" and v == V1) or (e == "CUR" and v == V0), True, [1, 0]),
        "two claims, no assignment exists": ([claim(0, ("Some", E0)), claim(1, ("None",))], 1, lambda e, v: e == "E0" and v == V0, False, [0, 1]),
    }
    for name, (claims, cur, compat, want_ok, want_idx) in scenarios.items():
        selfo = ("enum", "Self", {"cbor": ("enum", "Value::Map", [MutList([("tuple", [K0, V0]), ("tuple", [K1, V1])])]),
                                  "single_entry_claims": MutList(claims), "claimed_map_entries": MutList([c[2]["entry_index"] for c in claims]),
                                  "errors": MutList()})

        def spv(run, it, node, recv, compat=compat):
            a = [it.eval(x) for x in node["a"]]
            ent = a[0]
            eid = ent[2]["id"] if isinstance(ent, tuple) and isinstance(ent[2], dict) else None
            return ("Ok", bool(compat(eid, a[3])))
        run = vt.ObjRun(f, file, ty, inline={"augment_single_entry_assignment"}, scripts={"single_pair_validates_entry": spv})
        fi = run.fn("try_reassign_failed_single_entries")
        try:
            res = run.call("try_reassign_failed_single_entries", selfo, {"current_claim_position": cur, "current_entry": ECUR, "current_generic_context": ("None",)})
        except absint.Unknown as e:
            ctx.incomplete_msg(rid, "%s: %s" % (name, e))
            continue
        got_ok = res == ("Ok", True)
        idx = [c[2]["entry_index"] for c in selfo[2]["single_entry_claims"]]
        ctx.site(rid, name, file, fi.line, {"result": repr(res)[:30], "claims_after": idx})
        if got_ok != want_ok or (want_ok and idx != want_idx):
            ctx.violation(rid, name.split(",")[0], file, fi.line,
                          "try_reassign_failed_single_entries (%s): returns %r with claims on pairs %s; an order-independent search gives %s with claims on %s"
                          % (name, res, idx, "Ok(true)" if want_ok else "Ok(false)", want_idx))


def r_probectx(ctx, rid="C10.probectx"):
    ctx.rule(rid, "CBOR single_pair_validates_entry (the compatibility probe of the reassignment search): the candidate validator evaluates "
                  "the member with the generic arguments recorded with the claim — also when the claim was made by an earlier use of the "
                  "generic rule that is being evaluated again with other arguments (`{ g<tstr, any>, g<tstr, int> }`); otherwise which pair "
                  "a member accepts depends on which use is current, i.e. on the order of the map's entries (abstract evaluation, the "
                  "member visit scripted and the generic state it sees observed)", floor=3)
    f = ctx.facts
    file, ty = vt.VIS["cbor"]
    ARG_CLAIM, ARG_NOW = ("arg", "any"), ("arg", "int")

    def grule(args):
        return ("enum", "GenericRule", {"name": ("str", "g"), "params": MutList([("str", "V")]), "args": MutList(list(args))})
    for label, current_rule, ctx_rule in (("claim of the rule being evaluated, other arguments", "g", "g"),
                                          ("claim of another generic rule", "h", "g"),
                                          ("no generic context", "g", None)):
        st = ("enum", "ValidationState", {"generic_rules": MutList([grule([ARG_NOW])]), "eval_generic_rule": ("Some", ("str", current_rule)),
                                          "is_multi_type_choice": False, "is_multi_group_choice": False, "type_group_name_entry": ("None",),
                                          "visited_rules": absint.PyMap(), "cddl": OPAQUE, "enabled_features": ("None",)})
        selfo = ("enum", "Self", {"state": st, "errors": MutList(), "single_entry_claims": MutList(), "cbor": OPAQUE})
        seen = []

        def new(run, it, node, recv=None):
            cst = ("enum", "ValidationState", {"generic_rules": MutList(), "eval_generic_rule": ("None",), "is_multi_type_choice": False,
                                               "is_multi_group_choice": False, "type_group_name_entry": ("None",), "visited_rules": absint.PyMap()})
            return ("enum", "Self", {"state": cst, "errors": MutList(), "single_entry_claims": MutList([OPAQUE]), "probing_single_entry_assignment": False})

        def visit_entry(run, it, node, recv, seen=seen):
            cst = recv[2]["state"][2]
            rules = cst.get("generic_rules")
            args = None
            if isinstance(rules, (list, MutList)):
                for r in rules:
                    if isinstance(r, tuple) and r[2].get("name") == ("str", "g"):
                        args = list(r[2]["args"])
            seen.append((cst.get("eval_generic_rule"), args))
            return ("Ok", ("tuple", []))
        gc = ("None",) if ctx_rule is None else ("Some", ("enum", "GenericEvaluationContext", {"rule_name": ("str", ctx_rule), "args": MutList([ARG_CLAIM])}))
        run = vt.ObjRun(f, file, ty, inline={"new_with_recursion_state"}, scripts={"visit_value_member_key_entry": visit_entry, "CBORValidator::new": new})
        fi = run.fn("single_pair_validates_entry")
        try:
            res = run.call("single_pair_validates_entry", selfo, {"entry": ("enum", "ValueMemberKeyEntry", {"occur": ("None",)}), "generic_context": gc,
                                                                   "key": ("str", "k"), "value": ("str", "v")})
        except absint.Unknown as e:
            ctx.incomplete_msg(rid, "%s: %s" % (label, e))
            continue
        ctx.site(rid, label, file, fi.line, {"result": repr(res)[:30], "member_visit_sees": [(repr(a), repr(b)) for a, b in seen]})
        if len(seen) != 1:
            ctx.violation(rid, label.split(",")[0] + "|visits", file, fi.line, "%s: the member is visited %d times by the probe" % (label, len(seen)))
            continue
        ev, args = seen[0]
        want_ev = ("None",) if ctx_rule is None else ("Some", ("str", ctx_rule))
        want_args = [ARG_NOW] if ctx_rule is None else [ARG_CLAIM]
        if ev != want_ev or args != want_args:
            ctx.violation(rid, label.split(",")[0], file, fi.line, "%s: the probe evaluates the member with generic context %r and arguments %r of g; "
                          "the claim was recorded with context %r and arguments %r" % (label, ev, args, want_ev, want_args))


def r_choiceorder(ctx):
    import copy
    rid = "C10.choiceorder"
    ctx.rule(rid, "CBORValidator::visit_group_transactional on a map with two equivalent keys and two `//` alternatives: when the first "
                  "alternative matches without member errors but claims only one of the two physical pairs, what happens next (retry with the "
                  "second alternative, which owns both pairs) does not depend on whether the claimed pair is encoded before or after the one "
                  "left over — the two documents are permutations of the same pairs (abstract evaluation of the whole function; "
                  "visit_group_choice scripted to claim the given pairs)", floor=2)
    f = ctx.facts
    fi = vt.visitor_fn(f, "cbor", "visit_group_transactional")
    unc = vt.visitor_fn(f, "cbor", "is_unconsumed_map_entry")

    def scenario(keys, claims_by_alt):
        K = lambda n: ("enum", "Value::Text", [("str", n)])
        obj = vt.self_obj("cbor", ("enum", "Value::Map", [OPAQUE]))
        obj[2]["state"][2].update({"is_multi_group_choice": False, "is_ctrl_map_equality": False})
        obj[2].update({"claimed_map_entries": MutList(), "errors": MutList()})
        calls = []

        def visit_group_choice(run, node, recv):
            i = len(calls)
            calls.append(i)
            cl = claims_by_alt[min(i, len(claims_by_alt) - 1)]
            recv[2]["claimed_map_entries"] = MutList(cl)
            return ("Ok", ("tuple", []))

        def clone(run, node, recv):
            if isinstance(recv, tuple) and recv[:2] == ("enum", "Self"):
                return copy.deepcopy(recv)
            return NotImplemented
        group = ("enum", "Group", {"group_choices": MutList([("enum", "GroupChoice", {"i": 0}), ("enum", "GroupChoice", {"i": 1})])})
        r = vt.Run(f, "cbor", "default", {}, {"self": obj, "group": group, "map_keys": ("Some", MutList([K(k) for k in keys]))},
                   scripts={"visit_group_choice": visit_group_choice, "clone": clone,
                            "Self::is_unconsumed_map_entry": lambda run, node, args: run.it.call_fn_node(unc.node, args)})
        base = r.on_call

        def on_call(kind, name, node, args, recv, base=base):
            if kind == "method" and name == "add_error" and isinstance(recv, tuple) and recv[:2] == ("enum", "Self"):
                recv[2]["errors"].append(("str", "error"))
                return ("tuple", [])
            return base(kind, name, node, args, recv)
        r.it.on_call = on_call
        res = r.run(fi.node)
        me = r.it.lookup("self")
        errs = me[2]["errors"]
        if absint.has_opaque(res) or not isinstance(errs, (list, MutList)):
            raise absint.Unknown("the result / error list could not be evaluated")
        return ("accept" if len(errs) == 0 else "reject", len(calls))
    outcomes = {}
    for label, claims in (("claimed pair encoded after the one left over", [[1], [0, 1]]), ("claimed pair encoded before the one left over", [[0], [0, 1]])):
        key = "equal keys|%s" % label
        try:
            outcomes[label] = scenario(["a", "a"], claims)
        except absint.Unknown as e:
            ctx.incomplete_msg(rid, "%s: %s" % (key, e))
            continue
        ctx.site(rid, key, fi.file, fi.line, {"verdict": outcomes[label][0], "alternatives_tried": outcomes[label][1]})
    if len(outcomes) == 2 and len(set(outcomes.values())) > 1:
        ctx.violation(rid, "equal-keys|order-dependent", fi.file, fi.line, "with two equivalent keys of which the first alternative claims one: %s — the "
                      "verdict for {\"a\": x, \"a\": y} differs from the verdict for {\"a\": y, \"a\": x}"
                      % "; ".join("%s -> %s after %d alternative(s)" % (k, v[0], v[1]) for k, v in outcomes.items()))


def run(ctx):
    ctx.guarded("C10.jsonorder", r_jsonorder)
    ctx.guarded("C10.ledger", r_ledger)
    ctx.guarded("C10.occreset", r_occreset)
    ctx.guarded("C10.reassign", r_reassign)
    ctx.guarded("C10.candidates", r_candidates)
    ctx.guarded("C10.probectx", r_probectx)
    ctx.guarded("C10.choiceorder", r_choiceorder)


def child_obj():
    st = ("enum", "ValidationState", {"is_multi_type_choice": False, "is_multi_group_choice": False, "data_location": OPAQUE,
                                      "type_group_name_entry": ("None",), "generic_rules": MutList(), "eval_generic_rule": ("None",)})
    return ("enum", "Self", {"state": st, "errors": MutList(), "validating_value": False})


def entry_runs(f):
    """abstract runs of visit_value_member_key_entry; yields dict rows (key, file, line, ok, occurrence_after, location_after | unknown)"""
    for which in ("json", "cbor"):
        file, ty = vt.VIS[which]
        for branch in ("repeating", "single"):
            for own in (None, "ZeroOrMore", "Optional"):
                for inherited in (None, "ZeroOrMore", "Optional"):
                    if branch == "repeating" and own == "Optional":
                        continue
                    key = "%s|%s|own=%s|inherited=%s" % (which, branch, own, inherited)
                    occ = lambda k: ("None",) if k is None else ("Some", ("enum", "Occur::" + k, {}))
                    state = ("enum", "ValidationState", {"occurrence": occ(inherited), "data_location": ("str", "root"), "is_member_key": False,
                                                         "advance_to_next_entry": False, "is_multi_type_choice": False, "is_multi_group_choice": False,
                                                         "type_group_name_entry": ("None",), "generic_rules": MutList(), "eval_generic_rule": ("None",),
                                                         "cddl": OPAQUE, "enabled_features": OPAQUE})
                    selfo = ("enum", "Self", {"state": state, "errors": MutList(), "map_entry_candidates": ("None",), "object_value": ("None",),
                                              "active_single_entry_claim": ("None",), "claimed_map_entries": MutList(), "single_entry_claims": MutList(),
                                              "validated_keys": ("None",), "probing_single_entry_assignment": False,
                                              "cbor": ("enum", "Value::Map", [MutList([("tuple", [OPAQUE, OPAQUE]), ("tuple", [OPAQUE, OPAQUE])])]),
                                              "json": OPAQUE})
                    entry = ("enum", "ValueMemberKeyEntry", {
                        "occur": ("None",) if own is None else ("Some", ("enum", "Occurrence", {"occur": ("enum", "Occur::" + own, {})})),
                        "member_key": ("Some", OPAQUE), "entry_type": OPAQUE})

                    def visit_memberkey(run, it, node, recv, selfo=selfo, branch=branch, which=which):
                        if branch == "repeating":
                            cands = MutList([0, 1]) if which == "cbor" else MutList([("tuple", [("str", "k0"), OPAQUE]), ("tuple", [("str", "k1"), OPAQUE])])
                            selfo[2]["map_entry_candidates"] = ("Some", cands)
                        else:
                            selfo[2]["object_value"] = ("Some", OPAQUE)
                            # the key visitor appends the key to the location of the member it found
                            selfo[2]["state"][2]["data_location"] = ("str", "root/key")
                        return ("Ok", ("tuple", []))

                    def mkchild(run, it, node, a):
                        return child_obj()
                    scripts = {"visit_memberkey": visit_memberkey, "visit_type": lambda r, it, node, recv: ("Ok", ("tuple", [])),
                               "new_with_recursion_state": lambda r, it, node, recv: child_obj(),
                               "CBORValidator::new": mkchild, "JSONValidator::new": mkchild, "new": mkchild,
                               "validate_repeating_member_count": lambda r, it, node, recv: ("tuple", []),
                               "repeating_member_upper_bound": lambda r, it, node, a: ("None",)}
                    run = vt.ObjRun(f, file, ty, inline={"visit_occurrence"}, scripts=scripts)
                    for fi2 in f.fns(file):
                        if fi2.impl_self == ty and fi2.name in ("visit_occurrence", "visit_value_member_key_entry"):
                            run.methods.setdefault(fi2.name, []).append(fi2)
                    fi = run.fn("visit_value_member_key_entry")
                    row = {"key": key, "file": file, "line": fi.line, "which": which, "branch": branch, "own": own, "inherited": inherited}
                    try:
                        v = run.call("visit_value_member_key_entry", selfo, {"entry": entry})
                    except absint.Unknown as e:
                        row["unknown"] = str(e)
                        yield row
                        continue
                    loc = state[2]["data_location"]
                    row.update({"ok": isinstance(v, tuple) and v[0] == "Ok", "occurrence_after": state[2]["occurrence"],
                                "location_after": loc[1] if isinstance(loc, tuple) and loc[:1] == ("str",) else repr(loc)[:40]})
                    yield row


def r_occreset(ctx, rid="C10.occreset"):
    ctx.rule(rid, "visit_value_member_key_entry (JSON and CBOR): whatever occurrence is in force on entry (the entry's own or one inherited "
                  "from an enclosing group, state.occurrence), it is cleared (state.occurrence = None) when the entry has consumed its "
                  "pair(s) and returns Ok — otherwise it leaks onto the next sibling member and the verdict depends on member order "
                  "(abstract evaluation with scripted key/value visitors)", floor=12)
    for row in entry_runs(ctx.facts):
        if row["own"] is None and row["inherited"] is None:
            continue
        if row.get("unknown"):
            ctx.incomplete_msg(rid, "%s: %s" % (row["key"], row["unknown"]))
            continue
        after = row["occurrence_after"]
        ctx.site(rid, row["key"], row["file"], row["line"], {"occurrence_after": repr(after)[:50]})
        if row["ok"] and after != ("None",):
            ctx.violation(rid, row["key"], row["file"], row["line"],
                          "%s visit_value_member_key_entry (%s member, own occurrence %s, inherited %s) returns Ok with state.occurrence = %s: "
                          "the occurrence applies to the next sibling member as well" % (row["which"], row["branch"], row["own"], row["inherited"], repr(after)[:60]))
