"""C02 — CBOR verdict = RFC 8610 semantics on the core language (structural clauses)."""
import common_val as cv
import absint
import vf
import valtables as vt

META = {
    "level": "other",
    "explanation": (
        "Abstract interpretation of the CBOR validator's source (visit_value, visit_range incl. resolve_range_bound, "
        "seq_match_*, validate) on representative points of the order-type domain, compared with RFC 8610; dispatch "
        "exhaustiveness; no narrowing cast on document integers in cbor.rs (documents are compared in i128); major-type "
        "table of the DataMajorType arm; the TaggedData arm (#6[.n](t)) and ast::tag_from_token against Appendix D; "
        "visit_identifier on every prelude name x scalar/tagged document kind with the classification predicates interpreted from "
        "their source; visit_control_operator never accepts vacuously and validates the target of a comparison control first; "
        "the validator's input type cannot represent encoding details. Decides these "
        "necessary conditions for all inputs; the full verdict relation is not decided."),
    "assumptions": ["i128::from(ciborium Integer) is exact", "the abstract interpreter models the Rust subset used; anything else is reported incomplete"],
    "trusted_base": ["syn 2 parser", "lib/absint.py", "oracle tables in lib/valtables.py"],
    "technique": "static analysis: abstract interpretation of extracted syntax over order types and document kinds (comparison, range, occurrence, control-operator, prelude and tag tables against RFC 8610), no-vacuous-accept and target-first path rules, dispatch exhaustiveness, cast census",
}

CBORF = "src/validator/cbor.rs"
NARROW = {"i64", "u64", "i32", "u32", "i16", "u16", "i8", "u8", "isize", "usize", "f32"}


def width_rule(ctx):
    rid = "C02.width"
    ctx.rule(rid, "in cbor.rs every value obtained from a document integer (i128::from(*i) / i128::from(i)) is compared in i128: "
                  "no `as <narrower>` cast is applied to such an expression", floor=20)
    f = ctx.facts
    n = 0
    for fi in f.fns(CBORF):
        if fi.in_test:
            continue
        for c in vf.walk(fi.node):
            if c["k"] == "call" and vf.src(c["f"]) == "i128::from":
                n += 1
                ctx.site(rid, "%s|i128::from(%s)" % (fi.qual, vf.src(c["a"][0]) if c["a"] else ""), CBORF, c["l"], None)
        for c in vf.walk(fi.node):
            if c["k"] == "cast" and c["ty"] in NARROW:
                inner = c["e"]
                if any(x["k"] == "call" and vf.src(x["f"]) == "i128::from" for x in vf.walk(inner)):
                    ctx.violation(rid, "%s|%s" % (fi.qual, vf.src(c)[:80]), CBORF, c["l"],
                                  "document integer narrowed with `as %s` before use: values outside that type wrap" % c["ty"])


DOCS = {
    "uint": ("enum", "Value::Integer", [5]), "nint": ("enum", "Value::Integer", [-6]),
    "bytes": ("enum", "Value::Bytes", [("bytes", 3)]), "text": ("enum", "Value::Text", [("text", 3)]),
    "array": ("enum", "Value::Array", [absint.OPAQUE]), "map": ("enum", "Value::Map", [absint.OPAQUE]),
    "tag": ("enum", "Value::Tag", [1, absint.OPAQUE]), "float": ("enum", "Value::Float", [1.5]),
    "bool": ("enum", "Value::Bool", [True]), "null": ("enum", "Value::Null", []), "simple": ("enum", "Value::Simple", [99]),
}
MAJOR = {0: {"uint"}, 1: {"nint"}, 2: {"bytes"}, 3: {"text"}, 4: {"array"}, 5: {"map"}, 6: {"tag"},
         7: {"float", "bool", "null", "simple"}}


def major_rule(ctx):
    rid = "C02.major"
    ctx.rule(rid, "CBORValidator::visit_type2 on Type2::DataMajorType{mt, constraint}: for mt in 0..7 and every kind of document "
                  "value the verdict equals RFC 8949 section 3.1 (0 uint, 1 nint, 2 bstr, 3 tstr, 4 array, 5 map, 7 "
                  "simple/float; #6 is Type2::TaggedData, see C02.tagged); `#0.n` accepts exactly n, `#1.n` exactly -1-n, `#7.20..23` false / true / null / undefined, `#7.25..27` floats and any other `#7.n` the simple value n "
                  "(abstract evaluation of the source)", floor=80)
    f = ctx.facts
    fi = vt.visitor_fn(f, "cbor", "visit_type2")

    def tagc(run, node, recv):
        if isinstance(recv, tuple) and recv[0] == "tagc":
            if node["m"] == "as_literal":
                return ("Some", recv[1])
            if node["m"] == "is_literal":
                return run.it.eval(node["a"][0]) == recv[1]
        return NotImplemented
    cases = []
    for mt in (0, 1, 2, 3, 4, 5, 7):      # the parser maps #6... to Type2::TaggedData (decided by C02.tagged)
        for dk in DOCS:
            cases.append((mt, None, dk, DOCS[dk], dk in MAJOR[mt]))
    cases += [(0, 5, "uint=5", ("enum", "Value::Integer", [5]), True), (0, 5, "uint=6", ("enum", "Value::Integer", [6]), False),
              (0, 5, "nint=-5", ("enum", "Value::Integer", [-5]), False), (0, 5, "nint=-6", ("enum", "Value::Integer", [-6]), False),
              (1, 5, "nint=-6", ("enum", "Value::Integer", [-6]), True), (1, 5, "nint=-5", ("enum", "Value::Integer", [-5]), False),
              (1, 5, "uint=5", ("enum", "Value::Integer", [5]), False)]
    # #7.n: 20..23 are false / true / null / undefined, other n below 24 or from 32 a simple value with that number, 25..27 the three
    # float widths (RFC 8610 3.6 and Appendix D: false = #7.20, true = #7.21, nil = #7.22, float16 = #7.25, float32 = #7.26, float64 = #7.27)
    F = ("enum", "Value::Float", [1.5])
    for n in (25, 26, 27):
        cases.append((7, n, "float", F, True))
        cases.append((7, n, "false", ("enum", "Value::Bool", [False]), False))
    cases += [(7, 20, "false", ("enum", "Value::Bool", [False]), True), (7, 20, "true", ("enum", "Value::Bool", [True]), False),
              (7, 21, "true", ("enum", "Value::Bool", [True]), True), (7, 21, "false", ("enum", "Value::Bool", [False]), False),
              (7, 22, "null", ("enum", "Value::Null", []), True), (7, 20, "null", ("enum", "Value::Null", []), False),
              (7, 20, "float", F, False), (7, 32, "float", F, False),
              (7, 99, "simple(99)", ("enum", "Value::Simple", [99]), True), (7, 99, "simple(100)", ("enum", "Value::Simple", [100]), False),
              (7, 22, "uint=22", ("enum", "Value::Integer", [22]), False)]
    for (mt, con, dk, dv, exp) in cases:
        t2 = ("enum", "Type2::DataMajorType", {"mt": mt, "constraint": ("Some", ("tagc", con)) if con is not None else ("None",)})
        r = vt.Run(f, "cbor", "default", {"self.cbor": dv, "self.state.ctrl": ("None",)}, {"t2": t2}, scripts={"as_literal": tagc, "is_literal": tagc})
        key = "#%d%s|%s" % (mt, "" if con is None else ".%d" % con, dk)
        try:
            r.run(fi.node)
            verdict = "reject" if r.errors else "accept"
        except absint.Unknown as e:
            ctx.incomplete_msg(rid, "%s: %s" % (key, e))
            continue
        ctx.site(rid, key, CBORF, fi.line, {"type": key.split("|")[0], "document": dk, "verdict": verdict})
        if verdict != ("accept" if exp else "reject"):
            ctx.violation(rid, key, CBORF, fi.line, "CBOR validator %ss a %s document for type %s; RFC 8949/8610 say %s"
                          % (verdict, dk, key.split("|")[0], "accept" if exp else "reject"))


def tagged_rule(ctx):
    rid = "C02.tagged"
    ctx.rule(rid, "CBORValidator::visit_type2 on Type2::TaggedData{tag, t} (`#6`, `#6(t)`, `#6.n(t)`): a document that is not a tagged item "
                  "is rejected; a tagged item is accepted exactly when the tag number equals n (any number when n is omitted) and its "
                  "content is accepted by t — errors of the content validation are propagated (abstract evaluation, content visit scripted)",
             floor=30)
    f = ctx.facts
    fi = vt.visitor_fn(f, "cbor", "visit_type2")
    docs = dict(DOCS)
    del docs["array"]          # an array document is handed to the array matcher (validate_array_items), decided by C02.seq
    docs.pop("tag")
    docs.update({"tag5": ("enum", "Value::Tag", [5, ("enum", "Value::Integer", [1])]), "tag0": ("enum", "Value::Tag", [0, ("enum", "Value::Integer", [1])]),
                 "tag6": ("enum", "Value::Tag", [6, ("enum", "Value::Integer", [1])])})

    def tagc(run, node, recv):
        if isinstance(recv, tuple) and recv[0] == "tagc":
            # a non-literal constraint `#6.<t>` has no literal value
            return ("Some", recv[1]) if recv[1] is not None and recv[1] != "type" else ("None",)
        return NotImplemented
    type_visits = []
    for con in (None, 5, "type"):
        for content_ok in (True, False):
            for dk, dv in docs.items():
                if con == "type" and not (content_ok and dk.startswith("tag")):
                    continue
                key = "#6%s(t)|content %s|%s" % ("" if con is None else (".<t>" if con == "type" else ".%d" % con), "ok" if content_ok else "fails", dk)
                obj = vt.self_obj("cbor", dv)
                guard = absint.PyMap()
                guard[absint.hkey(("str", "t\x00/loc"))] = None
                obj[2]["state"][2].update({"is_multi_type_choice": False, "is_multi_group_choice": False, "data_location": ("str", "/loc"),
                                           "type_group_name_entry": ("None",), "enabled_features": ("None",), "visited_rules": guard})
                sub = []
                seen_ctx = []

                def new(run, node, args, sub=sub):
                    o = vt.self_obj("cbor", args[1] if len(args) > 1 else absint.OPAQUE)
                    o[2]["state"][2].update({"data_location": ("str", "")})
                    sub.append(o)
                    return o

                def visit_type(run, node, recv, sub=sub, content_ok=content_ok, seen_ctx=seen_ctx):
                    if sub and recv is sub[-1]:
                        cst = recv[2]["state"][2]
                        vr = cst.get("visited_rules")
                        seen_ctx.append((cst.get("data_location"), isinstance(vr, absint.PyMap) and absint.hkey(("str", "t\x00/loc")) in vr))
                        if not content_ok:
                            recv[2]["errors"].append(("str", "content error"))
                        return ("Ok", ("tuple", []))
                    return NotImplemented
                t2 = ("enum", "Type2::TaggedData", {"tag": ("Some", ("tagc", con)) if con is not None else ("None",), "t": ("enum", "Type", {"type_choices": absint.MutList()})})
                r = vt.Run(f, "cbor", "default", {}, {"self": obj, "t2": t2},
                           scripts={"as_literal": tagc, "CBORValidator::new": new, "visit_type": visit_type})
                r.it.string_places = True
                # the child-validator constructor helper is interpreted, so that the recursion state it hands to the child is observed
                r.new_methods = set(r.new_methods) | {"new_with_recursion_state"}
                try:
                    r.run(fi.node)
                except absint.Unknown as e:
                    ctx.incomplete_msg(rid, "%s: %s" % (key, e))
                    continue
                nerr = r.errors + len(obj[2]["errors"])
                is_tag = dk.startswith("tag")
                if con == "type":
                    # RFC 9682 3.2: `#6.<t>(content)` matches a tag whose *number* is in t. Whatever t is, a verdict that does not
                    # depend on it is wrong for some t: the constraint has to be evaluated (here: some visit beyond the content)
                    ctx.site(rid, key, CBORF, fi.line, {"verdict": "accept" if nerr == 0 else "reject", "content_visits": len(sub)})
                    if nerr == 0 and len(sub) <= 1:
                        type_visits.append(dk)
                    continue
                exp = is_tag and (con is None or dk == "tag%d" % con) and content_ok
                verdict = nerr == 0
                ctx.site(rid, key, CBORF, fi.line, {"verdict": "accept" if verdict else "reject", "content_visits": len(sub)})
                # the content is validated at the position of the tag itself: a rule that is being validated there may be referred to again
                # inside the content (t = int / #6.99(t)), which is progress, so the recursion guard of that position must not be in force
                for loc, guarded in seen_ctx:
                    if guarded and loc == ("str", "/loc"):
                        ctx.violation(rid, "content-under-parent-guard", CBORF, fi.line, "the content of a tagged item is validated at the tag's own document "
                                      "position with the enclosing recursion guard in force: `t = int / #6.99(t)` rejects 99(99(5)) as a zero-progress cycle")
                        break
                if verdict != exp:
                    ctx.violation(rid, "#6%s|%s|%s" % ("" if con is None else ".n", "content " + ("ok" if content_ok else "fails"), "tag" if is_tag else dk), CBORF, fi.line,
                                  "CBOR validator %ss a %s document for `#6%s(t)` with content %s; RFC 8610 section 3.6 says %s"
                                  % ("accept" if verdict else "reject", dk, "" if con is None else ".%d" % con, "accepted by t" if content_ok else "rejected by t",
                                     "accept" if exp else "reject"))
    if type_visits:
        ctx.violation(rid, "#6.<t>|tag-number-not-checked", CBORF, fi.line, "`#6.<t>(content)` accepts the tagged items %s without evaluating t: any tag "
                      "number matches (RFC 9682: the tag number is an instance of t)" % sorted(type_visits))


def encoding_rule(ctx):
    """C02 quantifies over every encoding of a document: the decoder has to give the definite- and the indefinite-length encoding of the
    same array / map the same data-model value (the decoder model and its RFC 8949 oracle are those of C11.table)"""
    import c11
    rid = "C02.encoding"
    ctx.rule(rid, "decode_value (interpreted from its source on header sequences) returns the same data-model value for the definite-length and "
                  "the indefinite-length encoding of the same array or map, for every pair of leaf items (integers, float, text, bytes, "
                  "one-byte simple values, a tagged item) as elements / key and value, also nested — validation sees one value per "
                  "document whatever container encoding the producer chose (RFC 8949 section 3.2.2)", floor=100)
    f = ctx.facts
    fi = f.fn(c11.F, "decode_value")
    leaves = [("u5",), ("n5",), ("f",), ("t2",), ("b2",), ("false",), ("null",), ("undef",), ("s99",), ("tag", "u5"), ("tag", "false")]
    pairs = []
    for x in leaves:
        for y in leaves:
            pairs.append((("a2",) + x + y, ("a*",) + x + y + ("brk",)))
            pairs.append((("m1",) + x + y, ("m*",) + x + y + ("brk",)))
    for x in leaves[:6]:
        for y in leaves[3:8]:
            pairs.append((("a2", "a1") + x + y, ("a*", "a*") + x + ("brk",) + y + ("brk",)))
            pairs.append((("a2", "m1") + x + y + ("false",), ("a*", "m*") + x + y + ("brk", "false", "brk")))
            pairs.append((("a2", "u5", "a2") + x + y, ("a*", "u5", "a*") + x + y + ("brk", "brk")))
    seen = set()
    for d, i in pairs:
        a, _ = c11.classify(f, list(d))
        b, _ = c11.classify(f, list(i))
        key = " ".join(d)
        if a[0] == "unknown" or b[0] == "unknown":
            ctx.incomplete_msg(rid, "%s: %s" % (key, a[1] if a[0] == "unknown" else b[1]))
            continue
        ctx.site(rid, key, c11.F, fi.line, None)
        def rank(v):
            # string payloads are identified by the position of their head in the sequence, which the break codes shift: compare by order
            order = {}

            def go(x):
                if isinstance(x, tuple) and len(x) == 2 and x[0] in ("payload", "badpayload", "half1", "half2") and isinstance(x[1], int):
                    return (x[0], order.setdefault(x[1], len(order)))
                if isinstance(x, tuple):
                    return tuple(go(y) for y in x)
                if isinstance(x, list):
                    return [go(y) for y in x]
                return x
            return go(v)
        same = a[0] == b[0] and (a[0] == "err" or c11._same(rank(a[1]), rank(b[1])))
        if not same:
            k = "%s|%s" % (d[0], "indefinite-rejected" if b[0] == "err" else ("definite-rejected" if a[0] == "err" else "value-differs"))
            if k in seen:
                continue
            seen.add(k)
            ctx.violation(rid, k, c11.F, fi.line, "the definite-length encoding [%s] decodes to %s, the indefinite-length encoding [%s] of the same item to %s: "
                          "the verdict depends on the container encoding" % (key, c11.show(a), " ".join(i), c11.show(b)))


def run(ctx):
    ctx.guarded("C02.cmp", lambda c: cv.cmp_rule(c, "C02", "cbor"))
    ctx.guarded("C02.range", lambda c: cv.range_rule(c, "C02", "cbor"))
    ctx.guarded("C02.occur", lambda c: cv.occur_rule(c, "C02", "cbor"))
    ctx.guarded("C02.ctrlarms", lambda c: cv.arms_rule(c, "C02", "cbor"))
    ctx.guarded("C02.root", lambda c: cv.root_rule(c, "C02", "cbor"))
    ctx.guarded("C02.ctrlrestore", lambda c: cv.ctrlrestore_rule(c, "C02", "cbor"))
    ctx.guarded("C02.ctrlcheck", lambda c: cv.ctrlcheck_rule(c, "C02", "cbor"))
    ctx.guarded("C02.ctrltarget", lambda c: cv.ctrltarget_rule(c, "C02", "cbor"))
    ctx.guarded("C02.revisit", lambda c: cv.revisit_rule(c, "C02", "cbor"))
    ctx.guarded("C02.rangenamed", lambda c: cv.rangenamed_rule(c, "C02", "cbor"))
    import c10
    ctx.guarded("C02.ledger", lambda c: c10.r_ledger(c, rid="C02.ledger"))
    ctx.guarded("C02.width", width_rule)
    ctx.guarded("C02.major", major_rule)
    ctx.guarded("C02.tagged", tagged_rule)
    ctx.guarded("C02.encoding", encoding_rule)
    import prelude_scalar as ps
    ctx.guarded("C02.prelude", lambda c: ps.rule(c, "C02", "cbor"))
    ctx.guarded("C02.tagtable", ps.tagtable_rule)
