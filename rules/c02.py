"""C02 — CBOR verdict = RFC 8610 semantics on the core language (structural clauses)."""
import common_val as cv
import absint
import vf
import valtables as vt

META = {
    "level": "other",
    "explanation": (
        "Abstract interpretation of the CBOR validator's source (visit_value, visit_range incl. resolve_range_bound, "
        "seq_match_*, validate) on representative points of the order-type domain, compared with RFC 8610; dispatch "
        "exhaustiveness; no narrowing cast on document integers in cbor.rs (documents are compared in i128); major-type "
        "table of the DataMajorType arm; the validator's input type cannot represent encoding details. Decides these "
        "necessary conditions for all inputs; the full verdict relation is not decided."),
    "assumptions": ["i128::from(ciborium Integer) is exact", "the abstract interpreter models the Rust subset used; anything else is reported incomplete"],
    "trusted_base": ["syn 2 parser", "lib/absint.py", "oracle tables in lib/valtables.py"],
    "technique": "static analysis: abstract interpretation of extracted syntax over order types + dispatch exhaustiveness + cast census",
}

CBORF = "src/validator/cbor.rs"
NARROW = {"i64", "u64", "i32", "u32", "i16", "u16", "i8", "u8", "isize", "usize", "f32"}


def width_rule(ctx):
    rid = "C02.width"
    ctx.rule(rid, "in cbor.rs every value obtained from a document integer (i128::from(*i) / i128::from(i)) is compared in i128: "
                  "no `as <narrower>` cast is applied to such an expression", floor=20)
    f = ctx.facts
    n = 0
    for fi in f.fns(CBORF):
        if fi.in_test:
            continue
        for c in vf.walk(fi.node):
            if c["k"] == "call" and vf.src(c["f"]) == "i128::from":
                n += 1
                ctx.site(rid, "%s|i128::from(%s)" % (fi.qual, vf.src(c["a"][0]) if c["a"] else ""), CBORF, c["l"], None)
        for c in vf.walk(fi.node):
            if c["k"] == "cast" and c["ty"] in NARROW:
                inner = c["e"]
                if any(x["k"] == "call" and vf.src(x["f"]) == "i128::from" for x in vf.walk(inner)):
                    ctx.violation(rid, "%s|%s" % (fi.qual, vf.src(c)[:80]), CBORF, c["l"],
                                  "document integer narrowed with `as %s` before use: values outside that type wrap" % c["ty"])


DOCS = {
    "uint": ("enum", "Value::Integer", [5]), "nint": ("enum", "Value::Integer", [-6]),
    "bytes": ("enum", "Value::Bytes", [("bytes", 3)]), "text": ("enum", "Value::Text", [("text", 3)]),
    "array": ("enum", "Value::Array", [absint.OPAQUE]), "map": ("enum", "Value::Map", [absint.OPAQUE]),
    "tag": ("enum", "Value::Tag", [1, absint.OPAQUE]), "float": ("enum", "Value::Float", [1.5]),
    "bool": ("enum", "Value::Bool", [True]), "null": ("enum", "Value::Null", []), "simple": ("enum", "Value::Simple", [99]),
}
MAJOR = {0: {"uint"}, 1: {"nint"}, 2: {"bytes"}, 3: {"text"}, 4: {"array"}, 5: {"map"}, 6: {"tag"},
         7: {"float", "bool", "null", "simple"}}


def major_rule(ctx):
    rid = "C02.major"
    ctx.rule(rid, "CBORValidator::visit_type2 on Type2::DataMajorType{mt, constraint}: for mt in 0..7 and every kind of document "
                  "value the verdict equals RFC 8949 section 3.1 (0 uint, 1 nint, 2 bstr, 3 tstr, 4 array, 5 map, 6 tag, 7 "
                  "simple/float); `#0.n` accepts exactly n and `#1.n` exactly -1-n (abstract evaluation of the source)", floor=88)
    f = ctx.facts
    fi = vt.visitor_fn(f, "cbor", "visit_type2")

    def tagc(run, node, recv):
        if isinstance(recv, tuple) and recv[0] == "tagc":
            if node["m"] == "as_literal":
                return ("Some", recv[1])
            if node["m"] == "is_literal":
                return run.it.eval(node["a"][0]) == recv[1]
        return NotImplemented
    cases = []
    for mt in range(8):
        for dk in DOCS:
            cases.append((mt, None, dk, DOCS[dk], dk in MAJOR[mt]))
    cases += [(0, 5, "uint=5", ("enum", "Value::Integer", [5]), True), (0, 5, "uint=6", ("enum", "Value::Integer", [6]), False),
              (0, 5, "nint=-5", ("enum", "Value::Integer", [-5]), False), (0, 5, "nint=-6", ("enum", "Value::Integer", [-6]), False),
              (1, 5, "nint=-6", ("enum", "Value::Integer", [-6]), True), (1, 5, "nint=-5", ("enum", "Value::Integer", [-5]), False),
              (1, 5, "uint=5", ("enum", "Value::Integer", [5]), False)]
    for (mt, con, dk, dv, exp) in cases:
        t2 = ("enum", "Type2::DataMajorType", {"mt": mt, "constraint": ("Some", ("tagc", con)) if con is not None else ("None",)})
        r = vt.Run(f, "cbor", "default", {"self.cbor": dv, "self.state.ctrl": ("None",)}, {"t2": t2}, scripts={"as_literal": tagc, "is_literal": tagc})
        key = "#%d%s|%s" % (mt, "" if con is None else ".%d" % con, dk)
        try:
            r.run(fi.node)
            verdict = "reject" if r.errors else "accept"
        except absint.Unknown as e:
            ctx.incomplete_msg(rid, "%s: %s" % (key, e))
            continue
        ctx.site(rid, key, CBORF, fi.line, {"type": key.split("|")[0], "document": dk, "verdict": verdict})
        if verdict != ("accept" if exp else "reject"):
            ctx.violation(rid, key, CBORF, fi.line, "CBOR validator %ss a %s document for type %s; RFC 8949/8610 say %s"
                          % (verdict, dk, key.split("|")[0], "accept" if exp else "reject"))


def run(ctx):
    ctx.guarded("C02.cmp", lambda c: cv.cmp_rule(c, "C02", "cbor"))
    ctx.guarded("C02.range", lambda c: cv.range_rule(c, "C02", "cbor"))
    ctx.guarded("C02.occur", lambda c: cv.occur_rule(c, "C02", "cbor"))
    ctx.guarded("C02.ctrlarms", lambda c: cv.arms_rule(c, "C02", "cbor"))
    ctx.guarded("C02.root", lambda c: cv.root_rule(c, "C02", "cbor"))
    ctx.guarded("C02.ctrlrestore", lambda c: cv.ctrlrestore_rule(c, "C02", "cbor"))
    import c10
    ctx.guarded("C02.ledger", lambda c: c10.r_ledger(c, rid="C02.ledger"))
    ctx.guarded("C02.width", width_rule)
    ctx.guarded("C02.major", major_rule)
