"""C06 — formatting preserves meaning (per-node clauses decided on the printer's source)."""
import itertools
import re

import absint
import fmtmodel as fm
import vf
from absint import OPAQUE, MutList, Unknown

META = {
    "level": "other",
    "explanation": (
        "The Display impls of the AST (src/ast/mod.rs, src/token.rs) are abstractly interpreted on an enumeration of node "
        "shapes: every Type2 / Type1 / Type / Group / GroupChoice / GroupEntry / MemberKey / Occur / Rule variant, each "
        "optional field present and absent, each flag both ways, literal values at the meaning-sensitive points (1.0 vs 1, "
        "text containing quote and backslash, sockets, generic arguments, cuts, occurrence bounds, tag numbers), comments absent and, for the shapes where a comment can change meaning, present; text literals over every "
        "string up to a bounded length of an alphabet of ordinary, quote, backslash, control, non-ASCII and astral characters. "
        "The text the source would print is compared, modulo layout whitespace and optional commas, with an independent "
        "reference rendering of the RFC 8610 concrete syntax for the same node: a dropped marker (~, &, ^, $, .., ...), a "
        "dropped field (occurrence, generic arguments, socket, tag number) or a re-typed literal shows up as a difference. "
        "Re-parse equality and idempotence over all documents (layout heuristics, comment placement) are not decided."),
    "assumptions": ["RFC 8610 Appendix B concrete syntax as transcribed in the reference renderer (rules/c06.py: canon)"],
    "trusted_base": ["syn 2 parser", "lib/absint.py", "lib/fmtmodel.py", "reference renderer"],
    "technique": "static analysis: abstract interpretation of the printer's source on enumerated node shapes vs a reference renderer (translation-validation style)",
}

AST = "src/ast/mod.rs"
TOK = "src/token.rs"


class Builder:
    def __init__(self, facts):
        self.defs = {}
        for file in (AST, TOK):
            for it in facts.items(file):
                if it["k"] == "structdef":
                    self.defs[it["name"]] = ("struct", it["fields"], it.get("shape"))
                elif it["k"] == "enum":
                    for v in it["variants"]:
                        self.defs["%s::%s" % (it["name"], v["name"])] = ("variant", v["fields"], v["shape"])

    def default(self, ty):
        t = ty.replace(" ", "")
        if t.startswith("Option<"):
            return ("None",)
        if t == "bool":
            return False
        if t == "Span" or t.startswith("PhantomData"):
            return OPAQUE
        if t.startswith("Vec<"):
            return MutList()
        return None

    def mk(self, path, **kw):
        if path not in self.defs:
            raise vf.Incomplete("AST type %s not found" % path)
        kind, fields, shape = self.defs[path]
        vals = {}
        for fdef in fields:
            n = fdef["n"]
            if n in kw:
                vals[n] = kw.pop(n)
            else:
                d = self.default(fdef["ty"])
                if d is None:
                    raise vf.Incomplete("field %s.%s (%s) needs a value" % (path, n, fdef["ty"]))
                vals[n] = d
        if kw:
            raise vf.Incomplete("unknown fields %s for %s" % (list(kw), path))
        if shape == "tuple":
            return ("enum", path, [vals[f["n"]] for f in fields])
        return ("enum", path, vals)


def some(x):
    return ("Some", x)


NONE = ("None",)


class Shapes:
    """builds AST nodes together with their reference rendering"""

    def __init__(self, b):
        self.b = b

    def ident(self, name, socket=None):
        sp = NONE if socket is None else some(("enum", "SocketPlug::" + socket, []))
        pre = {None: "", "TYPE": "$", "GROUP": "$$"}[socket]
        return self.b.mk("Identifier", ident=("str", name), socket=sp), pre + name

    def t2_name(self, name, socket=None, args=None):
        i, s = self.ident(name, socket)
        ga, gs = (NONE, "") if args is None else self.gargs(args)
        return self.b.mk("Type2::Typename", ident=i, generic_args=ga), s + gs

    def gargs(self, names):
        items = []
        txt = []
        for n in names:
            t1, s = self.type1(self.t2_name(n))
            items.append(self.b.mk("GenericArg", arg=t1))
            txt.append(s)
        return some(self.b.mk("GenericArgs", args=MutList(items))), "<" + ",".join(txt) + ">"

    def type1(self, t2, op=None):
        n, s = t2
        if op is None:
            return self.b.mk("Type1", type2=n, operator=NONE), s
        kind, arg = op
        an, as_ = arg
        if kind in ("..", "..."):
            o = self.b.mk("RangeCtlOp::RangeOp", is_inclusive=(kind == ".."))
        else:
            o = self.b.mk("RangeCtlOp::CtlOp", ctrl=("enum", "ControlOperator::" + kind, []))
            kind = "." + kind.lower()
        return self.b.mk("Type1", type2=n, operator=some(self.b.mk("Operator", operator=o, type2=an))), s + " " + kind + " " + as_

    def type_(self, *t1s):
        tcs = MutList([self.b.mk("TypeChoice", type1=n) for n, _ in t1s])
        return self.b.mk("Type", type_choices=tcs), " / ".join(s for _, s in t1s)

    def occ(self, kind, lo=None, hi=None):
        if kind is None:
            return NONE, ""
        if kind == "Exact":
            o = self.b.mk("Occur::Exact", lower=some(lo) if lo is not None else NONE, upper=some(hi) if hi is not None else NONE)
            s = "%s*%s" % ("" if lo is None else lo, "" if hi is None else hi)
        else:
            o = self.b.mk("Occur::" + kind)
            s = {"Optional": "?", "ZeroOrMore": "*", "OneOrMore": "+"}[kind]
        return some(self.b.mk("Occurrence", occur=o)), s + " "

    def entry_vmk(self, occ, key, ty):
        on, os_ = occ
        kn, ks = key
        tn, ts = ty
        ge = self.b.mk("ValueMemberKeyEntry", occur=on, member_key=kn, entry_type=tn)
        return self.b.mk("GroupEntry::ValueMemberKey", ge=ge), os_ + ks + ts

    def entry_tgn(self, occ, name, socket=None, args=None):
        on, os_ = occ
        i, s = self.ident(name, socket)
        ga, gs = (NONE, "") if args is None else self.gargs(args)
        ge = self.b.mk("TypeGroupnameEntry", occur=on, name=i, generic_args=ga)
        return self.b.mk("GroupEntry::TypeGroupname", ge=ge), os_ + s + gs

    def entry_inline(self, occ, group):
        on, os_ = occ
        gn, gs = group
        return self.b.mk("GroupEntry::InlineGroup", occur=on, group=gn), os_ + "(" + gs + ")"

    def key_bare(self, name):
        i, s = self.ident(name)
        return some(self.b.mk("MemberKey::Bareword", ident=i)), s + ": "

    def key_value(self, val, txt):
        return some(self.b.mk("MemberKey::Value", value=val)), txt + ": "

    def key_t1(self, t1, cut):
        n, s = t1
        return some(self.b.mk("MemberKey::Type1", t1=n, is_cut=cut)), s + (" ^" if cut else "") + " => "

    def group(self, *choices):
        gcs = []
        txt = []
        for entries in choices:
            ges = MutList([("tuple", [n, self.b.mk("OptionalComma", optional_comma=True)]) for n, _ in entries])
            gcs.append(self.b.mk("GroupChoice", group_entries=ges))
            txt.append(", ".join(s for _, s in entries))
        return self.b.mk("Group", group_choices=MutList(gcs)), " // ".join(txt)


def norm(s):
    """layout-insensitive form: whitespace runs and optional commas collapse; no space next to brackets/separators"""
    s = re.sub(r"[\s,]+", " ", s).strip()
    s = re.sub(r" ?([\[\]{}()<>]) ?", r"\1", s)
    s = re.sub(r" ?(//|/|=>|:|\^|=|\.\.\.|\.\.) ?", r"\1", s)
    return s


def strip_comments(s):
    """remove `; ... <newline>` comments the way a CDDL lexer would (to end of line)"""
    return re.sub(r";[^\n]*(\n|$)", "\n", s)


def cases(sh):
    b = sh.b
    C = []

    def add(name, pair):
        C.append((name, pair[0], pair[1]))
    t_int = sh.t2_name("int")
    t_tstr = sh.t2_name("tstr")
    # ---- Type2 literals
    add("Type2::IntValue(-5)", (b.mk("Type2::IntValue", value=-5), "-5"))
    add("Type2::UintValue(5)", (b.mk("Type2::UintValue", value=5), "5"))
    add("Type2::FloatValue(1.5)", (b.mk("Type2::FloatValue", value=1.5), "1.5"))
    add("Type2::FloatValue(1.0)", (b.mk("Type2::FloatValue", value=1.0), "1.0"))
    add("Type2::FloatValue(-2.0)", (b.mk("Type2::FloatValue", value=-2.0), "-2.0"))
    add("Type2::TextValue(plain)", (b.mk("Type2::TextValue", value=("str", "abc")), '"abc"'))
    add("Type2::TextValue(quote)", (b.mk("Type2::TextValue", value=("str", 'q"x')), '"q\\"x"'))
    add("Type2::TextValue(backslash)", (b.mk("Type2::TextValue", value=("str", "a\\b")), '"a\\\\b"'))
    add("Type2::UTF8ByteString", (b.mk("Type2::UTF8ByteString", value=("str", "ab")), "'ab'"))
    # ---- Type2 names and structure
    add("Type2::Typename", sh.t2_name("foo"))
    add("Type2::Typename($socket)", sh.t2_name("foo", "TYPE"))
    add("Type2::Typename<args>", sh.t2_name("foo", None, ["int", "tstr"]))
    tt = sh.type_(sh.type1(t_int), sh.type1(t_tstr))
    add("Type2::ParenthesizedType", (b.mk("Type2::ParenthesizedType", pt=tt[0]), "(" + tt[1] + ")"))
    g1 = lambda: sh.group([sh.entry_vmk(sh.occ(None), sh.key_bare("k"), sh.type_(sh.type1(sh.t2_name("int")))),
                           sh.entry_tgn(sh.occ("ZeroOrMore"), "tstr")])
    g = g1()
    add("Type2::Map", (b.mk("Type2::Map", group=g[0]), "{" + g[1] + "}"))
    g = g1()
    add("Type2::Array", (b.mk("Type2::Array", group=g[0]), "[" + g[1] + "]"))
    i, s = sh.ident("foo")
    add("Type2::Unwrap", (b.mk("Type2::Unwrap", ident=i, generic_args=NONE), "~" + s))
    i, s = sh.ident("foo")
    ga, gs = sh.gargs(["int"])
    add("Type2::Unwrap<args>", (b.mk("Type2::Unwrap", ident=i, generic_args=ga), "~" + s + gs))
    g = g1()
    add("Type2::ChoiceFromInlineGroup", (b.mk("Type2::ChoiceFromInlineGroup", group=g[0]), "&(" + g[1] + ")"))
    i, s = sh.ident("grp")
    add("Type2::ChoiceFromGroup", (b.mk("Type2::ChoiceFromGroup", ident=i, generic_args=NONE), "&" + s))
    i, s = sh.ident("grp")
    ga, gs = sh.gargs(["int"])
    add("Type2::ChoiceFromGroup<args>", (b.mk("Type2::ChoiceFromGroup", ident=i, generic_args=ga), "&" + s + gs))
    tt = sh.type_(sh.type1(sh.t2_name("tstr")))
    add("Type2::TaggedData(#6.32)", (b.mk("Type2::TaggedData", tag=some(("enum", "TagConstraint::Literal", [32])), t=tt[0]), "#6.32(" + tt[1] + ")"))
    tt = sh.type_(sh.type1(sh.t2_name("tstr")))
    add("Type2::TaggedData(#6.<t>)", (b.mk("Type2::TaggedData", tag=some(("enum", "TagConstraint::Type", [("str", "tagnum")])), t=tt[0]), "#6.<tagnum>(" + tt[1] + ")"))
    add("Type2::DataMajorType(#1.5)", (b.mk("Type2::DataMajorType", mt=1, constraint=some(("enum", "TagConstraint::Literal", [5]))), "#1.5"))
    add("Type2::DataMajorType(#7)", (b.mk("Type2::DataMajorType", mt=7, constraint=NONE), "#7"))
    add("Type2::Any", (b.mk("Type2::Any"), "#"))
    add("Type2::TaggedData(no content)", (b.mk("Type2::TaggedData", tag=some(("enum", "TagConstraint::Literal", [5])), t=b.mk("Type", type_choices=MutList())), "#6.5"))
    # ---- Type1 operators
    for op in ("..", "..."):
        add("Type1 range %s" % op, sh.type1((b.mk("Type2::UintValue", value=1), "1"), (op, (b.mk("Type2::UintValue", value=9), "9"))))
    enum = None
    for ctl in CTRLS:
        add("Type1 ctl .%s" % ctl.lower(), sh.type1(sh.t2_name("tstr"), (ctl, (b.mk("Type2::UintValue", value=3), "3"))))
    # every kind of target x operator x controller: the text between them must keep the three tokens apart (`"abc".size3` is the control
    # `.size3`, `1.plus2` a malformed number)
    targets = {"name": lambda: sh.t2_name("tstr"), "uint": lambda: (b.mk("Type2::UintValue", value=1), "1"),
               "text": lambda: (b.mk("Type2::TextValue", value=("str", "abc")), '"abc"'), "float": lambda: (b.mk("Type2::FloatValue", value=1.5), "1.5"),
               "paren": lambda: (b.mk("Type2::ParenthesizedType", pt=sh.type_(sh.type1(sh.t2_name("a")))[0]), "(a)")}
    controllers = {"uint": lambda: (b.mk("Type2::UintValue", value=3), "3"), "name": lambda: sh.t2_name("b"),
                   "text": lambda: (b.mk("Type2::TextValue", value=("str", "y")), '"y"')}
    for tn, tv in targets.items():
        for opn in ("..", "...", "SIZE", "CAT", "PLUS"):
            for cn, cvv in controllers.items():
                if tn == "name" and cn == "uint" and opn in ("SIZE",):
                    continue        # the shape above
                add("Type1 %s target %s %s controller" % (tn, opn if opn.startswith(".") else "." + opn.lower(), cn), sh.type1(tv(), (opn, cvv())))
    # ---- Type choices
    add("Type 1 choice", sh.type_(sh.type1(sh.t2_name("a"))))
    add("Type 2 choices", sh.type_(sh.type1(sh.t2_name("a")), sh.type1(sh.t2_name("b"))))
    add("Type 3 choices", sh.type_(sh.type1(sh.t2_name("a")), sh.type1(sh.t2_name("b")), sh.type1(sh.t2_name("c"))))
    # ---- group entries: occurrences x entry kinds
    occs = [(None,), ("Optional",), ("ZeroOrMore",), ("OneOrMore",), ("Exact", 2, 3), ("Exact", 2, None), ("Exact", None, 3), ("Exact", 0, 1)]
    for o in occs:
        on = "none" if o[0] is None else ("%s*%s" % (o[1] if o[1] is not None else "", o[2] if o[2] is not None else "") if o[0] == "Exact" else o[0])
        add("GroupEntry::TypeGroupname occ=%s" % on, sh.entry_tgn(sh.occ(*o), "grp"))
        add("GroupEntry::TypeGroupname<args> occ=%s" % on, sh.entry_tgn(sh.occ(*o), "grp", None, ["int"]))
        add("GroupEntry::ValueMemberKey bareword occ=%s" % on, sh.entry_vmk(sh.occ(*o), sh.key_bare("k"), sh.type_(sh.type1(sh.t2_name("int")))))
        add("GroupEntry::InlineGroup occ=%s" % on, sh.entry_inline(sh.occ(*o), sh.group([sh.entry_tgn(sh.occ(None), "a"), sh.entry_tgn(sh.occ(None), "b")])))
    add("GroupEntry::TypeGroupname $$socket", sh.entry_tgn(sh.occ(None), "grp", "GROUP"))
    for cut in (False, True):
        add("MemberKey::Type1 cut=%s" % cut, sh.entry_vmk(sh.occ(None), sh.key_t1(sh.type1(sh.t2_name("tstr")), cut), sh.type_(sh.type1(sh.t2_name("int")))))
    add("MemberKey::Value uint", sh.entry_vmk(sh.occ(None), sh.key_value(("enum", "Value::UINT", [1]), "1"), sh.type_(sh.type1(sh.t2_name("int")))))
    add("MemberKey::Value int", sh.entry_vmk(sh.occ(None), sh.key_value(("enum", "Value::INT", [-1]), "-1"), sh.type_(sh.type1(sh.t2_name("int")))))
    add("MemberKey::Value text", sh.entry_vmk(sh.occ(None), sh.key_value(("enum", "Value::TEXT", [("str", "k")]), '"k"'), sh.type_(sh.type1(sh.t2_name("int")))))
    add("MemberKey::Value float", sh.entry_vmk(sh.occ(None), sh.key_value(("enum", "Value::FLOAT", [1.0]), "1.0"), sh.type_(sh.type1(sh.t2_name("int")))))
    add("MemberKey none (bare value entry)", sh.entry_vmk(sh.occ("Optional"), (NONE, ""), sh.type_(sh.type1((b.mk("Type2::UintValue", value=7), "7")))))
    # ---- groups
    add("Group 1 choice 1 entry", sh.group([sh.entry_tgn(sh.occ(None), "a")]))
    add("Group 1 choice 3 entries", sh.group([sh.entry_tgn(sh.occ(None), "a"), sh.entry_tgn(sh.occ("Optional"), "b"), sh.entry_tgn(sh.occ("ZeroOrMore"), "c")]))
    add("Group 2 choices", sh.group([sh.entry_tgn(sh.occ(None), "a")], [sh.entry_tgn(sh.occ("OneOrMore"), "b"), sh.entry_tgn(sh.occ(None), "c")]))
    add("Group 3 choices", sh.group([sh.entry_tgn(sh.occ(None), "a")], [sh.entry_tgn(sh.occ("Optional"), "b")], [sh.entry_tgn(sh.occ(None), "c")]))
    add("Group 4 choices x 2 entries", sh.group(*[[sh.entry_tgn(sh.occ("ZeroOrMore"), "a%d" % i), sh.entry_tgn(sh.occ(None), "b%d" % i)] for i in range(4)]))
    # ---- rules
    for alt in (False, True):
        for gen in (False, True):
            i, s = sh.ident("r", "TYPE" if alt else None)
            gp, gps = NONE, ""
            if gen:
                p, ps = sh.ident("T")
                gp = some(b.mk("GenericParams", params=MutList([b.mk("GenericParam", param=p)])))
                gps = "<" + ps + ">"
            tt = sh.type_(sh.type1(sh.t2_name("int")), sh.type1(sh.t2_name("tstr")))
            tr = b.mk("TypeRule", name=i, generic_params=gp, is_type_choice_alternate=alt, value=tt[0])
            add("Rule::Type alt=%s generic=%s" % (alt, gen), (b.mk("Rule::Type", rule=tr), s + gps + (" /= " if alt else " = ") + tt[1]))
            i, s = sh.ident("g", "GROUP" if alt else None)
            ge = sh.entry_inline(sh.occ(None), sh.group([sh.entry_tgn(sh.occ(None), "a"), sh.entry_tgn(sh.occ("ZeroOrMore"), "b")]))
            gp2, gps2 = NONE, ""
            if gen:
                p, ps = sh.ident("T")
                gp2 = some(b.mk("GenericParams", params=MutList([b.mk("GenericParam", param=p)])))
                gps2 = "<" + ps + ">"
            gr = b.mk("GroupRule", name=i, generic_params=gp2, is_group_choice_alternate=alt, entry=ge[0])
            add("Rule::Group alt=%s generic=%s" % (alt, gen), (b.mk("Rule::Group", rule=gr), s + gps2 + (" //= " if alt else " = ") + ge[1]))
    # ---- a literal whose content contains a line break, inside the group layouts that re-flow their entries
    for nch in (2, 3, 4):
        lit = (b.mk("Type2::UTF8ByteString", value=("str", "x\ny")), "'x\ny'")
        cs = [[sh.entry_vmk(sh.occ(None), sh.key_bare("k%d" % i), sh.type_(sh.type1(lit if i == 0 else sh.t2_name("int"))))] for i in range(nch)]
        add("Group %d choices, byte string with line break" % nch, sh.group(*cs))
    # ---- comments attached (the code around them must print unchanged; see also C16)
    def cm(txt):
        return some(("enum", "Comments", [MutList([("str", txt)])]))

    def with_field(node, **kw):
        node[2].update(kw)
        return node
    for pos in range(3):
        for where in ("leading_comments", "trailing_comments"):
            es = [sh.entry_tgn(sh.occ("ZeroOrMore"), "a"), sh.entry_tgn(sh.occ("Exact", 2, 3), "b", None, ["int"]),
                  sh.entry_vmk(sh.occ("Optional"), sh.key_bare("k"), sh.type_(sh.type1(sh.t2_name("tstr"))))]
            with_field(es[pos][0], **{where: cm(" note %d" % pos)})
            add("Group 3 entries, %s on #%d" % (where, pos), sh.group(es))
    for pos in range(2):
        tcs = [sh.type1(sh.t2_name("a")), sh.type1(sh.t2_name("b")), sh.type1(sh.t2_name("c"))]
        t = sh.type_(*tcs)
        with_field(t[0][2]["type_choices"][pos], comments_after_type=cm(" after %d" % pos))
        add("Type 3 choices, comments_after_type on #%d" % pos, t)
        t = sh.type_(sh.type1(sh.t2_name("a")), sh.type1(sh.t2_name("b")))
        with_field(t[0][2]["type_choices"][pos], comments_after_type=cm(" after %d" % pos))
        add("Type 2 choices, comments_after_type on #%d" % pos, t)
        # the same commented type in a nested position: whatever closes the enclosing construct must not land on the comment's line
        for wrap in ("paren", "tag", "member"):
            t = sh.type_(sh.type1(sh.t2_name("a")), sh.type1(sh.t2_name("b")))
            with_field(t[0][2]["type_choices"][pos], comments_after_type=cm(" after %d" % pos))
            if wrap == "paren":
                add("ParenthesizedType of Type 2 choices, comments_after_type on #%d" % pos, (b.mk("Type2::ParenthesizedType", pt=t[0]), "(" + t[1] + ")"))
            elif wrap == "tag":
                add("TaggedData of Type 2 choices, comments_after_type on #%d" % pos,
                    (b.mk("Type2::TaggedData", tag=some(("enum", "TagConstraint::Literal", [32])), t=t[0]), "#6.32(" + t[1] + ")"))
            else:
                inner = (b.mk("Type2::ParenthesizedType", pt=t[0]), "(" + t[1] + ")")
                es = [sh.entry_vmk(sh.occ(None), sh.key_bare("k"), sh.type_(sh.type1(inner))), sh.entry_vmk(sh.occ(None), sh.key_bare("other"), sh.type_(sh.type1(sh.t2_name("bool"))))]
                add("Group with member of parenthesised Type 2 choices, comments_after_type on #%d" % pos, sh.group(es))
        # a comment without text (`;` alone, or followed by blanks only) is still a comment: it runs to the end of its line
        for label, txt in (("empty", ""), ("blank", "  ")):
            t = sh.type_(sh.type1(sh.t2_name("a")), sh.type1(sh.t2_name("b")))
            with_field(t[0][2]["type_choices"][pos], comments_after_type=cm(txt))
            add("Type 2 choices, %s comments_after_type on #%d" % (label, pos), t)
    return C


CTRLS = []


def r_node(ctx):
    rid = "C06.node"
    ctx.rule(rid, "for every enumerated node shape the text the Display source prints equals, modulo layout whitespace and optional commas, "
                  "the RFC 8610 concrete syntax of that node (no marker, field or literal kind dropped or altered)", floor=100)
    f = ctx.facts
    global CTRLS
    en = f.item(TOK, "enum", "ControlOperator")
    CTRLS = [v["name"] for v in en["variants"]]
    import c03
    disp = c03.display_table(f, TOK, "ControlOperator")
    b = Builder(f)
    sh = Shapes(b)
    world = fm.World(f)
    file_of = AST
    for name, node, expect in cases(sh):
        # reference text for control operators uses the crate's documented spelling
        if name.startswith("Type1 ctl ."):
            v = name.split(".")[-1].upper()
            real = next((d for k, d in disp.items() if k.lower() == v.lower()), None)
            if real:
                expect = re.sub(r" \.[a-z0-9]+ ", " " + real[0] + " ", expect)
        try:
            got = fm.render_node(world, node)
        except Unknown as e:
            ctx.incomplete_msg(rid, "%s: %s" % (name, e))
            continue
        ty = world.type_of(node)
        line = world.display[ty].line if ty in world.display else 1
        ok = norm(strip_comments(got)) == norm(expect)
        ctx.site(rid, name, file_of, line, {"printed": got, "reference": expect})
        if not ok:
            ctx.violation(rid, name, file_of, line, "%s prints %r; the RFC concrete syntax of this node is %r" % (name, got, expect))


def r_valuekind(ctx):
    rid = "C06.valuekind"
    ctx.rule(rid, "token::Value / ByteValue Display: each literal kind prints in a spelling that re-lexes to the same kind and value", floor=4)
    f = ctx.facts
    world = fm.World(f)
    for name, node, expect in (("Value::INT", ("enum", "Value::INT", [-3]), "-3"), ("Value::UINT", ("enum", "Value::UINT", [3]), "3"),
                               ("Value::FLOAT(2.0)", ("enum", "Value::FLOAT", [2.0]), "2.0"), ("Value::FLOAT(2.5)", ("enum", "Value::FLOAT", [2.5]), "2.5"),
                               ("Value::TEXT", ("enum", "Value::TEXT", [("str", "a")]), '"a"'),
                               ("Value::TEXT(quote)", ("enum", "Value::TEXT", [("str", 'a"b')]), '"a\\"b"')):
        try:
            got = fm.render_node(world, node)
        except Unknown as e:
            ctx.incomplete_msg(rid, "%s: %s" % (name, e))
            continue
        ctx.site(rid, name, TOK, world.display["Value"].line, {"printed": got, "reference": expect})
        if got != expect:
            ctx.violation(rid, name, TOK, world.display["Value"].line, "%s prints %r, a spelling that keeps kind and value is %r" % (name, got, expect))


TEXT_ALPHABET = ["a", "u", '"', "\\", "/", "'", "{", "}", "\n", "\r", "\t", "\x08", "\x0c", "\x01", "\x7f", "\u00e9", "\U0001F600"]
SIMPLE_ESC = {"n": "\n", "r": "\r", "t": "\t", "\\": "\\", '"': '"', "'": "'", "/": "/", "b": "\x08", "f": "\x0c"}


def decode_text_literal(lit):
    """reference reading of a printed text literal per RFC 8610 Appendix B / RFC 9682 §2.1: returns the value or
    raises ValueError when the text is not one well-formed literal"""
    if len(lit) < 2 or lit[0] != '"' or lit[-1] != '"':
        raise ValueError("not delimited by double quotes")
    inner, out, i = lit[1:-1], [], 0
    while i < len(inner):
        c = inner[i]
        if c == '"':
            raise ValueError("unescaped double quote inside the literal")
        if c != "\\":
            out.append(c)
            i += 1
            continue
        if i + 1 >= len(inner):
            raise ValueError("dangling backslash")
        n = inner[i + 1]
        if n in SIMPLE_ESC:
            out.append(SIMPLE_ESC[n])
            i += 2
        elif n == "u" and inner[i + 2:i + 3] == "{":
            j = inner.find("}", i + 3)
            if j < 0:
                raise ValueError("unterminated \\u{")
            out.append(chr(int(inner[i + 3:j], 16)))
            i = j + 1
        elif n == "u":
            out.append(chr(int(inner[i + 2:i + 6], 16)))
            i += 6
        else:
            raise ValueError("unknown escape \\%s" % n)
    return "".join(out)


def r_text(ctx, tier):
    rid = "C06.text"
    ctx.rule(rid, "text literals: for every string over an alphabet of ordinary, quote, backslash, control, non-ASCII and astral "
                  "characters (all strings up to the tier's length), the interpreted Display body of Type2::TextValue and of "
                  "Value::TEXT prints one well-formed double-quoted literal whose RFC decoding is the original string", floor=600)
    import itertools
    f = ctx.facts
    world = fm.World(f)
    b = Builder(f)
    maxlen = 3 if tier == "thorough" else 2
    for n in range(0, maxlen + 1):
        for tup in itertools.product(TEXT_ALPHABET, repeat=n):
            val = "".join(tup)
            for kind, node, line in (("Type2::TextValue", b.mk("Type2::TextValue", value=("str", val)), world.display["Type2"].line),
                                     ("Value::TEXT", ("enum", "Value::TEXT", [("str", val)]), world.display["Value"].line)):
                name = "%s %r" % (kind, val)
                try:
                    got = fm.render_node(world, node)
                except Unknown as e:
                    ctx.incomplete_msg(rid, "%s: %s" % (name, e))
                    continue
                ctx.site(rid, name, AST if kind.startswith("Type2") else TOK, line, None)
                try:
                    back = decode_text_literal(got)
                    why = None if back == val else "decodes to %r" % back
                except ValueError as e:
                    why = str(e)
                if why:
                    cls = "quote" if '"' in val else "backslash" if "\\" in val else "other"
                    ctx.violation(rid, "%s(%s)" % (kind, cls), AST if kind.startswith("Type2") else TOK, line,
                                  "%s with value %r prints %s: %s" % (kind, val, got, why))


def r_bytes(ctx):
    import itertools
    import pestg
    rid = "C06.bytes"
    ctx.rule(rid, "byte-string literals in the quoted form: for every content over an alphabet of ordinary characters, both quotes, backslash, "
                  "space, tab and line feed (all strings up to length 2 plus longer samples) the interpreted Display body of "
                  "Type2::UTF8ByteString prints a literal that the crate's own grammar (bytes_value, PEG semantics) reads back with the same "
                  "content; and the literal survives unchanged inside every group layout (1-3 choices, short and long) — a printer that "
                  "post-processes the rendered text must not touch literal content", floor=40)
    f = ctx.facts
    world = fm.World(f)
    b = Builder(f)
    sh = Shapes(b)
    m = pestg.Matcher(f.grammar())
    line = world.display["Type2"].line
    alphabet = ["a", "'", "\\", "\n", " ", "\t", "\""]
    values = ["".join(t) for n in range(0, 3) for t in itertools.product(alphabet, repeat=n)] + ["x\ny", "it's", "a  b", "tab\there"]
    seen = set()
    for val in values:
        node = b.mk("Type2::UTF8ByteString", value=("str", val))
        name = "UTF8ByteString %r" % val
        try:
            got = fm.render_node(world, node)
        except Unknown as e:
            ctx.incomplete_msg(rid, "%s: %s" % (name, e))
            continue
        ctx.site(rid, name, AST, line, None)
        try:
            ok = m.match("bytes_value", got)
        except pestg.Unsupported as e:
            raise vf.Incomplete("matcher: %s" % e)
        inner = got[1:-1] if got[:1] == "'" and got[-1:] == "'" else (got[2:-1] if got[:2] == 'h"' else None)
        if got[:2] == "h'" and got[-1:] == "'":
            try:
                inner = bytes.fromhex(got[2:-1]).decode()       # base16: the same bytes in another spelling
            except ValueError:
                inner = None
        why = None
        if not ok:
            why = "is not a byte-string literal of the crate's grammar"
        elif inner != val:
            why = "reads back with content %r" % inner
        if why:
            cls = "quote" if "'" in val else "other"
            if cls not in seen:
                seen.add(cls)
                ctx.violation(rid, "leaf|%s" % cls, AST, line, "Type2::UTF8ByteString with content %r prints %r, which %s" % (val, got, why))
    # the literal inside group layouts
    for val in ("x\ny", "a  b", "a\tb"):
        lit = (b.mk("Type2::UTF8ByteString", value=("str", val)), "'" + val + "'")
        leaf = fm.render_node(world, lit[0])
        for layout, choices in (("1 choice", 1), ("2 choices", 2), ("3 choices", 3), ("4 choices", 4)):
            for extra in (0, 3):
                cs = []
                for i in range(choices):
                    es = [sh.entry_vmk(sh.occ(None), sh.key_bare("k%d" % i), sh.type_(sh.type1(lit if i == 0 else sh.t2_name("int"))))]
                    es += [sh.entry_tgn(sh.occ(None), "e%d" % j) for j in range(extra)]
                    cs.append(es)
                g = sh.group(*cs)
                name = "Group %s, %d entries each, literal %r" % (layout, 1 + extra, val)
                try:
                    got = fm.render_node(world, g[0])
                except Unknown as e:
                    ctx.incomplete_msg(rid, "%s: %s" % (name, e))
                    continue
                ctx.site(rid, name, AST, world.display["Group"].line, None)
                if leaf not in got:
                    key = "context|%s" % ("newline" if "\n" in val else "space" if "  " in val else "tab")
                    if key not in seen:
                        seen.add(key)
                        ctx.violation(rid, key, AST, world.display["Group"].line, "%s prints %r: the literal %r is not in the output unchanged — the group "
                                      "printer rewrites the rendered text of its entries" % (name, got, leaf))


def run(ctx):
    ctx.guarded("C06.text", lambda c: r_text(c, c.tier))
    ctx.guarded("C06.node", r_node)
    ctx.guarded("C06.bytes", r_bytes)
    ctx.guarded("C06.valuekind", r_valuekind)
