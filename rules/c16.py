"""C16 — comments are recognised only as comments and survive formatting (structural clauses)."""
import itertools
import re

import absint
import fmtmodel as fm
import vf
from absint import Interp, MutList, OPAQUE, Return, Unknown

META = {
    "level": "other",
    "explanation": (
        "(source) CommentTok values are constructed only in collect_comment_toks from Rule::COMMENT pairs; ast::Comments values are "
        "constructed only from merge's assignment. (tight) type2_span / type1_tight_end / entry_tight_end are abstractly evaluated on "
        "nodes with distinct span ends: the tight end of an entry is the end of its rightmost token (last type choice, controller of "
        "an operator, generic arguments). (merge) merge is abstractly interpreted on enumerated configurations of comments and anchors: "
        "each comment is bound to at most one anchor and the binding follows the documented geometry (nearest same-line preceding "
        "trailing anchor, else first following leading anchor under the container and contiguity guards). (render) Comments::fmt ends "
        "every comment with a line break; the printer emits each attached comment exactly once and never lets one absorb following "
        "code (abstract evaluation of the Display source on commented node shapes, shared with C06). Comment placement across whole "
        "documents through the parser is not decided."),
    "assumptions": ["pest produces COMMENT pairs only for grammar rule COMMENT (outside literals by construction of the token rules)"],
    "trusted_base": ["syn 2 parser", "lib/absint.py", "lib/fmtmodel.py"],
    "technique": "static analysis: who-may-construct, abstract interpretation of the comment geometry and of the printer on enumerated shapes",
}

B = "src/pest_bridge.rs"
AST = "src/ast/mod.rs"


def local_fns(facts):
    return {fi.name: fi for fi in facts.fns(B) if not fi.in_test and fi.impl_self is None and all(absint.default_cfg(c) for c in fi.cfg)}


def methods_of(facts, ty):
    return {fi.name: fi for fi in facts.fns(B) if not fi.in_test and fi.impl_self == ty and all(absint.default_cfg(c) for c in fi.cfg)}


class Runner:
    def __init__(self, facts):
        self.fns = local_fns(facts)
        self.slot = methods_of(facts, "SlotKind")

    def call(self, name, args, depth=0):
        fi = self.fns.get(name)
        if fi is None:
            raise vf.Incomplete("%s not found in %s" % (name, B))
        return self._run(fi, None, args, depth)

    def _run(self, fi, selfv, args, depth):
        if depth > 30:
            raise Unknown("depth")
        env = {}
        names = []
        for inp in fi.node["sig"]["inputs"]:
            if "self" in inp:
                env["self"] = selfv
            elif inp["pat"]["k"] == "pid":
                names.append(inp["pat"]["n"])
            else:
                names.append(None)
        for n, a in zip(names, args):
            if n:
                env[n] = a

        def on_call(kind, nm, node, a, recv):
            if kind == "fn" and nm in self.fns:
                return self._run(self.fns[nm], None, a, depth + 1)
            if kind == "method" and isinstance(recv, tuple) and recv[:1] == ("enum",) and recv[1].startswith("SlotKind::") and nm in self.slot:
                return self._run(self.slot[nm], recv, [], depth + 1)
            return NotImplemented
        it = Interp(env=env, on_call=on_call)
        try:
            return it.block(fi.node["body"])
        except Return as r:
            return r.v


def span(a, b, line=1):
    return ("tuple", [a, b, line])


def ident(end):
    return ("enum", "Identifier", {"ident": ("str", "x"), "socket": ("None",), "span": span(end - 1, end)})


def t2_name(end, ga_end=None, greedy=None):
    ga = ("None",) if ga_end is None else ("Some", ("enum", "GenericArgs", {"args": MutList(), "span": span(end, ga_end)}))
    return ("enum", "ast::Type2::Typename", {"ident": ident(end), "generic_args": ga, "span": span(end - 1, greedy if greedy is not None else (ga_end or end) + 7)})


def t2_lit(end):
    return ("enum", "ast::Type2::UintValue", {"value": 1, "span": span(end - 1, end)})


def type1(t2, op_t2=None):
    op = ("None",) if op_t2 is None else ("Some", ("enum", "Operator", {"operator": OPAQUE, "type2": op_t2}))
    return ("enum", "Type1", {"type2": t2, "operator": op, "span": span(0, 99)})


def r_tight(ctx):
    rid = "C16.tight"
    ctx.rule(rid, "type2_span, type1_tight_end and entry_tight_end return the end of the node's rightmost real token: identifier or its generic "
                  "arguments for names (never the greedy pair end), the controller for `a .op b`, the *last* type choice of a member entry, "
                  "generic arguments or name for a group-name entry, the closing bracket for an inline group", floor=10)
    R = Runner(ctx.facts)
    fi = R.fns.get("entry_tight_end")
    if fi is None:
        raise vf.Incomplete("entry_tight_end not found")
    cases = []
    cases.append(("type2_span|typename", "type2_span", [t2_name(10)], ("tuple", [9, 10, 1])))
    cases.append(("type2_span|typename<args>", "type2_span", [t2_name(10, 15)], ("tuple", [9, 15, 1])))
    cases.append(("type2_span|literal", "type2_span", [t2_lit(10)], ("tuple", [9, 10, 1])))
    cases.append(("type1_tight_end|plain", "type1_tight_end", [type1(t2_name(10))], 10))
    cases.append(("type1_tight_end|operator", "type1_tight_end", [type1(t2_name(10), t2_lit(20))], 20))
    cases.append(("type1_tight_end|operator-name", "type1_tight_end", [type1(t2_lit(5), t2_name(30, 34))], 34))

    def vmk(ends):
        tcs = MutList([("enum", "TypeChoice", {"type1": type1(t2_name(e))}) for e in ends])
        ge = ("enum", "ValueMemberKeyEntry", {"occur": ("None",), "member_key": ("None",), "entry_type": ("enum", "Type", {"type_choices": tcs, "span": span(0, 90)})})
        return ("enum", "ast::GroupEntry::ValueMemberKey", {"ge": ge, "span": span(0, 95)})
    cases.append(("entry_tight_end|member 1 choice", "entry_tight_end", [vmk([10])], 10))
    cases.append(("entry_tight_end|member 2 choices", "entry_tight_end", [vmk([10, 20])], 20))
    cases.append(("entry_tight_end|member 3 choices", "entry_tight_end", [vmk([10, 20, 30])], 30))
    cases.append(("entry_tight_end|member no choices", "entry_tight_end", [vmk([])], 95))
    tg = lambda ga: ("enum", "ast::GroupEntry::TypeGroupname", {"ge": ("enum", "TypeGroupnameEntry", {"occur": ("None",), "name": ident(10), "generic_args": ("None",) if ga is None else ("Some", ("enum", "GenericArgs", {"args": MutList(), "span": span(10, ga)}))}), "span": span(0, 95)})
    cases.append(("entry_tight_end|groupname", "entry_tight_end", [tg(None)], 10))
    cases.append(("entry_tight_end|groupname<args>", "entry_tight_end", [tg(16)], 16))
    cases.append(("entry_tight_end|inline group", "entry_tight_end", [("enum", "ast::GroupEntry::InlineGroup", {"occur": ("None",), "group": OPAQUE, "span": span(3, 40)})], 40))
    for key, fn, args, exp in cases:
        try:
            v = R.call(fn, args)
        except Unknown as e:
            ctx.incomplete_msg(rid, "%s: %s" % (key, e))
            continue
        ctx.site(rid, key, B, R.fns[fn].line, {"result": repr(v), "expected": repr(exp)})
        if v != exp:
            ctx.violation(rid, key, B, R.fns[fn].line, "%s evaluates to %r, the rightmost token ends at %r: a trailing comment binds to the wrong node" % (key, v, exp))


KINDS_T = ["ChoiceTrailing", "EntryTrailing"]
KINDS_L = ["RuleLeading", "ChoiceLeading", "GrpChoiceLeading", "EntryLeading"]


def anchor(kind, lo, hi, line):
    return ("enum", "Anchor", {"pos": ("enum", "AnchorPos", {"lo": lo, "hi": hi, "line_hi": line}), "kind": ("enum", "SlotKind::" + kind, [])})


def ctok(lo, hi, line, pure, text):
    return ("enum", "CommentTok", {"lo": lo, "hi": hi, "line": line, "pure": pure, "text": ("str", text)})


def oracle_merge(comments, anchors, containers):
    """the documented binding rule (doc comments of merge), written independently"""
    assigned = [[] for _ in anchors]
    orphans = []
    pure_lines = {c["line"] for c in comments if c["pure"]}
    for c in comments:
        if not c["pure"]:
            cands = [(i, a) for i, a in enumerate(anchors) if a["kind"] in KINDS_T and a["hi"] <= c["lo"] and a["line"] == c["line"]]
            if cands:
                best = None
                for i, a in cands:
                    k = (a["hi"], -a["lo"], a["kind"] == "EntryTrailing")
                    if best is None or k >= best[0]:
                        best = (k, i)
                assigned[best[1]].append(c["text"])
                continue
        nxt = next(((i, a) for i, a in enumerate(anchors) if a["kind"] in KINDS_L and a["lo"] > c["hi"]), None)
        if nxt is None:
            orphans.append(c["text"])
            continue
        i, a = nxt
        enc = [(lo, hi) for lo, hi in containers if lo < c["lo"] < hi]
        close = max(enc, key=lambda x: x[0])[1] if enc else None
        if close is not None and close < a["lo"]:
            orphans.append(c["text"])
        elif all(l in pure_lines for l in range(c["line"] + 1, a["line"])):
            assigned[i].append(c["text"])
    return assigned, orphans


def r_merge(ctx):
    rid = "C16.merge"
    ctx.rule(rid, "merge binds each comment to at most one anchor (or drops it as an orphan), and the binding equals the documented geometry: "
                  "a trailing comment goes to the nearest same-line preceding trailing anchor (ties: outermost, then the entry), a leading "
                  "comment to the first following leading anchor unless it would escape its innermost container or a non-comment line "
                  "intervenes (abstract evaluation on enumerated comment/anchor configurations)", floor=200)
    R = Runner(ctx.facts)
    fi = R.fns.get("merge")
    if fi is None:
        raise vf.Incomplete("merge not found")
    n = 0
    seen = set()
    # configurations: up to 3 anchors on lines 1..3, up to 2 comments
    anchor_opts = [("EntryTrailing", 2, 6, 1), ("ChoiceTrailing", 4, 6, 1), ("ChoiceTrailing", 2, 6, 1), ("EntryTrailing", 2, 4, 1), ("EntryLeading", 30, 30, 3),
                   ("RuleLeading", 50, 50, 5), ("ChoiceLeading", 22, 22, 2), ("EntryTrailing", 31, 35, 3), ("GrpChoiceLeading", 42, 42, 4),
                   # an entry that spans lines 1-3: its own trailing slot precedes (pre-order) the slots of the choices nested in it
                   ("EntryTrailing", 2, 35, 3)]
    comment_opts = [(8, 12, 1, False, "t1"), (20, 24, 2, True, "p2"), (36, 40, 3, False, "t3"), (26, 29, 2, True, "q2"), (44, 48, 4, True, "p4")]
    container_opts = [[], [(1, 28)], [(1, 60)], [(1, 60), (19, 25)]]
    for na in (1, 2, 3):
        for acombo in itertools.combinations(anchor_opts, na):
            acombo = sorted(acombo, key=lambda a: (a[1], a[2]))
            for nc in (1, 2):
                for ccombo in itertools.combinations(comment_opts, nc):
                    for cont in container_opts:
                        anchors = MutList([anchor(*a) for a in acombo])
                        comments = MutList([ctok(*c) for c in ccombo])
                        containers = MutList([("tuple", [lo, hi]) for lo, hi in cont])
                        try:
                            v = R.call("merge", [comments, anchors, containers])
                        except Unknown as e:
                            ctx.incomplete_msg(rid, "config: %s" % e)
                            continue
                        n += 1
                        if not (isinstance(v, tuple) and v[0] == "tuple"):
                            ctx.incomplete_msg(rid, "result %r" % (v,))
                            continue
                        got_assigned = [[x[1] for x in lst] for lst in v[1][0]]
                        got_orph = [o[2]["text"][1] for o in v[1][1]]
                        exp_assigned, exp_orph = oracle_merge([dict(lo=c[0], hi=c[1], line=c[2], pure=c[3], text=c[4]) for c in ccombo],
                                                              [dict(kind=a[0], lo=a[1], hi=a[2], line=a[3]) for a in acombo], cont)
                        flat = [t for lst in got_assigned for t in lst] + got_orph
                        dup = [t for t in set(flat) if flat.count(t) > 1]
                        if dup and "dup" not in seen:
                            seen.add("dup")
                            ctx.violation(rid, "comment-bound-twice", B, fi.line, "merge binds comment %r more than once (anchors %r, comments %r)" % (dup, acombo, ccombo))
                        if (got_assigned != exp_assigned or sorted(got_orph) != sorted(exp_orph)):
                            cls = "geometry|" + ("trailing" if any(not c[3] for c in ccombo) else "leading")
                            if cls not in seen:
                                seen.add(cls)
                                ctx.violation(rid, cls, B, fi.line, "merge on anchors %r, comments %r, containers %r binds %r (orphans %r); the documented rule gives %r (orphans %r)"
                                              % (acombo, ccombo, cont, got_assigned, got_orph, exp_assigned, exp_orph))
    ctx.site(rid, "configurations", B, fi.line, {"evaluated": n})
    ctx.extra["evaluations"] = ctx.extra.get("evaluations", 0) + n
    ctx.rules[rid]["floor"] = 1
    if n < 200:
        ctx.incomplete_msg(rid, "only %d configurations evaluated" % n)


def r_anchors(ctx):
    rid = "C16.anchors"
    ctx.rule(rid, "visit_group_entry hands merge two slots per member / group-name entry: EntryLeading at (lo, lo) on the line where the "
                  "entry starts, and EntryTrailing from lo to the entry's tight end on the line of that *end* — a same-line trailing comment "
                  "of an entry that spans several lines is on the line of its last token (abstract evaluation on a three-line input, the "
                  "tight end and the nested type visit scripted)", floor=2)
    R = Runner(ctx.facts)
    fi = R.fns.get("visit_group_entry")
    if fi is None:
        raise vf.Incomplete("visit_group_entry not found")
    text = "ab\ncd\nef gh"
    lo, tight = 0, 8            # the entry starts on line 1 and its last token ends on line 3
    line = lambda b: text[:b].count("\n") + 1
    entries = {
        "member": ("enum", "ast::GroupEntry::ValueMemberKey", {"ge": ("enum", "ValueMemberKeyEntry", {"occur": ("None",), "member_key": ("None",), "entry_type": OPAQUE}),
                                                               "span": span(lo, 11), "leading_comments": ("None",), "trailing_comments": ("None",)}),
        "groupname": ("enum", "ast::GroupEntry::TypeGroupname", {"ge": OPAQUE, "span": span(lo, 11), "leading_comments": ("None",), "trailing_comments": ("None",)}),
    }
    for label, entry in entries.items():
        got = []

        def on_call(kind, nm, node, a, recv, got=got):
            cur = absint.CURRENT
            if kind == "fn" and nm and "::" not in nm and (nm == "cb" or (cur is not None and cur.lookup(nm) == ("callback",))):
                got.append((a[0], a[1]))
                return ("tuple", [])
            if kind == "fn" and nm == "entry_tight_end":
                return tight
            if kind == "fn" and nm in ("visit_type", "visit_group"):
                return ("tuple", [])
            if kind == "fn" and nm == "line_of_byte" and isinstance(a[1], int):
                return line(a[1])
            if kind == "fn" and nm in R.fns:
                # a helper of the bridge (e.g. one that emits both slots): interpreted with the same callbacks
                g = R.fns[nm]
                pn = [inp["pat"]["n"] if inp.get("pat", {}).get("k") == "pid" else None for inp in g.node["sig"]["inputs"]]
                sub = Interp(env={n: v for n, v in zip(pn, a) if n}, on_call=on_call)
                try:
                    return sub.block(g.node["body"])
                except Return as r:
                    return r.v
            return NotImplemented
        names = [inp["pat"]["n"] if inp.get("pat", {}).get("k") == "pid" else None for inp in fi.node["sig"]["inputs"]]
        env = dict(zip(names, [entry, ("str", text), ("callback",)]))
        it = Interp(env=env, on_call=on_call)
        it.on_call = on_call
        try:
            try:
                it.block(fi.node["body"])
            except Return:
                pass
        except Unknown as e:
            ctx.incomplete_msg(rid, "%s: %s" % (label, e))
            continue
        slots = {}
        bad = False
        for pos, kind in got:
            if not (isinstance(pos, tuple) and pos[:1] == ("enum",) and isinstance(pos[2], dict) and isinstance(kind, tuple) and kind[:1] == ("enum",)):
                bad = True
                continue
            d = pos[2]
            if any(absint.has_opaque(d.get(k)) for k in ("lo", "hi", "line_hi")):
                bad = True
                continue
            slots[kind[1].split("::")[-1]] = (d.get("lo"), d.get("hi"), d.get("line_hi"))
        if bad or not slots:
            ctx.incomplete_msg(rid, "%s: the anchors handed to the callback could not be evaluated (%r)" % (label, got[:2]))
            continue
        ctx.site(rid, label, B, fi.line, {"slots": {k: list(v) for k, v in slots.items()}})
        want = {"EntryLeading": (lo, lo, line(lo)), "EntryTrailing": (lo, tight, line(tight))}
        for k, w in want.items():
            if slots.get(k) != w:
                ctx.violation(rid, "%s|%s" % (label, k), B, fi.line, "visit_group_entry gives the %s slot of a %s entry (lo, hi, line) = %r; an entry from byte %d "
                              "(line %d) whose last token ends at byte %d (line %d) must have %r — merge binds a trailing comment by the line of the "
                              "anchor's end, so the comment after a multi-line entry goes to an inner type choice and is printed without its line break"
                              % (k, label, slots.get(k), lo, line(lo), tight, line(tight), w))


def r_source(ctx):
    rid = "C16.source"
    ctx.rule(rid, "CommentTok is constructed only in collect_comment_toks, whose spans come from collect_comment_spans (Rule::COMMENT pairs only); "
                  "ast::Comments is constructed only from merge's `assigned` lists in convert_cddl", floor=3)
    f = ctx.facts
    for fi in f.fns(B):
        if fi.in_test:
            continue
        for n in vf.find(fi.node, "struct"):
            if n["p"] == "CommentTok":
                ctx.site(rid, "CommentTok|%s" % fi.qual, B, n["l"], None)
                if fi.name != "collect_comment_toks":
                    ctx.violation(rid, "CommentTok|%s" % fi.qual, B, n["l"], "%s builds a CommentTok: comment text no longer comes only from COMMENT pairs" % fi.qual)
        for n in vf.walk(fi.node):
            if n["k"] == "call" and vf.src(n["f"]) in ("ast::Comments", "Comments"):
                ctx.site(rid, "Comments|%s" % fi.qual, B, n["l"], {"arg": vf.src(n["a"][0])[:60] if n["a"] else ""})
                if fi.name != "convert_cddl" or "assigned[" not in vf.src(n["a"][0]):
                    ctx.violation(rid, "Comments|%s" % fi.qual, B, n["l"], "%s constructs ast::Comments from `%s`" % (fi.qual, vf.src(n["a"][0])[:60] if n["a"] else ""))
    # collect_comment_spans is interpreted on a small pair tree: it must push exactly the spans of the COMMENT pairs, in source order
    fi = f.fn(B, "collect_comment_spans")
    from absint import Interp, MutList, Return, Unknown

    def mk(rule, ident, kids=()):
        return ("enum", "Pair", {"rule": rule, "id": ident, "kids": list(kids)})
    tree = mk("cddl", 0, [mk("COMMENT", 1), mk("rule", 2, [mk("S", 3, [mk("COMMENT", 4)]), mk("typename", 5), mk("type_expr", 6, [mk("S", 7, [mk("COMMENT", 8), mk("COMMENT", 9)])])]),
                          mk("EOI", 10)])
    pnames = [inp["pat"]["n"] for inp in fi.node["sig"]["inputs"] if "pat" in inp and inp["pat"]["k"] == "pid"]

    def on_call(kind, name, node, args, recv):
        if kind == "method" and isinstance(recv, tuple) and len(recv) == 3 and recv[1] == "Pair":
            if name == "clone":
                return recv
            if name == "into_inner":
                return MutList(recv[2]["kids"])
            if name == "as_rule":
                return ("enum", "Rule::" + recv[2]["rule"], [])
            if name == "as_span":
                return ("span", recv[2]["id"])
            raise Unknown("Pair::%s is not modelled" % name)
        if kind == "fn" and name == "collect_comment_spans":
            return it.call_fn_node(fi.node, args)
        return NotImplemented
    out = MutList()
    it = Interp(env=dict(zip(pnames, [tree, out])), on_call=on_call)
    try:
        try:
            it.block(fi.node["body"])
        except Return:
            pass
        got = list(out)
        want = [("span", i) for i in (1, 4, 8, 9)]
        ctx.site(rid, "collect_comment_spans", B, fi.line, {"tree_pairs": 11, "pushed": [g[1] if isinstance(g, tuple) and len(g) == 2 else repr(g) for g in got]})
        if got != want:
            ctx.violation(rid, "collect_comment_spans", B, fi.line, "on a pair tree with COMMENT pairs 1, 4, 8, 9 collect_comment_spans yields %r; expected exactly the COMMENT spans in source order" % (got,))
    except Unknown as e:
        ctx.incomplete_msg(rid, "collect_comment_spans: %s" % e)
    # the text slice strips exactly the leading ';'
    fi = f.fn(B, "collect_comment_toks")
    txt = None
    for n in vf.find(fi.node, "struct"):
        if n["p"] == "CommentTok":
            for fl in n["fields"]:
                if fl["n"] == "text":
                    txt = vf.src(fl["e"])
    ctx.site(rid, "text-slice", B, fi.line, {"text": txt})
    if txt != "&input[lo+1..hi]":
        ctx.violation(rid, "text-slice", B, fi.line, "comment text is taken as `%s`, expected &input[lo+1..hi] (the comment without its ';')" % txt)


def r_render(ctx):
    rid = "C16.render"
    ctx.rule(rid, "Comments::fmt prints `;` + text for every comment in order and the output ends with a line break whenever it contains a comment; "
                  "on every commented node shape of the C06 enumeration each attached comment text appears exactly once in the printed text and "
                  "is followed by a line break before any code", floor=15)
    f = ctx.facts
    world = fm.World(f)
    for lst in (["a"], ["a", "b"], ["\n", "a"], ["a", "\n"], ["a", "\n", "b"], ["\n"], ["\n", "\n"], []):
        node = ("enum", "Comments", [MutList([("str", x) for x in lst])])
        key = "Comments%r" % (lst,)
        try:
            got = fm.render_node(world, node)
        except Unknown as e:
            ctx.incomplete_msg(rid, "%s: %s" % (key, e))
            continue
        texts = [x for x in lst if x != "\n"]
        ctx.site(rid, key, AST, world.display["Comments"].line, {"printed": got})
        ok = all(got.count(";" + t) == 1 for t in texts) and (not texts or got.endswith("\n"))
        order = [got.find(";" + t) for t in texts]
        if not ok or order != sorted(order):
            ctx.violation(rid, key, AST, world.display["Comments"].line, "Comments%r prints %r: a comment is lost, duplicated, reordered or not terminated by a line break" % (lst, got))
    import c06
    b = c06.Builder(f)
    sh = c06.Shapes(b)
    c06.CTRLS[:] = [v["name"] for v in f.item("src/token.rs", "enum", "ControlOperator")["variants"]]
    for name, node, expect in c06.cases(sh):
        if "comments" not in name:
            continue
        try:
            got = fm.render_node(world, node)
        except Unknown as e:
            ctx.incomplete_msg(rid, "%s: %s" % (name, e))
            continue
        if " empty comments" in name or " blank comments" in name:
            # a text-less comment: exactly one `;`, and nothing but blanks after it on its line
            ty = world.type_of(node)
            line = world.display[ty].line if ty in world.display else 1
            ctx.site(rid, name, AST, line, {"printed": got})
            if got.count(";") != 1:
                ctx.violation(rid, name + "|count", AST, line, "%s: the text-less comment is emitted %d times in %r" % (name, got.count(";"), got))
            elif got[got.find(";") + 1:].split("\n", 1)[0].strip():
                ctx.violation(rid, name + "|absorbs", AST, line, "%s: code follows the text-less comment on its line in %r: it becomes comment text" % (name, got))
            continue
        m = re.search(r"(note|after) \d", name + " ")
        texts = re.findall(r"; ?((?:note|after) \d)", got)
        want = re.findall(r"(?:note|after) \d", " ".join(re.findall(r"on #\d", name)))
        cnt = len(texts)
        ty = world.type_of(node)
        line = world.display[ty].line if ty in world.display else 1
        ctx.site(rid, name, AST, line, {"printed": got, "comments_emitted": cnt})
        if cnt != 1:
            ctx.violation(rid, name + "|count", AST, line, "%s: the attached comment is emitted %d times in %r" % (name, cnt, got))
        else:
            # the rest of the comment's line must contain nothing but the comment
            i = got.find(";")
            rest = got[i:].split("\n", 1)
            if not re.fullmatch(r"; ?(?:note|after) \d\s*", rest[0]):
                ctx.violation(rid, name + "|absorbs", AST, line, "%s: code follows the comment on its line in %r: it becomes comment text" % (name, got))


def run(ctx):
    ctx.guarded("C16.source", r_source)
    ctx.guarded("C16.tight", r_tight)
    ctx.guarded("C16.merge", r_merge)
    ctx.guarded("C16.anchors", r_anchors)
    ctx.guarded("C16.render", r_render)
