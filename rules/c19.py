"""C19 — optional cargo features are orthogonal."""
import itertools
import json
import os
import re
import subprocess

import absint
import fmtmodel as fm
import vf
from absint import Unknown

META = {
    "level": "other",
    "explanation": (
        "(build) the type checker is the analysis: `cargo check --lib --no-default-features --features std,<subset>` on /repo's working "
        "tree for a covering set of feature subsets (quick: all-on, each single feature off, all off; thorough: all 2^8 subsets); every "
        "distinct compiler error (code, message, file) is a finding. (fmt-twins) the printer's source is abstractly interpreted on the "
        "C06 node-shape enumeration under the default configuration and under the configuration without ast-comments: both must print "
        "the same text modulo layout (and the RFC concrete syntax). (table-twins) the validators' comparison tables are evaluated with "
        "and without additional-controls (C01/C02.cmp). Equality of results across feature sets on all inputs is not decided."),
    "assumptions": ["cargo/rustc resolve cfg(feature) as documented; dependency crates are available offline"],
    "trusted_base": ["rustc type checker", "cargo feature resolution", "lib/fmtmodel.py"],
    "technique": "static analysis: type-checking the cfg matrix (rustc as the analysis) + abstract interpretation of cfg twins of the printer",
}

FEATURES = ["ast-span", "ast-comments", "ast-parent", "json", "cbor", "csv-validate", "additional-controls", "freezer"]


def subsets(tier):
    if tier == "thorough":
        for n in range(len(FEATURES) + 1):
            for c in itertools.combinations(FEATURES, n):
                yield list(c)
        return
    yield list(FEATURES)
    for f in FEATURES:
        yield [x for x in FEATURES if x != f]
    yield []
    yield ["json"]
    yield ["cbor"]


def check_subset(feats, target):
    cmd = ["cargo", "check", "--offline", "--lib", "--no-default-features", "--features", ",".join(["std"] + feats),
           "--message-format=json", "--manifest-path", os.path.join(vf.REPO, "Cargo.toml")]
    env = dict(os.environ, CARGO_TARGET_DIR=target, CARGO_NET_OFFLINE="true")
    r = subprocess.run(cmd, capture_output=True, text=True, env=env)
    errs = []
    for line in r.stdout.splitlines():
        if not line.startswith("{"):
            continue
        try:
            m = json.loads(line)
        except ValueError:
            continue
        if m.get("reason") != "compiler-message":
            continue
        msg = m["message"]
        if msg.get("level") != "error":
            continue
        if msg.get("message", "").startswith("aborting due to") or msg.get("message", "").startswith("could not compile"):
            continue
        code = (msg.get("code") or {}).get("code") or "E----"
        spans = msg.get("spans") or [{}]
        prim = next((s for s in spans if s.get("is_primary")), spans[0])
        errs.append((code, re.sub(r"\s+", " ", msg.get("message", ""))[:160], prim.get("file_name", "?"), prim.get("line_start")))
    return r.returncode, errs, r.stderr[-400:]


def r_build(ctx):
    rid = "C19.build"
    ctx.rule(rid, "every subset of {%s} (with std) type-checks: `cargo check --lib --no-default-features --features std,<subset>`" % ", ".join(FEATURES),
             floor=10 if ctx.tier == "quick" else 256)
    target = os.path.join(vf.VERIF, ".work", "cfgm")
    os.makedirs(target, exist_ok=True)
    cache = os.path.join(vf.cache_dir(), "cfgmatrix_%s.json" % ctx.tier)
    results = None
    if os.path.exists(cache) and os.environ.get("VERIF_NOCACHE") != "1":
        results = json.load(open(cache))
    if results is None:
        results = []
        with vf.Lock(os.path.join(vf.VERIF, ".work", "cfgm.lock")):
            for feats in subsets(ctx.tier):
                rc, errs, tail = check_subset(feats, target)
                results.append({"features": feats, "rc": rc, "errors": errs, "tail": tail if rc != 0 and not errs else ""})
        json.dump(results, open(cache, "w"))
    by_err = {}
    ok = 0
    for r in results:
        key = "std," + ",".join(r["features"]) if r["features"] else "std"
        ctx.site(rid, key, "Cargo.toml", 1, {"builds": r["rc"] == 0, "errors": [list(e[:3]) for e in r["errors"]][:4]})
        if r["rc"] == 0:
            ok += 1
            continue
        if not r["errors"]:
            ctx.incomplete_msg(rid, "%s: cargo failed without compiler diagnostics: %s" % (key, r["tail"][-200:]))
            continue
        for e in r["errors"]:
            by_err.setdefault((e[0], e[1], e[2]), []).append((key, e[3]))
    ctx.obligations = len(results)
    ctx.discharged = ok
    ctx.extra["subsets_checked"] = len(results)
    ctx.extra["subsets_building"] = ok
    for (code, msg, file), where in sorted(by_err.items()):
        k = "%s|%s|%s" % (code, msg, file)
        ctx.violation(rid, k, file, where[0][1], "%s: %s (%s) — feature set %s%s does not build" % (code, msg, file, where[0][0], " and %d more" % (len(where) - 1) if len(where) > 1 else ""))


CFGS = {"default": lambda f: f not in ("lsp", "_build-parser"),
        "no-ast-comments": lambda f: f not in ("lsp", "_build-parser", "ast-comments"),
        "no-ast-span": lambda f: f not in ("lsp", "_build-parser", "ast-span"),
        "no-ast-span-no-comments": lambda f: f not in ("lsp", "_build-parser", "ast-span", "ast-comments")}


def r_fmt_twins(ctx):
    import c06
    rid = "C19.fmt-twins"
    ctx.rule(rid, "for every comment-free node shape of the C06 enumeration the Display source prints the same text under the default "
                  "configuration and under the configurations without ast-comments / ast-span (cfg twins of the printer agree): first modulo "
                  "layout whitespace and optional commas (a different token sequence), then exactly (a different layout)", floor=300)
    f = ctx.facts
    b = c06.Builder(f)
    sh = c06.Shapes(b)
    c06.CTRLS[:] = [v["name"] for v in f.item("src/token.rs", "enum", "ControlOperator")["variants"]]
    worlds = {name: fm.World(f, cfg=(lambda c, feat=feat: absint.eval_cfg(c, feat))) for name, feat in CFGS.items()}
    seen_layout = set()
    for name, node, expect in c06.cases(sh):
        if "comments" in name:
            continue
        outs = {}
        raw = {}
        for cfgname, w in worlds.items():
            try:
                raw[cfgname] = fm.render_node(w, node)
                outs[cfgname] = c06.norm(raw[cfgname])
            except Unknown as e:
                outs[cfgname] = None
                ctx.incomplete_msg(rid, "%s under %s: %s" % (name, cfgname, e))
        ty = worlds["default"].type_of(node)
        line = worlds["default"].display[ty].line if ty in worlds["default"].display else 1
        for cfgname in CFGS:
            if cfgname == "default" or outs[cfgname] is None or outs["default"] is None:
                continue
            key = "%s|%s" % (name, cfgname)
            ctx.site(rid, key, c06.AST, line, {"default": outs["default"], cfgname: outs[cfgname]})
            if outs[cfgname] != outs["default"]:
                ctx.violation(rid, key, c06.AST, line, "%s prints %r under the default features but %r under %s: the formatted text depends on an "
                              "unrelated cargo feature" % (name, outs["default"], outs[cfgname], cfgname))
            elif raw[cfgname] != raw["default"]:
                # same text up to layout, but not the same text: C19 says "same formatted text up to comments"
                import difflib
                ops = []
                sm = difflib.SequenceMatcher(None, raw["default"], raw[cfgname], autojunk=False)
                for tag, i1, i2, j1, j2 in sm.get_opcodes():
                    if tag != "equal":
                        ctxt = (raw["default"][i2:i2 + 1] or "$")
                        ops.append("%r->%r before %r" % (raw["default"][i1:i2], raw[cfgname][j1:j2], ctxt))
                ek = "layout|%s|%s|%s" % (ty, cfgname, ";".join(ops))
                if ek not in seen_layout:
                    seen_layout.add(ek)
                    ctx.violation(rid, ek, c06.AST, line, "%s prints %r under the default features but %r under %s: the same tokens in a different "
                                  "layout (%s) — the formatted text depends on an unrelated cargo feature" % (name, raw["default"], raw[cfgname], cfgname, "; ".join(ops)))


def r_tabletwins(ctx):
    import valtables as vt
    rid = "C19.tabletwins"
    ctx.rule(rid, "the validators' literal-comparison and range tables evaluate to the same verdict on every point under the default "
                  "configuration, without ast-span and without additional-controls: the cfg twins of visit_value / visit_range agree "
                  "(abstract evaluation under each configuration)", floor=800)
    for which in ("json", "cbor"):
        for tname, fn, keyf in (("cmp", vt.cmp_table, lambda r: (r["kind"], r["ctrl"], r["point"])),
                                ("range", vt.range_table, lambda r: (r["bounds"], r["incl"], r["doc"], r["point"]))):
            base = {keyf(r): r for r in fn(ctx.facts, which, "default")}
            for cfgname in ("no-ast-span", "no-additional-controls"):
                for r in fn(ctx.facts, which, cfgname):
                    k = keyf(r)
                    b = base.get(k)
                    key = "%s|%s|%s|%s" % (which, tname, cfgname, "|".join(str(x) for x in k))
                    if b is None:
                        continue
                    if r["verdict"].startswith("unknown") or b["verdict"].startswith("unknown"):
                        if r["verdict"] != b["verdict"]:
                            ctx.incomplete_msg(rid, "%s: %s vs %s" % (key, b["verdict"], r["verdict"]))
                        continue
                    ctx.site(rid, key, r["file"], r["line"], None)
                    if r["verdict"] != b["verdict"]:
                        ctx.violation(rid, key, r["file"], r["line"], "%s validator, %s table, point %s: %s under the default configuration but %s under %s"
                                      % (which, tname, k, b["verdict"], r["verdict"], cfgname))


def r_choicetwins(ctx):
    import copy
    import absint
    import valtables as vt
    from absint import MutList, OPAQUE
    rid = "C19.choicetwins"
    ctx.rule(rid, "JSON visit_type under the default configuration and without additional-controls (the function carries a cfg twin of its "
                  "\"an alternative matched\" block): with an error already recorded before the call, a first alternative that fails and a "
                  "second that matches, the call returns Ok and leaves exactly the earlier error — for a scalar and for an array document, "
                  "identically in both configurations (abstract evaluation, visit_type_choice scripted)", floor=4)
    f = ctx.facts
    fi = vt.visitor_fn(f, "json", "visit_type")
    results = {}
    for cfgname in ("default", "no-additional-controls"):
        for dk, doc in (("scalar", ("enum", "Value::Number", [vt.json_number(1)])), ("array", ("enum", "Value::Array", [OPAQUE]))):
            obj = vt.self_obj("json", doc)
            obj[2]["state"][2].update({"is_multi_type_choice": False, "is_multi_type_choice_type_rule_validating_array": False, "has_feature_errors": False,
                                       "disabled_features": ("None",)})
            obj[2]["errors"] = MutList([("str", "earlier error")])
            calls = []

            def visit_type_choice(run, node, recv, calls=calls):
                i = len(calls)
                calls.append(i)
                if i == 0:
                    recv[2]["errors"].append(("str", "first alternative does not match"))
                return ("Ok", ("tuple", []))

            def clone(run, node, recv):
                if isinstance(recv, tuple) and recv[:2] == ("enum", "Self"):
                    return copy.deepcopy(recv)
                return NotImplemented
            t = ("enum", "Type", {"type_choices": MutList([("enum", "TypeChoice", {"i": 0}), ("enum", "TypeChoice", {"i": 1})])})
            r = vt.Run(f, "json", cfgname, {}, {"self": obj, "t": t}, scripts={"visit_type_choice": visit_type_choice, "clone": clone})
            key = "%s|%s" % (cfgname, dk)
            try:
                res = r.run(fi.node)
            except absint.Unknown as e:
                ctx.incomplete_msg(rid, "%s: %s" % (key, e))
                continue
            me = r.it.lookup("self")
            errs = me[2]["errors"]
            if absint.has_opaque(res) or not isinstance(errs, (list, MutList)) or absint.has_opaque(list(errs)):
                ctx.incomplete_msg(rid, "%s: the result / error list could not be evaluated" % key)
                continue
            got = (res, [e[1] if isinstance(e, tuple) and e[:1] == ("str",) else repr(e) for e in errs], r.errors)
            results[key] = got
            ctx.site(rid, key, fi.file, fi.line, {"errors_after": got[1], "errors_added": got[2]})
            if got != (("Ok", ("tuple", [])), ["earlier error"], 0):
                ctx.violation(rid, key, fi.file, fi.line, "json visit_type (%s configuration, %s document): after a failing and a matching alternative the error list is "
                              "%r (+%d added), result %r; the error recorded before the call must survive and nothing else — under this configuration "
                              "`uint .and (tstr / int)` changes its verdict" % (cfgname, dk, got[1], got[2], got[0]))


def run(ctx):
    ctx.guarded("C19.fmt-twins", r_fmt_twins)
    ctx.guarded("C19.build", r_build)
    ctx.guarded("C19.tabletwins", r_tabletwins)
    ctx.guarded("C19.choicetwins", r_choicetwins)
    import c09
    ctx.guarded("C19.valtwins", lambda c: c09.r_absent(c, "C19.valtwins", cfgs=("default", "no-ast-span")))
