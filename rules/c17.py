"""C17 — cddl-derive round-trips and is deterministic (structural clauses on the generator)."""
import re

import absint
import vf
from absint import Interp, OPAQUE, Return, Unknown

META = {
    "level": "other",
    "explanation": (
        "On cddl-derive/src/codegen.rs: (keywords) is_rust_keyword covers every strict and reserved keyword of the Rust reference, so no "
        "field or variant is emitted as a bare keyword; (strvariant) type_choice_to_variant is abstractly interpreted on text-literal "
        "choices: the variant keeps the exact literal as its serde name whatever its spelling (so render_enum recognises string "
        "enums); (names) rules are grouped for merging by their CDDL identifier, not by the mangled Rust type name; field names pass "
        "through deduplicate_field_names; (pure) the generator reads no clock/RNG/environment and never iterates a RandomState hash "
        "container, so the output is a function of schema text and options. That generated code compiles and round-trips every "
        "instance needs compiling and running generated code and is not decided."),
    "assumptions": ["Rust Reference keyword list (2018/2021 editions) as transcribed in rules/c17.py"],
    "trusted_base": ["syn 2 parser", "lib/absint.py"],
    "technique": "static analysis: table-vs-oracle (keywords, prelude-to-Rust type map), abstract interpretation of the variant lowering, who-groups-by-what rule, purity census",
}

F = "cddl-derive/src/codegen.rs"
STRICT = "as break const continue crate else enum extern false fn for if impl in let loop match mod move mut pub ref return self Self static struct super trait true type unsafe use where while async await dyn".split()
RESERVED = "abstract become box do final macro override priv typeof unsized virtual yield try".split()


def r_keywords(ctx):
    rid = "C17.keywords"
    ctx.rule(rid, "is_rust_keyword matches every strict and reserved Rust keyword (Rust Reference: keywords), otherwise a CDDL key with that "
                  "name is emitted as a bare identifier and the generated code does not compile", floor=40)
    fi = ctx.facts.fn(F, "is_rust_keyword")
    have = {x["v"] for x in vf.walk(fi.node) if x["k"] == "lit" and x.get("t") == "str"}
    for kw in STRICT + RESERVED:
        ctx.site(rid, kw, F, fi.line, {"keyword": kw, "covered": kw in have})
        if kw not in have:
            ctx.violation(rid, kw, F, fi.line, "`%s` is a Rust %s keyword but is_rust_keyword does not list it: a member named `%s` yields code that does not compile"
                          % (kw, "reserved" if kw in RESERVED else "strict", kw))


def pascal(s):
    parts = re.split(r"[^A-Za-z0-9]+", s)
    return "".join(p[:1].upper() + p[1:] for p in parts if p)


def r_strvariant(ctx):
    rid = "C17.strvariant"
    ctx.rule(rid, "type_choice_to_variant on a text literal choice yields a unit variant whose rename is Some(the exact literal) for every "
                  "spelling — including literals that already look like the variant name — so that render_enum emits the string-backed "
                  "representation and the value round-trips as the same string", floor=5)
    f = ctx.facts
    fi = f.fn(F, "type_choice_to_variant")
    for lit in ("Low", "n/a", "low", "Mercury", "x-y", "A"):
        tc = ("enum", "TypeChoice", {"type1": ("enum", "Type1", {"type2": ("enum", "Type2::TextValue", {"value": ("str", lit)}), "operator": ("None",)})})

        def on_call(kind, nm, node, args, recv):
            if kind == "fn" and nm == "to_pascal_case":
                return ("str", pascal(args[0][1])) if isinstance(args[0], tuple) and args[0][:1] == ("str",) else OPAQUE
            if kind == "method" and nm == "docs_for":
                return OPAQUE
            return NotImplemented
        it = Interp(env={"tc": tc, "comments": OPAQUE}, on_call=on_call)
        try:
            try:
                v = it.block(fi.node["body"])
            except Return as r:
                v = r.v
        except Unknown as e:
            ctx.incomplete_msg(rid, "%r: %s" % (lit, e))
            continue
        key = "literal %r" % lit
        rn = inner = None
        if isinstance(v, tuple) and v[0] == "Ok" and isinstance(v[1], tuple) and isinstance(v[1][2], dict):
            rn = v[1][2].get("rename")
            inner = v[1][2].get("inner_type")
        ctx.site(rid, key, F, fi.line, {"rename": repr(rn), "inner_type": repr(inner)})
        if rn != ("Some", ("str", lit)) or inner != ("None",):
            ctx.violation(rid, key, F, fi.line, "the text literal %r is lowered to a variant with rename=%r, inner_type=%r: it is not recognised as a string "
                          "enum member and no longer (de)serialises as the string %r" % (lit, rn, inner, lit))


def r_names(ctx):
    rid = "C17.names"
    ctx.rule(rid, "collect_type_defs groups type rules for merging by their CDDL identifier (name + socket), not by to_pascal_case(name): "
                  "distinct rules whose names mangle to the same Rust identifier must not be merged silently; group_to_fields passes "
                  "fields through deduplicate_field_names", floor=2)
    f = ctx.facts
    fi = f.fn(F, "collect_type_defs")
    for n in vf.walk(fi.node):
        if n["k"] == "mcall" and n["m"] in ("entry", "insert", "get", "contains_key") and n["a"]:
            a = vf.src(n["a"][0])
            recv = vf.src(n["r"])
            if "alternates" in recv or "merged" in recv:
                ctx.site(rid, "collect_type_defs|%s.%s" % (recv[:30], n["m"]), F, n["l"], {"key": a[:60]})
                if n["m"] == "entry" and "to_pascal_case" in a:
                    ctx.violation(rid, "collect_type_defs|groups-by-mangled-name", F, n["l"],
                                  "type rules are grouped by `%s`: `foo-bar` and `foo_bar` (both FooBar) are merged into one enum" % a[:60])
    g = f.fn(F, "group_to_fields")
    ok = any(x["k"] == "call" and vf.src(x["f"]) == "deduplicate_field_names" for x in vf.walk(g.node))
    ctx.site(rid, "group_to_fields|dedupe", F, g.line, {"calls_deduplicate_field_names": ok})
    if not ok:
        ctx.violation(rid, "group_to_fields|dedupe", F, g.line, "group_to_fields no longer de-duplicates field names")


def r_fielddedup(ctx):
    import itertools
    import absint
    from absint import Interp, MutList, Return, Unknown
    rid = "C17.fielddedup"
    ctx.rule(rid, "deduplicate_field_names leaves the field names of one struct pairwise distinct and never renames the first field that "
                  "carries a name: interpreted on every list of up to four fields over the names a, a_1, a_2, b (a name that already looks "
                  "like a generated suffix must not be produced a second time)", floor=100)
    fi = ctx.facts.fn(F, "deduplicate_field_names")
    pname = [inp["pat"]["n"] for inp in fi.node["sig"]["inputs"] if "pat" in inp and inp["pat"]["k"] == "pid"][0]
    names = ["a", "a_1", "a_2", "b"]
    n = 0
    seen = set()
    for k in range(1, 5):
        for combo in itertools.product(names, repeat=k):
            fields = MutList([("enum", "RustField", {"name": ("str", x), "original_name": ("str", x), "rust_type": absint.OPAQUE, "optional": False}) for x in combo])
            it = Interp(env={pname: fields}, on_call=None)
            it.string_places = True
            it.resolve_fn = vf.new_fn_resolver(ctx.facts, [F])
            try:
                try:
                    it.block(fi.node["body"])
                except Return:
                    pass
            except Unknown as e:
                ctx.incomplete_msg(rid, "%s: %s" % (",".join(combo), e))
                continue
            n += 1
            out = []
            for fl in fields:
                v = fl[2]["name"]
                out.append(absint._strval(v) if absint._strval(v) is not None else ("".join(c[1] for c in v) if isinstance(v, MutList) else repr(v)))
            if n <= 3:
                ctx.site(rid, ",".join(combo), F, fi.line, {"names_after": out})
            dup = sorted({x for x in out if out.count(x) > 1})
            first_kept = all(out[i] == combo[i] for i in range(k) if combo[i] not in combo[:i] and combo[i] not in out[:i])
            if dup and "collision" not in seen:
                seen.add("collision")
                ctx.violation(rid, "collision", F, fi.line, "fields named %s become %s: %s occurs twice, the generated struct does not compile" % (list(combo), out, dup))
            elif not dup and not first_kept and "renames-first" not in seen:
                seen.add("renames-first")
                ctx.violation(rid, "renames-first", F, fi.line, "fields named %s become %s: a field whose name was free is renamed" % (list(combo), out))
    ctx.site(rid, "lists", F, fi.line, {"evaluated": n})
    ctx.extra["evaluations"] = ctx.extra.get("evaluations", 0) + n
    ctx.extra["distinct_nontrivial"] = ctx.extra.get("distinct_nontrivial", 0) + n
    ctx.rules[rid]["floor"] = 2
    if n < 300:
        ctx.incomplete_msg(rid, "only %d name lists evaluated" % n)


def r_recbox(ctx):
    import absint
    from absint import Interp, MutList, Unknown, OPAQUE
    rid = "C17.recbox"
    ctx.rule(rid, "apply_recursive_boxing leaves no struct that contains itself by value: on small definition graphs (a struct referring "
                  "to itself or to a struct that refers back, directly, through Option<..> — a nullable field — or through nested Option) "
                  "every cycle of by-value containment passes a boxed field afterwards; Vec<..> is indirection and needs no box "
                  "(abstract evaluation of the pass and of the functions it calls; an unboxed cycle is a type of infinite size, the "
                  "generated code does not compile)", floor=6)
    f = ctx.facts
    fi = f.fn(F, "apply_recursive_boxing")
    free = MODULE_FNS(f)

    def fld(n, t, optional=False):
        return ("enum", "RustField", {"name": ("str", n), "original_name": ("str", n), "rust_type": ("str", t), "is_boxed": False, "is_optional": optional,
                                      "doc": MutList(), "tag": ("None",)})

    def struct(n, *fields):
        return ("enum", "RustTypeDef::Struct", {"name": ("str", n), "fields": MutList(list(fields)), "doc": MutList()})
    graphs = {
        "Node { next: Node } (optional field)": [struct("Node", fld("value", "i64"), fld("next", "Node", True))],
        "Node { next: Option<Node> } (nullable)": [struct("Node", fld("value", "i64"), fld("next", "Option<Node>"))],
        "Node { next: Option<Option<Node>> } (optional and nullable)": [struct("Node", fld("next", "Option<Node>", True))],
        "A { b: B }, B { a: Option<A> }": [struct("A", fld("b", "B")), struct("B", fld("a", "Option<A>"))],
        "A { b: B }, B { a: A }": [struct("A", fld("b", "B")), struct("B", fld("a", "A"))],
        "Node { children: Vec<Node> }": [struct("Node", fld("children", "Vec<Node>"))],
        "A { b: B }, B { v: i64 } (no cycle)": [struct("A", fld("b", "B")), struct("B", fld("v", "i64"))],
    }

    def inner(t):
        while t.startswith("Option<") and t.endswith(">"):
            t = t[len("Option<"):-1]
        return t
    for label, defs in graphs.items():
        dl = MutList(defs)
        holder = [None]

        def on_call(kind, nm, node, args, recv):
            if kind == "fn" and nm and "::" not in nm and nm in free:
                return (absint.CURRENT or holder[0]).call_fn_node(free[nm], args)
            return NotImplemented
        it = Interp(env={}, on_call=on_call, max_steps=600000)
        it.nested_fns = True
        it.string_places = True
        it.consts = {}
        holder[0] = it
        try:
            it.call_fn_node(fi.node, [dl])
        except Unknown as e:
            ctx.incomplete_msg(rid, "%s: %s" % (label, e))
            continue
        names = {d[2]["name"][1] for d in defs}
        edges = {}
        boxed = []
        for d in defs:
            for fl in d[2]["fields"]:
                t = absint._strval(fl[2]["rust_type"])
                tgt = inner(t)
                if fl[2]["is_boxed"] is True:
                    boxed.append("%s.%s" % (d[2]["name"][1], absint._strval(fl[2]["name"])))
                elif tgt in names and fl[2]["is_boxed"] is False:
                    edges.setdefault(d[2]["name"][1], set()).add(tgt)
                elif tgt in names:
                    ctx.incomplete_msg(rid, "%s: is_boxed of %s is %r" % (label, t, fl[2]["is_boxed"]))
        # a cycle among the unboxed by-value edges?
        cyc = None
        for start in sorted(names):
            seen, stack = set(), [start]
            while stack:
                x = stack.pop()
                for y in edges.get(x, ()):
                    if y == start:
                        cyc = start
                    if y not in seen:
                        seen.add(y)
                        stack.append(y)
        ctx.site(rid, label, F, fi.line, {"boxed_fields": boxed, "unboxed_by_value_edges": {k: sorted(v) for k, v in edges.items()}})
        if cyc:
            kind = "nullable" if "Option<" in label else "plain"
            ctx.violation(rid, "unboxed-cycle|%s" % kind, F, fi.line, "definitions %s: after the boxing pass %s still contains itself by value (unboxed edges %s): "
                          "the generated type has infinite size and does not compile" % (label, cyc, {k: sorted(v) for k, v in edges.items()}))


IMPURE = ("SystemTime", "Instant", "rand::", "thread_rng", "std::env", "env::var", "thread_local", "RandomState", "Utc::now", "Local::now", "std::process", "std::fs")


def r_pure(ctx):
    rid = "C17.pure"
    ctx.rule(rid, "no function of codegen.rs (outside tests) references a clock, RNG, environment, file system or process API, declares a static, "
                  "or iterates a HashMap/HashSet (iteration order of RandomState containers differs between processes)", floor=50)
    f = ctx.facts
    for it in f.items(F):
        if it["k"] == "static":
            ctx.violation(rid, "static %s" % it["name"], F, it["l"], "static item %s" % it["name"])
    for fi in f.fns(F):
        if fi.in_test:
            continue
        hashvars = set()
        for n in vf.walk(fi.node):
            if n["k"] == "local" and ("HashMap" in vf.src(n.get("init")) + vf.src(n["pat"]) or "HashSet" in vf.src(n.get("init")) + vf.src(n["pat"])):
                hashvars |= set(vf.pat_bindings(n["pat"]))
        for inp in fi.node["sig"]["inputs"]:
            if "ty" in inp and ("HashMap" in inp["ty"] or "HashSet" in inp["ty"]) and inp["pat"]["k"] == "pid":
                hashvars.add(inp["pat"]["n"])
        hits = []
        for n in vf.walk(fi.node):
            if n["k"] == "path" and any(p in n["p"] for p in IMPURE):
                hits.append((n["p"], n["l"]))
            if n["k"] == "mcall" and n["m"] in ("iter", "keys", "values", "into_iter", "drain", "iter_mut", "into_keys", "into_values") and \
                    n["r"]["k"] == "path" and n["r"]["p"] in hashvars:
                hits.append(("%s.%s()" % (n["r"]["p"], n["m"]), n["l"]))
            if n["k"] == "for" and vf.src(n["e"]).lstrip("&").replace("mut ", "") in hashvars:
                hits.append(("for over %s" % vf.src(n["e"]), n["l"]))
        ctx.site(rid, fi.qual, F, fi.line, {"hash_containers": sorted(hashvars), "impure": [h[0] for h in hits]})
        for p, l in hits:
            ctx.violation(rid, "%s|%s" % (fi.qual, p), F, l, "%s uses %s: generated code can differ between processes" % (fi.qual, p))


# Rust types able to hold every JSON instance the JSON validator accepts for the prelude name (RFC 8610 Appendix D as read by the
# crate's README for JSON: tdate/uri/b64url are strings, time is a number). serde_json (de)serialises i128/u128 as plain numbers.
TYPEMAP_ORACLE = {
    "bool": (["bool"], "false / true"), "uint": (["u64", "u128"], "#0: 0 .. 2^64-1"), "unsigned": (["u64", "u128"], "uint / biguint; JSON has no bignum"),
    "nint": (["i64", "i128"], "#1: -2^64 .. -1; a JSON validator instance is an i64"),
    "int": (["i128"], "uint / nint: -2^64 .. 2^64-1 — i64 cannot hold 2^63 .. 2^64-1, which validate"),
    "integer": (["i128"], "int / bigint: as int for JSON"),
    "float": (["f64"], "float16-32 / float64"), "float16": (["f64", "f32"], "#7.25"), "float32": (["f64", "f32"], "#7.26"), "float64": (["f64"], "#7.27"),
    "float16-32": (["f64", "f32"], "float16 / float32"), "float32-64": (["f64"], "float32 / float64"),
    "tstr": (["String"], "#3"), "text": (["String"], "tstr"), "null": (["()", "Option<()>"], "nil"), "nil": (["()", "Option<()>"], "#7.22"),
    "any": (["serde_json::Value"], "#"), "tdate": (["String"], "#6.0(tstr), a string in JSON"), "uri": (["String"], "#6.32(tstr), a string in JSON"),
    "b64url": (["String"], "#6.33(tstr), a string in JSON"),
    "time": (["f64", "serde_json::Number"], "#6.1(number): integers and floats validate — i64 cannot hold 1.5"),
}


def r_typemap(ctx):
    rid = "C17.typemap"
    ctx.rule(rid, "cddl_ident_to_rust_type maps every prelude name that has JSON instances to a Rust type able to hold each instance the JSON "
                  "validator accepts for it (so that every validating instance deserialises): abstract evaluation of the mapping function "
                  "against the value ranges of RFC 8610 Appendix D", floor=18)
    f = ctx.facts
    fi = f.fn(F, "cddl_ident_to_rust_type")

    def on_call(kind, name, node, args, recv):
        if kind == "fn" and name and name.split("::")[-1] == "to_pascal_case":
            return ("str", "<PascalCase>")
        return NotImplemented
    for name, (ok, why) in sorted(TYPEMAP_ORACLE.items()):
        it = Interp(env={"ident": ("str", name)}, on_call=on_call)
        try:
            try:
                res = it.block(fi.node["body"])
            except Return as r:
                res = r.v
        except Unknown as e:
            ctx.incomplete_msg(rid, "%s: %s" % (name, e))
            continue
        got = res[1] if isinstance(res, tuple) and res[:1] == ("str",) else getattr(res, "s", None) or repr(res)
        ctx.site(rid, name, F, fi.line, {"rust_type": got, "can_hold_all_instances": ok})
        if got not in ok:
            ctx.violation(rid, name, F, fi.line, "prelude type `%s` (%s) is generated as `%s`; a type that holds every validating JSON instance is one of %s"
                          % (name, why, got, ok))


_MF = {}


def MODULE_FNS(f):
    """module-level functions of codegen.rs (helpers a refactoring may extract are interpreted)"""
    if id(f) not in _MF:
        _MF[id(f)] = {x.name: x.node for x in f.fns(F) if x.impl_self is None and not x.in_test}
    return _MF[id(f)]


def r_optional(ctx):
    rid = "C17.optional"
    ctx.rule(rid, "value_member_key_to_field: a named member is generated as an optional field (the one that is left out when None) exactly "
                  "when it carries the occurrence `?` or one of its spelled-out forms `0*1` / `*1`, whatever its type is — a required member of nullable type `T / null` keeps its key "
                  "when it holds null, so that the serialised value still validates (abstract evaluation, type lowering scripted)", floor=6)
    f = ctx.facts
    fi = f.fn(F, "value_member_key_to_field")
    # the spelled-out forms of `?` (RFC 8610 3.2: `?` is 0*1) make a member optional as well
    OCCS = {None: None, "Optional": ("Optional", {}), "ZeroOrMore": ("ZeroOrMore", {}),
            "0*1": ("Exact", {"lower": ("Some", 0), "upper": ("Some", 1)}), "*1": ("Exact", {"lower": ("None",), "upper": ("Some", 1)}),
            "1*1": ("Exact", {"lower": ("Some", 1), "upper": ("Some", 1)})}
    for occ in OCCS:
        for ty in ("T", "Option<T>"):
            key = "occurrence %s|type %s" % (occ or "none", ty)
            vm = ("enum", "ValueMemberKeyEntry", {
                "member_key": ("Some", ("enum", "MemberKey::Bareword", {"ident": ("enum", "Identifier", {"ident": ("str", "k"), "socket": ("None",)})})),
                "occur": ("None",) if occ is None else ("Some", ("enum", "Occurrence", {"occur": ("enum", "Occur::" + OCCS[occ][0], dict(OCCS[occ][1]))})),
                "entry_type": ("atom", "TYPE")})

            def on_call(kind, nm, node, args, recv, ty=ty):
                if kind == "fn" and nm:
                    b = nm.split("::")[-1]
                    if b in ("type_to_rust_string", "type1_to_rust_string"):
                        return ("Ok", ("str", ty))
                    if b == "to_snake_case":
                        return args[0]
                    if b == "vmke_line":
                        return 1
                    if b == "is_vec_occurrence":
                        o = args[0]
                        if isinstance(o, tuple) and o[1].split("::")[-1] == "Exact":
                            up = o[2].get("upper")
                            return not (isinstance(up, tuple) and up[0] == "Some" and isinstance(up[1], int) and up[1] <= 1)
                        return isinstance(o, tuple) and o[1].split("::")[-1] in ("ZeroOrMore", "OneOrMore")
                    if b == "type_tagged_prelude":
                        return ("None",)
                if kind == "method" and nm == "docs_for":
                    return absint.MutList()
                return NotImplemented
            it = Interp(env={"vmke": vm, "comments": OPAQUE}, on_call=on_call)
            it.resolve_fn = lambda nm: MODULE_FNS(f).get(nm) if "::" not in nm else None
            try:
                try:
                    res = it.block(fi.node["body"])
                except Return as r:
                    res = r.v
            except Unknown as e:
                ctx.incomplete_msg(rid, "%s: %s" % (key, e))
                continue
            fld = None
            if isinstance(res, tuple) and res[0] == "Ok" and isinstance(res[1], tuple) and res[1][0] == "Some" and isinstance(res[1][1], tuple) and isinstance(res[1][1][2], dict):
                fld = res[1][1][2]
            if fld is None:
                ctx.incomplete_msg(rid, "%s: result %r" % (key, res))
                continue
            rt = fld.get("rust_type")
            rt = rt[1] if isinstance(rt, tuple) and rt[:1] == ("str",) else getattr(rt, "s", repr(rt))
            want_t = "Vec<%s>" % ty if occ == "ZeroOrMore" else ty
            ctx.site(rid, key, F, fi.line, {"is_optional": fld.get("is_optional"), "rust_type": rt})
            if not isinstance(fld.get("is_optional"), bool):
                ctx.incomplete_msg(rid, "%s: is_optional evaluates to %r" % (key, fld.get("is_optional")))
                continue
            if fld.get("is_optional") is not (occ in ("Optional", "0*1", "*1")):
                ctx.violation(rid, "optional|occurrence %s|%s" % (occ or "none", "nullable" if ty.startswith("Option") else "plain"), F, fi.line,
                              "a member with occurrence %s and type %s is generated with is_optional = %r: %s"
                              % (occ or "none", ty, fld.get("is_optional"),
                                 "a required member holding null is dropped when serialised and the result no longer validates" if occ is None else
                                 "optionality does not follow `?` and its spelled-out forms 0*1 / *1: an instance without the member validates but does not deserialise"))


def run(ctx):
    ctx.guarded("C17.keywords", r_keywords)
    ctx.guarded("C17.strvariant", r_strvariant)
    ctx.guarded("C17.names", r_names)
    ctx.guarded("C17.pure", r_pure)
    ctx.guarded("C17.typemap", r_typemap)
    ctx.guarded("C17.optional", r_optional)
    ctx.guarded("C17.fielddedup", r_fielddedup)
    ctx.guarded("C17.recbox", r_recbox)
