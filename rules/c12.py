"""C12 — duplicate definitions and undefined references are always caught (structural + abstractly evaluated clauses)."""
import itertools

import absint
import pestg
import vf
from absint import Interp, MutList, OPAQUE, PyMap, Return, Unknown

META = {
    "level": "other",
    "explanation": (
        "(dup) convert_cddl is abstractly interpreted on every sequence of up to 3 rule definitions over two names x "
        "{plain type, plain group, /= , //=}: it must return Err exactly when a plain definition of a name follows any earlier "
        "definition of that name, the error position must be the later rule's span, and on success the rules are returned in "
        "source order. (undef) find_first_undefined_reference is abstractly interpreted on grammar-shaped pair trees (shape "
        "checked against cddl.pest) with references in every syntactic position (type, member value, generic argument, control "
        "argument, unwrap, group-to-choice, group entry), generic-parameter scoping across rules, sockets and prelude names. "
        "(entry) every public parse entry reaches convert_cddl, and CDDL::from_slice reaches the undefined-reference check. "
        "(prelude) the four prelude tables agree. Decides these clauses; the full exactness over all documents is not decided."),
    "assumptions": ["pest pair trees have the shape the grammar describes (children relation computed from cddl.pest)"],
    "trusted_base": ["syn 2 parser", "pest_meta grammar parser", "lib/absint.py"],
    "technique": "static analysis: abstract interpretation of the two checking passes on bounded-exhaustive abstract inputs, who-may-call, table agreement",
}

B = "src/pest_bridge.rs"


# ---------------------------------------------------------------- dup check

def rule_obj(i, name, kind):
    if kind in ("T", "T/="):
        return ("enum", "ast::Rule::Type", {"rule": ("enum", "TypeRule", {"is_type_choice_alternate": kind == "T/=", "_name": name}), "_idx": i})
    return ("enum", "ast::Rule::Group", {"rule": ("enum", "GroupRule", {"is_group_choice_alternate": kind == "G//=", "_name": name}), "_idx": i})


DUP_OPAQUE = {"collect_comment_toks", "collect_container_extents", "merge", "visit_anchor_slots", "convert_rule", "position_from_ast_span"}


def r_dup(ctx):
    rid = "C12.dup"
    ctx.rule(rid, "convert_cddl returns Err exactly when a plain `=` definition of a name follows an earlier definition (plain or /= , //=) of "
                  "the same name, whatever the rule kinds; the error position is the later rule's span; otherwise Ok with the rules in "
                  "source order (abstract evaluation on all definition sequences up to length 3 over two names)", floor=500)
    f = ctx.facts
    fi = f.fn(B, "convert_cddl")
    kinds = ["T", "G", "T/=", "G//="]
    module_fns = {x.name: x.node for x in f.fns(B) if x.impl_self is None and not x.in_test and all(absint.default_cfg(c) for c in x.cfg)
                  and x.name not in ("convert_rule", "position_from_ast_span")}
    n = 0
    seen_viol = set()
    for length in (0, 1, 2, 3):
        for combo in itertools.product([(nm, k) for nm in ("a", "b") for k in kinds], repeat=length):
            rules = [rule_obj(i, nm, k) for i, (nm, k) in enumerate(combo)]
            pairs = [("enum", "Pair", {"rule": "rule", "_idx": i}) for i in range(len(rules))] + [("enum", "Pair", {"rule": "EOI"})]
            top = ("enum", "Pair", {"rule": "cddl", "children": pairs})

            def on_call(kind, name, node, args, recv):
                if kind == "method":
                    if isinstance(recv, tuple) and recv[:2] == ("enum", "Pair"):
                        if name == "as_rule":
                            return ("enum", "Rule::" + recv[2]["rule"], [])
                        if name == "into_inner":
                            return ("list", recv[2].get("children", []))
                    if name == "next" and node["r"].get("s") == "pairs":
                        return ("Some", top)
                    if isinstance(recv, tuple) and recv[:1] == ("enum",) and recv[1].startswith("ast::Rule::"):
                        if name == "name":
                            return ("str", recv[2]["rule"][2]["_name"])
                        if name == "span":
                            return ("span-of", recv[2]["_idx"])
                    return NotImplemented
                if kind == "fn":
                    if name == "convert_rule":
                        return ("Ok", rules[args[0][2]["_idx"]])
                    if name == "position_from_ast_span":
                        return args[0]
                return NotImplemented
            it = Interp(env={"pairs": OPAQUE, "input": OPAQUE}, on_call=on_call)
            # callees of convert_cddl as of the reviewed tree stay opaque (comment attachment, decided by C16); a helper that a
            # refactoring extracts from convert_cddl is interpreted
            it.resolve_fn = lambda nm: module_fns.get(nm) if "::" not in nm and nm not in DUP_OPAQUE else None
            key = ",".join("%s:%s" % c for c in combo) or "(empty)"
            try:
                try:
                    v = it.block(fi.node["body"])
                except Return as r:
                    v = r.v
            except Unknown as e:
                ctx.incomplete_msg(rid, "%s: %s" % (key, e))
                continue
            n += 1
            # oracle
            first_bad = None
            seen = set()
            for i, (nm, k) in enumerate(combo):
                if k in ("T", "G") and nm in seen:
                    first_bad = i
                    break
                seen.add(nm)
            got_err = isinstance(v, tuple) and v[0] == "Err"
            ok = True
            msg = None
            if first_bad is None:
                if got_err:
                    ok, msg = False, "rejects although no plain definition follows an earlier one"
                elif not (isinstance(v, tuple) and v[0] == "Ok"):
                    ok, msg = False, "unexpected result %r" % (v,)
                else:
                    out = v[1][2].get("rules") if isinstance(v[1], tuple) and isinstance(v[1][2], dict) else None
                    idxs = [r[2]["_idx"] for r in out] if isinstance(out, list) else None
                    if idxs != list(range(len(combo))):
                        ok, msg = False, "returns rules in order %r instead of source order" % (idxs,)
            else:
                if not got_err:
                    ok, msg = False, "accepts although definition #%d redefines `%s`" % (first_bad, combo[first_bad][0])
                else:
                    pos = v[1][2].get("position") if isinstance(v[1], tuple) and isinstance(v[1][2], dict) else None
                    if pos != ("span-of", first_bad):
                        ok, msg = False, "reports position %r instead of the later definition #%d" % (pos, first_bad)
            if not ok:
                cls = msg.split(" ")[0] + "|" + ",".join(k for _, k in combo) + "|" + ("same" if len({nm for nm, _ in combo}) == 1 else "mixed")
                if cls not in seen_viol and len(seen_viol) < 12:
                    seen_viol.add(cls)
                    ctx.violation(rid, cls, B, fi.line, "convert_cddl on definitions [%s] %s" % (key, msg))
    ctx.site(rid, "sequences", B, fi.line, {"evaluated": n})
    ctx.extra["evaluations"] = ctx.extra.get("evaluations", 0) + n
    ctx.rules[rid]["floor"] = 1
    if n < 500:
        ctx.incomplete_msg(rid, "only %d sequences evaluated" % n)


# ---------------------------------------------------------------- undefined references

class T:
    """grammar-shaped pair tree builder"""

    def __init__(self, g):
        self.g = g
        self.pos = 0
        self.shape_errors = []

    def P(self, rule, text="", *children):
        self.pos += 1
        start = self.pos
        kids = list(children)
        if rule in self.g.rules:
            allowed = self.g.children(rule)
            for k in kids:
                if k[2]["rule"] not in allowed:
                    self.shape_errors.append("%s cannot contain %s per cddl.pest" % (rule, k[2]["rule"]))
        else:
            self.shape_errors.append("rule %s not in cddl.pest" % rule)
        return ("enum", "Pair", {"rule": rule, "text": text, "start": start, "children": kids})

    def ident(self, kind, name):
        kids = []
        if name.startswith("$$"):
            kids.append(self.P("socket_group", "$$"))
            name = name[2:]
        elif name.startswith("$"):
            kids.append(self.P("socket_type", "$"))
            name = name[1:]
        kids.append(self.P("id", name))
        return self.P(kind, name, *kids)

    def type2_ref(self, name, args=()):
        kids = [self.ident("typename", name)]
        if args:
            kids.append(self.P("generic_args", "", *[self.P("generic_arg", "", self.type1(self.type2_ref(a))) for a in args]))
        return self.P("type2", name, *kids)

    def type2_groupref(self, name):
        return self.P("type2", "&" + name, self.ident("groupname", name))

    def type1(self, t2, ctrl_arg=None):
        kids = [t2]
        if ctrl_arg is not None:
            kids += [self.P("control_op", ".size", self.P("control_name", "size")), self.P("controller", "", ctrl_arg)]
        return self.P("type1", "", *kids)

    def type_expr(self, *t1s):
        return self.P("type_expr", "", *[self.P("type_choice", "", t) for t in t1s])

    def map_of(self, *entries):
        return self.P("type2", "{", self.P("group", "", self.P("group_choice", "", *entries)))

    def member(self, key, value_te):
        return self.P("group_entry", "", self.P("member_key", key, self.P("bareword", key)), value_te)

    def groupname_entry(self, name):
        return self.P("group_entry", name, self.ident("groupname", name))

    def rule(self, name, generics, te, incr=False):
        kids = [self.ident("typename", name)]
        if generics:
            kids.append(self.P("generic_params", "", *[self.P("generic_param", x, self.P("id", x)) for x in generics]))
        kids += [self.P("assign_t", "/=", self.P("assign_t_choice", "/=")) if incr else self.P("assign_t", "=", self.P("assign", "=")), te]
        return self.P("rule", name, *kids)

    def doc(self, *rules):
        return self.P("cddl", "", *rules, ("enum", "Pair", {"rule": "EOI", "text": "", "start": 9999, "children": []}))


def scenarios(t):
    ref = lambda n, a=(): t.type_expr(t.type1(t.type2_ref(n, a)))
    S = []
    S.append(("alias-to-prelude", t.doc(t.rule("a", [], ref("b")), t.rule("b", [], ref("int"))), None))
    S.append(("plain-undefined", t.doc(t.rule("a", [], ref("c"))), "c"))
    S.append(("generic-param-in-own-rule", t.doc(t.rule("w", ["T"], ref("T")), t.rule("r", [], ref("w", ["int"]))), None))
    S.append(("generic-param-leaks-to-next-rule", t.doc(t.rule("w", ["T"], ref("T")), t.rule("item", [], ref("T"))), "T"))
    S.append(("generic-param-before-definition", t.doc(t.rule("item", [], ref("T")), t.rule("w", ["T"], ref("T"))), "T"))
    S.append(("two-generic-rules-then-use", t.doc(t.rule("w", ["T"], ref("T")), t.rule("v", ["U"], ref("U")), t.rule("x", [], ref("T"))), "T"))
    S.append(("second-generic-rule-uses-first-param", t.doc(t.rule("w", ["T"], ref("T")), t.rule("v", ["U"], ref("T"))), "T"))
    S.append(("socket-type", t.doc(t.rule("a", [], ref("$ext"))), None))
    S.append(("generic-argument", t.doc(t.rule("a", [], ref("w", ["zz"])), t.rule("w", ["T"], ref("T"))), "zz"))
    S.append(("map-member-value", t.doc(t.rule("a", [], t.type_expr(t.type1(t.map_of(t.member("k", ref("undefx"))))))), "undefx"))
    S.append(("group-entry-groupname", t.doc(t.rule("a", [], t.type_expr(t.type1(t.map_of(t.groupname_entry("grp")))))), "grp"))
    S.append(("group-entry-socket", t.doc(t.rule("a", [], t.type_expr(t.type1(t.map_of(t.groupname_entry("$$grp")))))), None))
    S.append(("control-argument", t.doc(t.rule("a", [], t.type_expr(t.type1(t.type2_ref("tstr"), t.type2_ref("undefc"))))), "undefc"))
    S.append(("group-to-choice", t.doc(t.rule("a", [], t.type_expr(t.type1(t.type2_groupref("undefg"))))), "undefg"))
    S.append(("first-of-two", t.doc(t.rule("a", [], t.type_expr(t.type1(t.type2_ref("u1")), t.type1(t.type2_ref("u2"))))), "u1"))
    S.append(("second-choice", t.doc(t.rule("a", [], t.type_expr(t.type1(t.type2_ref("int")), t.type1(t.type2_ref("u2"))))), "u2"))
    S.append(("defined-later", t.doc(t.rule("a", [], ref("z")), t.rule("z", [], ref("tstr"))), None))
    S.append(("nested-generic-arg-param", t.doc(t.rule("w", ["T"], ref("v", ["T"])), t.rule("v", ["U"], ref("U"))), None))
    # the generic parameters in scope are those of the definition that encloses the reference, also when the same name is defined
    # again by an increment with differently named parameters
    S.append(("increment-with-own-parameter-names", t.doc(t.rule("opt", ["T"], ref("T")), t.rule("opt", ["U"], ref("U"), incr=True)), None))
    S.append(("increment-parameter-not-in-base-scope", t.doc(t.rule("opt", ["T"], ref("U")), t.rule("opt", ["T", "U"], ref("U"), incr=True)), "U"))
    S.append(("base-parameter-not-in-increment-scope", t.doc(t.rule("opt", ["T"], ref("T")), t.rule("opt", ["U"], ref("T"), incr=True)), "T"))
    return S


def run_undef(f, fi, doc, prelude):
    nested = {}
    for s in vf.walk(fi.node["body"]):
        if s["k"] == "sitem":
            it = s["item"]
            if it["k"] == "fn":
                nested[it["name"]] = it
            elif it["k"] == "impl":
                for m in it["items"]:
                    if m.get("k") == "fn":
                        nested[(vf.strip_generics(it["self_ty"]), m["name"])] = m
    depth = [0]
    module_fns = {x.name: x.node for x in f.fns(B) if x.impl_self is None and not x.in_test and all(absint.default_cfg(c) for c in x.cfg)}

    def resolve(name):
        # helper functions of pest_bridge.rs (module level) are interpreted like the nested ones
        if "::" in name or name in ("pest_span_to_position", "pest_span_to_ast_span"):
            return None
        return module_fns.get(name)

    def call(fnode, env):
        depth[0] += 1
        if depth[0] > 200:
            raise Unknown("depth")
        it = Interp(env=env, on_call=on_call)
        it.consts = {"STANDARD_PRELUDE": ("list", prelude)}
        it.resolve_fn = resolve
        try:
            return it.block(fnode["body"])
        except Return as r:
            return r.v
        finally:
            depth[0] -= 1

    def params(fnode):
        out = []
        for inp in fnode["sig"]["inputs"]:
            if "pat" in inp and inp["pat"]["k"] == "pid":
                out.append(inp["pat"]["n"])
            elif "pat" in inp:
                out.append(None)
        return out

    def on_call(kind, name, node, args, recv):
        if kind == "method":
            if isinstance(recv, tuple) and recv[:2] == ("enum", "Pair"):
                d = recv[2]
                if name == "as_rule":
                    return ("enum", "Rule::" + d["rule"], [])
                if name == "into_inner":
                    return ("list", d["children"])
                if name == "clone":
                    return recv
                if name == "as_str":
                    return ("str", d["text"])
                if name == "as_span":
                    return ("span", d["start"])
            if isinstance(recv, tuple) and recv[:1] == ("span",) and name == "start":
                return recv[1]
            if isinstance(recv, tuple) and recv[:2] == ("enum", "RefFinder") and ("RefFinder", name) in nested:
                fnode = nested[("RefFinder", name)]
                # evaluate args in caller: not available -> NotImplemented path below handles via closure
                return ("__method__", fnode, recv)
            return NotImplemented
        if kind == "fn":
            if name in nested:
                fnode = nested[name]
                return call(fnode, dict(zip(params(fnode), args)))
            segs = (name or "").split("::")
            if len(segs) == 2 and segs[0] in ("Self", "RefFinder") and ("RefFinder", segs[1]) in nested:
                fnode = nested[("RefFinder", segs[1])]       # an associated function of the nested impl
                return call(fnode, dict(zip(params(fnode), args)))
            if name == "pest_span_to_position":
                return ("pos", args[0][1] if isinstance(args[0], tuple) else None)
        return NotImplemented

    # method calls on RefFinder need evaluated arguments: wrap Interp.e_mcall
    orig = Interp.e_mcall

    def e_mcall(self, e):
        recv = self.eval(e["r"])
        if isinstance(recv, tuple) and recv[:2] == ("enum", "RefFinder") and ("RefFinder", e["m"]) in nested:
            fnode = nested[("RefFinder", e["m"])]
            args = [self.eval(a) for a in e["a"]]
            env = {"self": recv}
            env.update(dict(zip(params(fnode), args)))
            return call(fnode, env)
        return orig(self, e)
    Interp.e_mcall = e_mcall
    try:
        return call(fi.node, {"pairs": ("list", [doc]), "input": OPAQUE})
    finally:
        Interp.e_mcall = orig


def r_undef(ctx):
    rid = "C12.undef"
    ctx.rule(rid, "find_first_undefined_reference returns the first referenced name (document order) that is neither defined, nor a prelude "
                  "name, nor a generic parameter of the *enclosing* rule, nor a socket — in every syntactic position; None otherwise "
                  "(abstract evaluation on grammar-shaped pair trees)", floor=15)
    f = ctx.facts
    g = pestg.G(f.grammar())
    fi = f.fn(B, "find_first_undefined_reference")
    pre = f.item(B, "const", "STANDARD_PRELUDE")
    prelude = [("str", x["v"]) for x in vf.walk(pre["e"]) if x["k"] == "lit" and x.get("t") == "str"]
    if len(prelude) < 30:
        raise vf.Incomplete("STANDARD_PRELUDE not extracted")
    t = T(g)
    for name, doc, exp in scenarios(t):
        try:
            v = run_undef(f, fi, doc, prelude)
        except Unknown as e:
            ctx.incomplete_msg(rid, "%s: %s" % (name, e))
            continue
        got = None
        if isinstance(v, tuple) and v[0] == "Some":
            inner = v[1]
            got = inner[1][0][1] if isinstance(inner, tuple) and inner[0] == "tuple" and isinstance(inner[1][0], tuple) else repr(inner)
        elif v != ("None",):
            got = "?" + repr(v)[:40]
        ctx.site(rid, name, B, fi.line, {"expected": exp, "result": got})
        if got != exp:
            ctx.violation(rid, name, B, fi.line, "scenario %s: the reference walker reports %r, expected %r" % (name, got, exp))
    for e in sorted(set(t.shape_errors)):
        ctx.incomplete_msg(rid, "scenario tree no longer grammar-shaped: %s" % e)


def r_entry(ctx):
    rid = "C12.entry"
    ctx.rule(rid, "convert_cddl is the only constructor of ast::CDDL in pest_bridge.rs; cddl_from_pest_str and cddl_from_pest_str_checked call it; "
                  "cddl_from_pest_str_checked calls find_first_undefined_reference and returns Err when it yields Some; CDDL::from_slice and "
                  "cddl_from_str (src/parser.rs) delegate to these", floor=5)
    f = ctx.facts
    for fi in f.fns(B):
        if fi.in_test:
            continue
        for n in vf.find(fi.node, "struct"):
            if n["p"] in ("ast::CDDL", "CDDL"):
                ctx.site(rid, "ctor|%s" % fi.qual, B, n["l"], None)
                if fi.name != "convert_cddl":
                    ctx.violation(rid, "ctor|%s" % fi.qual, B, n["l"], "%s constructs ast::CDDL without going through convert_cddl's duplicate check" % fi.qual)

    def calls(fi):
        return {x["f"]["p"].split("::")[-1] for x in vf.walk(fi.node) if x["k"] == "call" and x["f"]["k"] == "path"} | \
               {x["m"] for x in vf.walk(fi.node) if x["k"] == "mcall"}
    need = [(B, "cddl_from_pest_str", {"convert_cddl"}), (B, "cddl_from_pest_str_checked", {"convert_cddl", "find_first_undefined_reference"}),
            ("src/parser.rs", "cddl_from_str", {"cddl_from_pest_str"})]
    import cg as cgmod
    graph = cgmod.CG(f, exclude=("src/parser_tests.rs",))

    def reaches(fi):
        start = [x for x in graph.fns if x.file == fi.file and x.qual == fi.qual and x.cfg == fi.cfg]
        ids = graph.reachable(start, weak=False)
        return {graph.byid[i].name for i in ids}
    for file, name, want in need:
        for fi in f.fn_all(file, name):
            c = reaches(fi)
            ctx.site(rid, "%s|%s" % (file, name), file, fi.line, {"reaches": sorted(c & (want | {"convert_cddl"}))})
            for w in want - c:
                ctx.violation(rid, "%s|%s|%s" % (file, name, w), file, fi.line, "%s no longer reaches %s (through free-function and Self:: calls)" % (name, w))
    # from_slice -> checked
    found = False
    for fi in f.fns("src/parser.rs"):
        if fi.name == "from_slice" and not fi.in_test:
            found = True
            c = reaches(fi)
            ctx.site(rid, "parser.rs|from_slice", "src/parser.rs", fi.line, {"reaches_checked": "cddl_from_pest_str_checked" in c})
            if "cddl_from_pest_str_checked" not in c:
                ctx.violation(rid, "parser.rs|from_slice|checked", "src/parser.rs", fi.line, "CDDL::from_slice does not reach cddl_from_pest_str_checked")
    if not found:
        raise vf.Incomplete("CDDL::from_slice not found")
    # checked: the outcomes of the parse, of convert_cddl and of the walker decide the result (abstract evaluation)
    for fi in f.fn_all(B, "cddl_from_pest_str_checked"):
        for parse_ok in (True, False):
            for conv_ok in (True, False):
                for undef in (False, True):
                    key = "checked|parse %s|convert %s|undefined %s" % ("ok" if parse_ok else "err", "ok" if conv_ok else "err", undef)

                    def on_call(kind, name, node, args, recv, parse_ok=parse_ok, conv_ok=conv_ok, undef=undef):
                        if kind == "fn" and name:
                            b = name.split("::")[-1]
                            if b == "parse" and "CddlParser" in name:
                                return ("Ok", ("pairs",)) if parse_ok else ("Err", ("str", "pest error"))
                            if b == "convert_pest_error":
                                return ("str", "converted pest error")
                            if b == "convert_cddl":
                                return ("Ok", ("str", "AST")) if conv_ok else ("Err", ("str", "duplicate"))
                            if b == "find_first_undefined_reference":
                                return ("Some", ("tuple", [("str", "x"), OPAQUE])) if undef else ("None",)
                        if kind == "method" and name == "clone":
                            return recv
                        return NotImplemented
                    it = Interp(env={"input": OPAQUE}, cfg=absint.default_cfg, on_call=on_call)
                    try:
                        try:
                            res = it.block(fi.node["body"])
                        except Return as r:
                            res = r.v
                    except Unknown as e:
                        ctx.incomplete_msg(rid, "%s: %s" % (key, e))
                        continue
                    want_ok = parse_ok and conv_ok and not undef
                    got_ok = isinstance(res, tuple) and res[0] == "Ok"
                    ctx.site(rid, key, B, fi.line, {"result": "Ok" if got_ok else "Err"})
                    if got_ok != want_ok or (got_ok and res[1] != ("str", "AST")):
                        ctx.violation(rid, "checked|%s" % ("undefined-accepted" if undef and got_ok else "duplicate-accepted" if not conv_ok and got_ok else "outcome"),
                                      B, fi.line, "cddl_from_pest_str_checked returns %s when the parse is %s, convert_cddl %s and an undefined reference is %s"
                                      % ("Ok" if got_ok else "Err", "ok" if parse_ok else "an error", "succeeds" if conv_ok else "reports a duplicate",
                                         "found" if undef else "not found"))


def json_s(n):
    import json
    return json.dumps(n)


def r_prelude(ctx):
    rid = "C12.prelude"
    ctx.rule(rid, "STANDARD_PRELUDE (pest_bridge.rs) = prelude_type alternatives (cddl.pest) = string arms of token::lookup_ident = RFC 8610 "
                  "Appendix D names", floor=40)
    import c03
    f = ctx.facts
    g = pestg.G(f.grammar())
    pre = f.item(B, "const", "STANDARD_PRELUDE")
    a = {x["v"] for x in vf.walk(pre["e"]) if x["k"] == "lit" and x.get("t") == "str"}
    pt = g.rules.get("prelude_type")
    b = {g.literal(x) for x in (pt["expr"]["e"] if pt and pt["expr"]["k"] == "choice" else [])}
    c = set(c03.str_match_table(f.fn("src/token.rs", "lookup_ident").node))
    rfc = set("any uint nint int bstr bytes tstr text tdate time number biguint bignint bigint integer unsigned decfrac bigfloat eb64url eb64legacy eb16 "
              "encoded-cbor uri b64url b64legacy regexp mime-message cbor-any float16 float32 float64 float16-32 float32-64 float false true bool nil null undefined".split())
    for nm in sorted(a | b | c | rfc):
        ctx.site(rid, nm, B, pre["l"], {"STANDARD_PRELUDE": nm in a, "grammar": nm in b, "lookup_ident": nm in c, "rfc8610": nm in rfc})
        if nm in rfc and nm not in a:
            ctx.violation(rid, "missing:%s" % nm, B, pre["l"], "RFC 8610 prelude name `%s` is not in STANDARD_PRELUDE: a reference to it is reported as undefined" % nm)
        if nm in a and nm not in rfc:
            ctx.violation(rid, "extra:%s" % nm, B, pre["l"], "`%s` is in STANDARD_PRELUDE but not in RFC 8610 Appendix D: an undefined reference to it is accepted" % nm)
        if nm in rfc and nm not in c:
            ctx.violation(rid, "lookup:%s" % nm, "src/token.rs", 1, "prelude name `%s` has no arm in token::lookup_ident" % nm)


def run(ctx):
    ctx.guarded("C12.dup", r_dup)
    ctx.guarded("C12.undef", r_undef)
    ctx.guarded("C12.entry", r_entry)
    ctx.guarded("C12.prelude", r_prelude)
