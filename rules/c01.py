"""C01 — JSON verdict = RFC 8610 semantics on the core language (structural clauses)."""
import common_val as cv

META = {
    "level": "other",
    "explanation": (
        "Abstract interpretation of the JSON validator's source (visit_value, visit_range, seq_match_*, validate) on "
        "representative points of the order-type domain of (document, literal[, bounds]) and on scripted callee outcomes, "
        "compared with RFC 8610 sections 2.2.2.1, 3.2, 3.8; visit_identifier on every prelude name x scalar document kind against "
        "RFC 8610 Appendix D (classification predicates interpreted from their source); plus exhaustiveness of the "
        "ControlOperator/Type2 dispatch. "
        "Decides these necessary conditions for all inputs; the full verdict relation over all schemas x documents is not decided."),
    "assumptions": ["serde_json::Number::as_i64/as_u64/as_f64 behave as documented (modelled)",
                    "the abstract interpreter models the Rust subset used in these functions; anything else is reported as incomplete"],
    "trusted_base": ["syn 2 parser", "lib/absint.py", "oracle tables in lib/valtables.py (RFC 8610 transcription)"],
    "technique": "static analysis: abstract interpretation of extracted syntax over order types and document kinds (comparison, range, occurrence, control-operator and prelude tables against RFC 8610), no-vacuous-accept and target-first path rules, dispatch exhaustiveness",
}


def run(ctx):
    ctx.guarded("C01.cmp", lambda c: cv.cmp_rule(c, "C01", "json"))
    ctx.guarded("C01.range", lambda c: cv.range_rule(c, "C01", "json"))
    ctx.guarded("C01.occur", lambda c: cv.occur_rule(c, "C01", "json"))
    ctx.guarded("C01.ctrlarms", lambda c: cv.arms_rule(c, "C01", "json"))
    ctx.guarded("C01.root", lambda c: cv.root_rule(c, "C01", "json"))
    ctx.guarded("C01.ctrlrestore", lambda c: cv.ctrlrestore_rule(c, "C01", "json"))
    ctx.guarded("C01.ctrlcheck", lambda c: cv.ctrlcheck_rule(c, "C01", "json"))
    ctx.guarded("C01.ctrltarget", lambda c: cv.ctrltarget_rule(c, "C01", "json"))
    ctx.guarded("C01.revisit", lambda c: cv.revisit_rule(c, "C01", "json"))
    ctx.guarded("C01.rangenamed", lambda c: cv.rangenamed_rule(c, "C01", "json"))
    ctx.guarded("C01.tableclaim", lambda c: cv.tableclaim_rule(c, "C01"))
    ctx.guarded("C01.choicerollback", lambda c: cv.choicerollback_rule(c, "C01"))
    import prelude_scalar as ps
    ctx.guarded("C01.prelude", lambda c: ps.rule(c, "C01", "json"))
