"""Rules shared by C01/C02/C04/C09 (validator verdict tables and dispatch exhaustiveness)."""
import vf
import valtables as vt
import absint

CBOR_ONLY_CTRL = {"BITS", "CBOR", "CBORSEQ", "ABNFB", "BITFIELD"}
CBOR_ONLY_TYPE2 = {"TaggedData", "DataMajorType"}


def table_rule(ctx, rid, text, floor, rows, keyf, descf, file_line=None):
    ctx.rule(rid, text, floor=floor)
    for r in rows:
        k = keyf(r)
        ctx.site(rid, k, r.get("file"), r.get("line"), {kk: r[kk] for kk in r if kk not in ("file", "line")})
        v = r["verdict"]
        if v.startswith("unknown"):
            ctx.incomplete_msg(rid, "%s: abstract evaluation could not decide (%s)" % (k, v))
        elif v != r["expected"]:
            ctx.violation(rid, k, r.get("file"), r.get("line"), descf(r))


def cmp_rule(ctx, prop, which):
    rows = []
    for cfg in vt.CONFIGS:
        for r in vt.cmp_table(ctx.facts, which, cfg):
            r["cfg"] = cfg
            rows.append(r)
    # both configurations give the same rows today; key without cfg unless they differ
    merged = {}
    for r in rows:
        k = (r["kind"], r["ctrl"], r["point"])
        merged.setdefault(k, []).append(r)
    out = []
    for k, rs in merged.items():
        vs = {r["verdict"] for r in rs}
        if len(vs) == 1:
            r = dict(rs[0])
            r["cfg"] = "all"
            out.append(r)
        else:
            out.extend(rs)
    table_rule(
        ctx, "%s.cmp" % prop,
        "%s visit_value: for literal kinds INT/UINT/FLOAT and ctrl in {none,.ne,.lt,.le,.gt,.ge,.and,.within} the verdict on every "
        "order type of (document, literal) equals RFC 8610 section 3.8 (abstract evaluation of the source)" % which,
        100, out,
        lambda r: "%s|%s|%s%s" % (r["kind"], r["ctrl"], r["point"], "" if r["cfg"] == "all" else "|" + r["cfg"]),
        lambda r: "%s validator, literal kind %s under ctrl %s, document %s literal: source evaluates to %s, RFC 8610 says %s"
                  % (which, r["kind"], r["ctrl"], r["point"], r["verdict"], r["expected"]))
    return out


def range_rule(ctx, prop, which):
    rows = vt.range_table(ctx.facts, which)
    table_rule(
        ctx, "%s.range" % prop,
        "%s visit_range: for every bound-kind pair and is_inclusive in {true,false} the verdict on every order type of "
        "(value, lower, upper) equals RFC 8610 section 2.2.2.1 ([l,u] resp. [l,u))" % which,
        85, rows,
        lambda r: "%s|%s|%s|%s" % (r["bounds"], "incl" if r["incl"] else "excl", r["doc"], r["point"]),
        lambda r: "%s validator, range %s %s, %s with %s: source evaluates to %s, RFC 8610 says %s"
                  % (which, r["bounds"], ".." if r["incl"] else "...", r["doc"], r["point"], r["verdict"], r["expected"]))
    return rows


def rangenamed_rule(ctx, prop, which):
    rid = "%s.rangenamed" % prop
    rows = vt.named_range_table(ctx.facts, which)
    table_rule(ctx, rid, "%s visit_range with a bound written as the name of a rule that is one numeric literal (RFC 8610 2.2.2.1: "
               "`byte = 0..max-byte`, `max-byte = 255`) gives the verdict of the range with the literal in its place, for integer and "
               "float bounds, named lower / upper / both, inclusive and exclusive (abstract evaluation, the rule list scripted)" % which.upper(),
               40, rows, lambda r: "%s|%s|%s" % (r["bounds"], "incl" if r["incl"] else "excl", r["point"]),
               lambda r: "%s range %s %s at %s" % (which, r["bounds"], "inclusive" if r["incl"] else "exclusive", r["point"]))


def occur_rule(ctx, prop, which):
    rows = vt.seq_entry_table(ctx.facts, which)
    table_rule(
        ctx, "%s.occur" % prop,
        "%s seq_match_entry: for every occurrence form and every number k of available iterations the result is "
        "match+min(k,max) iff min(k,max) >= min, with (min,max) per RFC 8610 section 3.2; a zero-width iteration terminates" % which,
        80, rows,
        lambda r: "%s|k=%s" % (r["occur"], r["iterations_available"]),
        lambda r: "%s seq_match_entry with occurrence %s and %s matching iteration(s) available: source evaluates to %s, expected %s"
                  % (which, r["occur"], r["iterations_available"], r["verdict"], r["expected"]))
    rows2 = vt.seq_choice_tables(ctx.facts, which)
    table_rule(
        ctx, "%s.seq" % prop,
        "%s seq_match_group_choice folds every entry left to right and fails on the first failing entry; seq_match_group "
        "returns the first matching choice (PEG ordered choice)" % which,
        10, rows2,
        lambda r: "%s|%s" % (r["fn"], r["script"]),
        lambda r: "%s %s with entry/choice script %s: source evaluates to %s, expected %s"
                  % (which, r["fn"], r["script"], r["verdict"], r["expected"]))
    return rows


def dispatch_arms(facts, which, fn, enum):
    fi = vt.visitor_fn(facts, which, fn)
    best = None
    for m in vf.find(fi.node, "match"):
        vs = {}
        wild = False
        for arm in m["arms"]:
            for p in vf.pat_alternatives(arm["pat"]):
                v = vf.variant_of(vf.pat_path(p), enum)
                if v:
                    vs.setdefault(v, arm)
                elif vf.pat_is_catchall(p):
                    wild = arm
        if best is None or len(vs) > len(best[1]):
            best = (m, vs, wild)
    if best is None:
        raise vf.Incomplete("no dispatch match on %s in %s" % (enum, fn))
    return fi, best


def enum_variants(facts, file, name):
    e = facts.item(file, "enum", name)
    return {v["name"]: v for v in e["variants"]}


def arms_rule(ctx, prop, which):
    f = ctx.facts
    rid = "%s.ctrlarms" % prop
    ctx.rule(rid, "%s visit_control_operator has an explicit arm for every ControlOperator variant it is documented to "
                  "support (all-cfg view); a variant falling into the wildcard arm is silently unsupported" % which, floor=30)
    fi, (m, vs, wild) = dispatch_arms(f, which, "visit_control_operator", "ControlOperator")
    variants = enum_variants(f, "src/token.rs", "ControlOperator")
    for v in variants:
        if which == "json" and v in CBOR_ONLY_CTRL:
            continue
        ctx.site(rid, v, fi.file, vs[v]["l"] if v in vs else fi.line, {"variant": v, "has_arm": v in vs})
        if v not in vs:
            ctx.violation(rid, v, fi.file, fi.line, "%s visit_control_operator has no arm for ControlOperator::%s" % (which, v))
    rid = "%s.type2arms" % prop
    ctx.rule(rid, "%s visit_type2 has an explicit arm for every Type2 variant of its data model" % which, floor=14)
    fi, (m, vs, wild) = dispatch_arms(f, which, "visit_type2", "Type2")
    variants = enum_variants(f, "src/ast/mod.rs", "Type2")
    for v in variants:
        if which == "json" and v in CBOR_ONLY_TYPE2:
            continue
        ctx.site(rid, v, fi.file, vs[v]["l"] if v in vs else fi.line, {"variant": v, "has_arm": v in vs})
        if v not in vs:
            ctx.violation(rid, v, fi.file, fi.line, "%s visit_type2 has no arm for Type2::%s" % (which, v))


def root_rule(ctx, prop, which):
    """validate(): first non-generic type rule is the root, visited once, result reflects errors"""
    rid = "%s.root" % prop
    ctx.rule(rid, "%s validate(): iterates cddl.rules forward, visits the first Rule::Type whose generic_params is None exactly once "
                  "(break after it), and returns Err(Validation(errors)) iff errors is non-empty, Ok(()) otherwise "
                  "(abstract evaluation over rule lists)" % which, floor=6)
    import absint
    from absint import OPAQUE
    fi = vt.visitor_fn(ctx.facts, which, "validate")

    def mk(kind, generic):
        if kind == "G":
            return ("enum", "Rule::Group", {"rule": ("enum", "GroupRule", {})})
        return ("enum", "Rule::Type", {"rule": ("enum", "TypeRule", {"name": kind, "generic_params": ("Some", OPAQUE) if generic else ("None",)})})
    scenarios = {
        "T": [mk("r0", False)], "G,T": [mk("G", False), mk("r1", False)], "Tgen,T,T": [mk("r0", True), mk("r1", False), mk("r2", False)],
        "G,Tgen": [mk("G", False), mk("r1", True)], "empty": [], "T,T": [mk("r0", False), mk("r1", False)],
    }
    for name, rules in scenarios.items():
        for nerr in (0, 2):
            visited = []
            errs = {"n": 0}

            def visit(run, node, recv, visited=visited, errs=errs, nerr=nerr):
                a = run.it.eval(node["a"][0])
                visited.append(a[2].get("name") if isinstance(a, tuple) and a[0] == "enum" and isinstance(a[2], dict) else "?")
                errs["n"] += nerr
                return ("Ok", ("tuple", []))
            src_env = {
                "self.state.cddl.rules.iter()": ("list", rules),
                "self.errors.is_empty()": lambda it, e, errs=errs: errs["n"] == 0,
                "self.errors.clone()": ("errors",),
                "self.errors.len()": lambda it, e, errs=errs: errs["n"],
            }
            r = vt.Run(ctx.facts, which, "default", src_env, {}, scripts={"visit_type_rule": visit})
            exp_visit = [x[2]["rule"][2]["name"] for x in rules if x[1] == "Rule::Type" and x[2]["rule"][2]["generic_params"] == ("None",)][:1]
            key = "%s|errors=%d" % (name, nerr if exp_visit else 0)
            try:
                v = r.run(fi.node)
            except absint.Unknown as e:
                ctx.incomplete_msg(rid, "%s: %s" % (key, e))
                continue
            got_err = isinstance(v, tuple) and v[0] == "Err"
            got_ok = isinstance(v, tuple) and v[0] == "Ok"
            ctx.site(rid, key, fi.file, fi.line, {"rules": name, "visited": visited, "result": v[0] if isinstance(v, tuple) else str(v)})
            if visited != exp_visit:
                ctx.violation(rid, key + "|root", fi.file, fi.line,
                              "%s validate() on rule list [%s] visits %s; the root must be exactly %s" % (which, name, visited, exp_visit))
            want_err = errs["n"] > 0
            if want_err != got_err or (not want_err) != got_ok:
                ctx.violation(rid, key + "|result", fi.file, fi.line,
                              "%s validate() with %d recorded error(s) returns %s" % (which, errs["n"], v[0] if isinstance(v, tuple) else v))
            if got_err:
                # payload must be Validation(self.errors.clone())
                pay = v[1]
                ok = isinstance(pay, tuple) and pay[0] == "enum" and pay[1].endswith("Validation") and pay[2] == [("errors",)]
                if not ok:
                    ctx.violation(rid, key + "|payload", fi.file, fi.line, "%s validate() returns Err(%r), expected Err(Validation(self.errors.clone()))" % (which, pay))


def ctrlrestore_rule(ctx, prop, which):
    rid = "%s.ctrlrestore" % prop
    ctx.rule(rid, "%s visit_control_operator: for every ControlOperator variant, target kind, classification outcome and document kind "
                  "that the abstract run can follow, the mode flag self.state.ctrl is None again when the function returns Ok — a "
                  "control left switched on leaks into the evaluation of the next alternative / sibling (pairing rule, abstract "
                  "evaluation with scripted callees)" % which, floor=600)
    rows = vt.ctrl_restore_table(ctx.facts, which)
    seen = set()
    for r in rows:
        ctx.site(rid, r["key"], r["file"], r["line"], {"ctrl_after": r["ctrl_after"], "visits": r["visits"]})
        if r["ctrl_after"] != "None":
            k = r["key"].split("|doc=")[0]
            if k in seen:
                continue
            seen.add(k)
            ctx.violation(rid, k, r["file"], r["line"],
                          "%s visit_control_operator(%s) returns Ok with self.state.ctrl = %s: the operator stays in force for whatever is "
                          "validated next" % (which, r["key"], r["ctrl_after"]))
    ctx.extra.setdefault("ctrlrestore_variants_followed", {})[which] = sorted({r["key"].split("|")[0] for r in rows})


CHECK_FREE = ("validate_", "cat_operation", "plus_operation", "abnf_from_complex_controller", "numeric_values_from_ident", "string_literals_from_ident")


def ctrlcheck_rule(ctx, prop, which):
    rid = "%s.ctrlcheck" % prop
    ctx.rule(rid, "%s visit_control_operator never accepts vacuously: on every (operator, target kind, classification outcome, document "
                  "kind) the abstract run can follow, a return of Ok with no error recorded has visited the controller or the target "
                  "(visit_type2 / visit_type / visit_group) or called a validation helper — an arm that falls through to Ok(()) accepts "
                  "every document of that kind (abstract evaluation with scripted callees)" % which, floor=600)
    rows = vt.ctrl_restore_table(ctx.facts, which)
    seen = set()
    for r in rows:
        checked = r["visits"] > 0 or r["errors"] > 0 or any(c.startswith(CHECK_FREE) for c in r["calls"])
        ctx.site(rid, r["key"], r["file"], r["line"], {"visits": r["visits"], "errors": r["errors"], "calls": r["calls"][:6]})
        if not checked:
            k = r["key"].split("|preds=")[0] + "|doc=" + r["key"].split("|doc=")[1]
            if k in seen:
                continue
            seen.add(k)
            ctx.violation(rid, k, r["file"], r["line"],
                          "%s visit_control_operator(%s) returns Ok without recording an error, visiting the controller or target, or "
                          "calling a validation helper: every such document is accepted" % (which, r["key"]))


def ctrltarget_rule(ctx, prop, which):
    rid = "%s.ctrltarget" % prop
    ctx.rule(rid, "%s visit_control_operator with a comparison control (.eq .ne .lt .le .gt .ge) on a type-name target (not a member key): "
                  "the document is first validated against the target type itself, with no control in force, and when that records an "
                  "error the controller is not consulted — `uint .lt 3` must not accept -5 (abstract evaluation, visits scripted)" % which, floor=12)
    fi = vt.visitor_fn(ctx.facts, which, "visit_control_operator")
    doc = ("enum", "Value::Number", [vt.json_number(3)]) if which == "json" else ("enum", "Value::Integer", [3])
    target = ("enum", "Type2::Typename", {"ident": ("enum", "Identifier", {"ident": ("str", "t")}), "generic_args": ("None",)})
    controller = ("enum", "Type2::UintValue", {"value": 3})
    for c in ("EQ", "NE", "LT", "LE", "GT", "GE"):
        for target_ok in (True, False):
            key = "%s|target %s" % (c, "matches" if target_ok else "fails")
            obj = vt.self_obj(which, doc)
            order = []

            def visit(run, node, recv, obj=obj, order=order, target_ok=target_ok):
                a = run.it.eval(node["a"][0])
                what = "target" if a is target or a == target else "controller" if a == controller else "other"
                order.append((what, obj[2]["state"][2]["ctrl"]))
                if what == "target" and not target_ok:
                    obj[2]["errors"].append(("str", "target mismatch"))
                return ("Ok", ("tuple", []))
            r = vt.Run(ctx.facts, which, "default", {}, {"self": obj, "target": target, "ctrl": ("enum", "ControlOperator::" + c, []), "controller": controller},
                       scripts={"visit_type2": visit})
            base = r.on_call

            def on_call(kind, name, node, args, recv, base=base):
                if kind == "fn" and name and (name.startswith("is_ident_") or name.startswith("ident_")):
                    # a numeric type name that the document's kind matches (so that ad-hoc kind pre-checks pass)
                    b = name.split("::")[-1]
                    if b == "ident_numeric_kind":
                        return ("Some", ("enum", "NumericKind::Int", []))
                    return b in ("is_ident_numeric_data_type", "is_ident_integer_data_type")
                return base(kind, name, node, args, recv)
            r.it.on_call = on_call
            try:
                res = r.run(fi.node)
            except absint.Unknown as e:
                ctx.incomplete_msg(rid, "%s: %s" % (key, e))
                continue
            ctx.site(rid, key, fi.file, fi.line, {"visits": [w for w, _ in order], "result": repr(res)[:30]})
            first = order[0] if order else None
            if first is None or first[0] != "target" or first[1] != ("None",):
                ctx.violation(rid, "%s|target-first" % c, fi.file, fi.line,
                              "%s visit_control_operator(.%s) does not validate the document against the target type first (visits: %s)"
                              % (which, c.lower(), [w for w, _ in order]))
            elif not target_ok and any(w == "controller" for w, _ in order):
                ctx.violation(rid, "%s|controller-after-mismatch" % c, fi.file, fi.line,
                              "%s visit_control_operator(.%s) consults the controller although the target type rejected the document" % (which, c.lower()))


def _ident_run(ctx, which, state_update, ident_name, on_fn, scripts):
    """run visit_identifier of one validator on an opaque scalar document with the given state and scripted callees"""
    f = ctx.facts
    fi = vt.visitor_fn(f, which, "visit_identifier")
    doc = ("enum", "Value::Number" if which == "json" else "Value::Integer", [absint.OPAQUE])
    obj = vt.self_obj(which, doc)
    st = obj[2]["state"][2]
    st.update({"occurrence": ("None",), "is_member_key": False, "is_colon_shortcut_present": False, "data_location": ("str", ""),
               "visited_rules": absint.PyMap(), "is_cut_present": False, "eval_generic_rule": ("None",), "generic_rules": absint.MutList()})
    st.update(state_update)
    r = vt.Run(f, which, "default", {}, {"self": obj, "ident": ("enum", "Identifier", {"ident": ("str", ident_name), "socket": ("None",)})}, scripts=scripts)
    base = r.on_call

    def on_call(kind, name, node, args, recv, base=base):
        if kind == "fn" and name:
            v = on_fn(name.split("::")[-1], args)
            if v is not NotImplemented:
                return v
        return base(kind, name, node, args, recv)
    r.it.on_call = on_call
    return fi, r, obj


def revisit_rule(ctx, prop, which):
    rid = "%s.revisit" % prop
    ctx.rule(rid, "visit_identifier (%s) on a name whose rule is already being validated at the same position of the document (the key "
                  "`name NUL location` is in visited_rules): the rule is not visited again, an error is recorded and Ok is returned — a "
                  "reference that returns to itself without consuming input denotes no value (`a = b`, `b = a` matches nothing); the same "
                  "for a name defined only by `/=` increments (abstract evaluation, lookups scripted)" % which.upper(), floor=2)
    for label, base_rule in (("base rule", True), ("only /= increments", False)):
        visited = absint.PyMap()
        visited[absint.hkey(("str", "a\x00"))] = None
        calls = []

        def on_fn(b, args, base_rule=base_rule):
            if b == "rule_from_ident":
                return ("Some", ("enum", "Rule::Type", {"rule": absint.OPAQUE})) if base_rule else ("None",)
            if b == "type_choice_types_from_ident":
                return absint.MutList([absint.OPAQUE])
            if b == "format":
                return NotImplemented
            if b.startswith("is_ident_") or b.startswith("ident_"):
                return False
            return NotImplemented

        def visit_rule(run, node, recv, calls=calls):
            calls.append(node["m"])
            return ("Ok", ("tuple", []))
        scripts = {"visit_rule": visit_rule, "visit_named_type_choice": visit_rule}
        fi, r, obj = _ident_run(ctx, which, {"visited_rules": visited}, "a", on_fn, scripts)

        def fmt_macro(kind, name, node, args, recv, prev=r.it.on_call):
            if kind == "macro" and name == "format" and node.get("args") and "{}\\u{0}{}" in (node["args"][0].get("s") or ""):
                return ("str", "a\x00")
            return prev(kind, name, node, args, recv)
        r.it.on_call = fmt_macro
        key = "%s|%s" % (which, label)
        try:
            res = r.run(fi.node)
        except absint.Unknown as e:
            ctx.incomplete_msg(rid, "%s: %s" % (key, e))
            continue
        ctx.site(rid, key, fi.file, fi.line, {"errors": r.errors, "visits": list(calls), "result": repr(res)[:30]})
        if calls:
            ctx.violation(rid, key + "|revisits", fi.file, fi.line, "%s visit_identifier visits the rule again although it is already being validated at this "
                          "position (%s): zero-progress recursion does not terminate" % (which, label))
        elif r.errors == 0:
            ctx.violation(rid, key + "|accepts", fi.file, fi.line, "%s visit_identifier returns %r with no error recorded when the rule is already being "
                          "validated at this position (%s): `a = b`, `b = a` accepts every document" % (which, res, label))


def argctx_rule(ctx, prop, which):
    rid = "%s.argctx" % prop
    ctx.rule(rid, "visit_identifier (%s) on a generic parameter of the rule being evaluated: the bound argument is visited with the generic "
                  "evaluation context of the place where the instantiation was written, not with the context of the instantiated rule — "
                  "otherwise an argument that mentions a parameter of the caller (`c<t> = b<t>`, `c<u> = b<u>`) is looked up in the wrong "
                  "scope (abstract evaluation; the context seen by the scripted visit of the argument is observed)" % which.upper(), floor=1)
    seen = []
    gr = ("enum", "GenericRule", {"name": ("str", "b"), "params": absint.MutList([("str", "t")]), "args": absint.MutList([("arg-of-t",)])})

    def visit_arg(run, node, recv, seen=seen):
        st = recv[2]["state"][2] if isinstance(recv, tuple) and len(recv) == 3 and isinstance(recv[2], dict) and "state" in recv[2] else None
        seen.append((run.it.eval(node["a"][0]), st.get("eval_generic_rule") if st else None))
        return ("Ok", ("tuple", []))
    scripts = {"visit_type1": visit_arg, "visit_type": visit_arg, "visit_type2": visit_arg}
    fi, r, obj = _ident_run(ctx, which, {"eval_generic_rule": ("Some", ("str", "b")), "generic_rules": absint.MutList([gr])}, "t",
                            lambda b, args: NotImplemented, scripts)
    key = "%s|param-of-current-rule" % which
    try:
        res = r.run(fi.node)
    except absint.Unknown as e:
        ctx.incomplete_msg(rid, "%s: %s" % (key, e))
        return
    ctx.site(rid, key, fi.file, fi.line, {"argument_visits": [(repr(a)[:30], repr(c)) for a, c in seen], "result": repr(res)[:30]})
    hits = [c for a, c in seen if a == ("arg-of-t",)]
    if not hits:
        ctx.violation(rid, key + "|unbound", fi.file, fi.line, "%s visit_identifier does not visit the argument bound to parameter `t` of the rule being evaluated" % which)
    elif any(c == ("Some", ("str", "b")) for c in hits):
        ctx.violation(rid, key, fi.file, fi.line, "%s visit_identifier visits the argument bound to parameter `t` of `b` while `b` is still the generic "
                      "evaluation context: a parameter of the caller inside the argument is resolved against b's own parameters "
                      "(`c<t> = b<t>` never terminates, `c<u> = b<u>` looks for a rule named u)" % which)


def instguard_rule(ctx, prop, which):
    rid = "%s.instguard" % prop
    ctx.rule(rid, "visit_type2 (%s) on a generic instantiation `g<args>` in type position: the child validator that evaluates the generic "
                  "rule takes the recursion guard (state.visited_rules, keys `rule NUL data_location`) and its data_location from the same "
                  "coordinate system — a child that starts at its own origin must not inherit guard keys made from the parent's positions, "
                  "otherwise an input-consuming recursion through the instantiation (`tree = [* node]`, `node = opt<tree>`) is reported as "
                  "a cycle whenever a relative position equals an open absolute one, and `opt<tree>` stops meaning what `tree / null` means "
                  "(abstract evaluation; the state of the child at its visit_rule call is observed)" % which.upper(), floor=1)
    f = ctx.facts
    fi = vt.visitor_fn(f, which, "visit_type2")
    doc = ("enum", "Value::Array", [absint.OPAQUE])
    obj = vt.self_obj(which, doc)
    guard = absint.PyMap()
    guard[absint.hkey(("str", "tree\x00/0"))] = None
    obj[2]["state"][2].update({"is_multi_type_choice": False, "is_multi_group_choice": False, "data_location": ("str", "/0/0"),
                               "type_group_name_entry": ("None",), "enabled_features": ("None",), "visited_rules": guard,
                               "generic_rules": absint.MutList(), "eval_generic_rule": ("None",)})
    sub = []
    seen = []
    ctor = "JSONValidator::new" if which == "json" else "CBORValidator::new"

    def new(run, node, args, sub=sub):
        o = vt.self_obj(which, args[1] if len(args) > 1 else absint.OPAQUE)
        o[2]["state"][2].update({"data_location": ("str", ""), "visited_rules": absint.PyMap(), "generic_rules": absint.MutList()})
        sub.append(o)
        return o

    def visit_rule(run, node, recv, sub=sub, seen=seen):
        if sub and recv is sub[-1]:
            cst = recv[2]["state"][2]
            vr = cst.get("visited_rules")
            seen.append((cst.get("data_location"), vr))
            return ("Ok", ("tuple", []))
        return NotImplemented
    ga = ("enum", "GenericArgs", {"args": absint.MutList()})
    t2 = ("enum", "Type2::Typename", {"ident": ("enum", "Identifier", {"ident": ("str", "opt"), "socket": ("None",)}), "generic_args": ("Some", ga)})
    r = vt.Run(f, which, "default", {}, {"self": obj, "t2": t2}, scripts={ctor: new, "visit_rule": visit_rule})
    r.it.string_places = True
    r.new_methods = set(r.new_methods) | {"new_with_recursion_state"}
    base = r.on_call

    def on_call(kind, name, node, args, recv, base=base):
        if kind == "fn" and name:
            b = name.split("::")[-1]
            if b in ("rule_from_ident", "unwrap_rule_from_ident"):
                return ("Some", ("the-generic-rule",))
            if b == "generic_params_from_rule":
                return ("Some", absint.MutList([("str", "T")]))
        return base(kind, name, node, args, recv)
    r.it.on_call = on_call
    key = "%s|g<args>" % which
    try:
        r.run(fi.node)
    except absint.Unknown as e:
        ctx.incomplete_msg(rid, "%s: %s" % (key, e))
        return
    if not seen:
        ctx.incomplete_msg(rid, "%s: no child validator visit of the generic rule was observed" % key)
        return
    loc, vr = seen[-1]
    if absint.has_opaque(loc) or not isinstance(vr, absint.PyMap):
        ctx.incomplete_msg(rid, "%s: the child's data_location / visited_rules could not be evaluated" % key)
        return
    if isinstance(loc, absint.MutList):
        loc = ("str", "".join(c[1] for c in loc))
    inherits = absint.hkey(("str", "tree\x00/0")) in vr
    ctx.site(rid, key, fi.file, fi.line, {"child_location": repr(loc), "inherits_guard": inherits})
    if inherits and loc != ("str", "/0/0"):
        ctx.violation(rid, key + "|guard-from-other-origin", fi.file, fi.line,
                      "%s visit_type2: the child validator of a generic instantiation starts at data_location %r but inherits the parent's recursion "
                      "guard, whose keys were made from the parent's positions (parent at '/0/0'): `tree = [* node]`, `node = opt<tree>`, "
                      "`opt<T> = T / null` rejects [[null]] as a recursive rule reference although `node = tree / null` accepts it"
                      % (which, loc[1] if isinstance(loc, tuple) and len(loc) > 1 else loc))


def _tableclaim_scenario(f, pairs, claimed, occ, cfgname="default"):
    from absint import MutList, OPAQUE, PyMap, Interp, Return
    fi = vt.visitor_fn(f, "json", "visit_value_member_key_entry")
    fid = vt.visitor_fn(f, "json", "visit_identifier")
    fub = vt.visitor_fn(f, "json", "repeating_member_upper_bound")
    m = PyMap(); m.is_map = True
    for k, v in pairs:
        m[absint.hkey(("str", k))] = ("enum", "Value::Number", [vt.json_number(v)])
    obj = vt.self_obj("json", ("enum", "Value::Object", [m]))
    st = obj[2]["state"][2]
    st.update({"occurrence": ("None",), "is_member_key": False, "is_colon_shortcut_present": False, "data_location": ("str", ""), "visited_rules": PyMap(),
               "is_cut_present": False, "advance_to_next_entry": False, "is_multi_type_choice": False, "is_multi_group_choice": False, "type_group_name_entry": ("None",)})
    obj[2].update({"validating_value": False, "cut_value": ("None",), "object_value": ("None",), "map_entry_candidates": ("None",),
                   "validated_keys": ("Some", MutList([("str", k) for k in claimed])), "values_to_validate": ("None",)})
    occv = vt.occ_val(occ)
    ident = ("enum", "Identifier", {"ident": ("str", "tstr"), "socket": ("None",)})
    entry = ("enum", "ValueMemberKeyEntry", {"occur": ("Some", ("enum", "Occurrence", {"occur": occv[1]})), "member_key": ("Some", ("enum", "MemberKey::Type1", {"t1": OPAQUE})),
                                             "entry_type": ("enum", "Type", {"type_choices": MutList()})})
    counts = []
    def visit_occurrence(run, node, recv):
        recv[2]["state"][2]["occurrence"] = occv
        return ("Ok", ("tuple", []))
    def visit_memberkey(run, node, recv):
        sub = Interp(env={"self": recv, "ident": ident}, src_env=run.it.src_env, cfg=run.it.cfg, on_call=run.it.on_call)
        sub.resolve_fn = run.it.resolve_fn
        try:
            return sub.block(fid.node["body"])
        except Return as r:
            return r.v
    def new_child(run, node, recv):
        o = vt.self_obj("json", run.it.eval(node["a"][0]))
        o[2]["state"][2].update({"data_location": ("str", "")})
        return o
    def visit_type(run, node, recv):
        return ("Ok", ("tuple", []))        # every candidate value fits the table's value type
    def vcount(run, node, recv):
        counts.append(run.it.eval(node["a"][1]))
        return ("tuple", [])
    scripts = {"visit_occurrence": visit_occurrence, "visit_memberkey": visit_memberkey, "new_with_recursion_state": new_child, "visit_type": visit_type,
               "validate_repeating_member_count": vcount, "in_standard_prelude": lambda run, node, recv: ("Some", ("str", "tstr")),
               "Self::repeating_member_upper_bound": lambda run, node, args: run.it.call_fn_node(fub.node, args)}
    r = vt.Run(f, "json", cfgname, {}, {"self": obj, "entry": entry}, scripts=scripts)
    r.it.string_places = True
    base = r.on_call
    def on_call(kind, name, node, args, recv, base=base):
        if kind == "method" and name == "contains" and isinstance(recv, PyMap):
            return False
        if kind == "fn" and name:
            b = name.split("::")[-1]
            if b == "is_ident_string_data_type": return True
            if b.startswith("is_ident_") or b.startswith("ident_"):
                return ("None",) if b == "ident_numeric_kind" else False
            if b == "rule_from_ident": return ("None",)
            if b == "type_choice_types_from_ident": return MutList()
            if b == "lookup_ident": return ("enum", "Token::TSTR", [])
        return base(kind, name, node, args, recv)
    r.it.on_call = on_call
    res = r.run(fi.node)
    vk = obj[2]["validated_keys"]
    return res, counts, vk, r.errors


def tableclaim_rule(ctx, prop="C01"):
    import absint
    rid = "%s.tableclaim" % prop
    ctx.rule(rid, "JSON visit_value_member_key_entry on a repeating table member (`+ / n*m / * tstr => T`), with the member key visited by the "
                  "interpreted visit_identifier: a pair that an earlier member already claimed is neither counted towards the table's "
                  "occurrence bounds nor uses up its upper bound — RFC 8610 matches every map member against at most one group entry "
                  "(abstract evaluation of both functions on objects with and without an earlier claim; the value visit is scripted to "
                  "accept every candidate)", floor=4)
    f = ctx.facts
    fi = vt.visitor_fn(f, "json", "visit_value_member_key_entry")
    cases = [("a claimed, b free, +", [("a", 1), ("b", 2)], ["a"], ("OneOrMore", None, None), 1, {"a", "b"}),
             ("a claimed, b free, 1*1", [("a", 1), ("b", 2)], ["a"], ("Exact", 1, 1), 1, {"a", "b"}),
             ("a claimed, none free, +", [("a", 1)], ["a"], ("OneOrMore", None, None), 0, {"a"}),
             ("none claimed, *", [("a", 1), ("b", 2)], [], ("ZeroOrMore", None, None), 2, {"a", "b"}),
             ("a claimed, b c free, 2*3", [("a", 1), ("b", 2), ("c", 3)], ["a"], ("Exact", 2, 3), 2, {"a", "b", "c"})]
    for label, pairs, claimed, occ, want_count, want_keys in cases:
        try:
            res, counts, vk, errs = _tableclaim_scenario(f, pairs, claimed, occ)
        except absint.Unknown as e:
            ctx.incomplete_msg(rid, "%s: %s" % (label, e))
            continue
        keys = None
        if isinstance(vk, tuple) and vk[:1] == ("Some",) and all(isinstance(k, tuple) and k[:1] == ("str",) for k in vk[1]):
            keys = [k[1] for k in vk[1]]
        if len(counts) != 1 or absint.has_opaque(counts) or keys is None:
            ctx.incomplete_msg(rid, "%s: the match count / claimed keys could not be evaluated (%r, %r)" % (label, counts, vk))
            continue
        ctx.site(rid, label, fi.file, fi.line, {"match_count": counts[0], "claimed_keys": keys})
        if counts[0] != want_count or set(keys) != want_keys:
            ctx.violation(rid, label, fi.file, fi.line, "object %s with %s already claimed, table occurrence %s: the table counts %r matching pair(s) and the claimed "
                          "keys become %r; a pair belongs to one member only, so the count must be %d and the claimed keys %r"
                          % (dict(pairs), claimed or "nothing", vt.occ_name(occ), counts[0], keys, want_count, sorted(want_keys)))


def choicerollback_rule(ctx, prop="C01"):
    import copy
    rid = "%s.choicerollback" % prop
    ctx.rule(rid, "JSON group choices in a map: an alternative that claims a key and then fails leaves nothing behind — the next alternative "
                  "(visit_group over `//`, and visit_group_rule / visit_type_groupname_entry over `//=` alternatives followed by the base "
                  "definition) starts with the claimed keys it would have had as the first one; RFC 8610 Appendix A: a failed alternative "
                  "consumes nothing, so `{ a: int, b: int // a: int, c: tstr }` accepts {\"a\": 1, \"c\": \"x\"} (abstract evaluation, the "
                  "per-alternative visit scripted to claim `a` and fail)", floor=3)
    f = ctx.facts
    MutList = absint.MutList

    def run(fn_name, env_extra, script_name, extra_scripts=None):
        fi = vt.visitor_fn(f, "json", fn_name)
        obj = vt.self_obj("json", ("enum", "Value::Object", [absint.OPAQUE]))
        obj[2]["state"][2].update({"is_multi_group_choice": False, "is_ctrl_map_equality": False, "generic_rules": MutList(), "type_group_name_entry": ("None",),
                                   "cddl": absint.OPAQUE})
        obj[2].update({"validated_keys": ("None",), "errors": MutList()})
        seen = []

        def visit_alt(run_, node, recv, seen=seen):
            vk = recv[2].get("validated_keys")
            keys = [k[1] for k in vk[1]] if isinstance(vk, tuple) and vk[:1] == ("Some",) else []
            seen.append(list(keys))
            if len(seen) == 1:
                recv[2]["validated_keys"] = ("Some", MutList([("str", k) for k in keys] + [("str", "a")]))
                recv[2]["errors"].append(("str", "object missing key: b"))
            return ("Ok", ("tuple", []))
        scripts = {script_name: visit_alt}
        scripts.update(extra_scripts or {})
        env = {"self": obj}
        env.update(env_extra)
        r = vt.Run(f, "json", "default", {}, env, scripts=scripts)
        base = r.on_call

        def on_call(kind, name, node, args, recv, base=base):
            if kind == "method" and name == "add_error" and isinstance(recv, tuple) and recv[:2] == ("enum", "Self"):
                recv[2]["errors"].append(("str", "error"))
                return ("tuple", [])
            if kind == "fn" and name and name.split("::")[-1] == "group_choice_alternates_from_ident":
                return MutList([("alt", 1)])
            if kind == "fn" and name and name.split("::")[-1] == "walk_type_groupname_entry":
                return visit_alt(None, None, args[0])
            return base(kind, name, node, args, recv)
        r.it.on_call = on_call
        r.run(fi.node)
        return fi, seen, obj
    ident = ("enum", "Identifier", {"ident": ("str", "g"), "socket": ("None",)})
    cases = [("visit_group // alternatives", "visit_group", {"g": ("enum", "Group", {"group_choices": MutList([("gc", 0), ("gc", 1)])})}, "visit_group_choice"),
             ("visit_group_rule //= then base", "visit_group_rule", {"gr": ("enum", "GroupRule", {"name": ident, "generic_params": ("None",), "entry": ("base",)})}, "visit_group_entry"),
             ("visit_type_groupname_entry //= then base", "visit_type_groupname_entry",
              {"entry": ("enum", "TypeGroupnameEntry", {"name": ident, "generic_args": ("None",), "occur": ("None",)})}, "visit_group_entry")]
    for label, fn_name, env_extra, script_name in cases:
        try:
            fi, seen, obj = run(fn_name, env_extra, script_name, {"rule_from_ident": lambda r, n, a: ("None",), "group_rule_from_ident": lambda r, n, a: ("None",)})
        except absint.Unknown as e:
            ctx.incomplete_msg(rid, "%s: %s" % (label, e))
            continue
        if len(seen) < 2:
            ctx.incomplete_msg(rid, "%s: the second alternative was not reached (%d visit(s) observed)" % (label, len(seen)))
            continue
        ctx.site(rid, label, fi.file, fi.line, {"claimed_keys_seen_by_each_alternative": seen})
        if seen[1] != seen[0]:
            ctx.violation(rid, label, fi.file, fi.line, "json %s: the alternative tried after a failed one starts with the claimed keys %r (the first one started "
                          "with %r): the key `a` claimed by the failed alternative is not available to it, so `{ a: int, b: int // a: int, c: tstr }` "
                          "rejects {\"a\": 1, \"c\": \"x\"} with `object missing key: a`" % (label, seen[1], seen[0]))
