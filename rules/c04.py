"""C04 — JSON and CBOR validators agree (sibling cross-check on semantic feature sets)."""
import common_val as cv
import valtables as vt
import vf

META = {
    "level": "other",
    "explanation": (
        "Sibling cross-check of the two validators: the abstractly evaluated verdict tables (literal comparison, ranges, "
        "occurrence/sequence matcher, root selection) must be identical point by point; the ControlOperator and Type2 "
        "dispatch arm sets must agree up to the documented CBOR-only constructs; both Visitor impls override the same "
        "methods; each shared control operator reaches the same shared helper functions in both validators. Decides "
        "agreement of these tables for all inputs; agreement of verdicts on all (schema, value) pairs is not decided."),
    "assumptions": ["the two validators' data models correspond as: JSON Number<->CBOR Integer/Float, String<->Text, Array, Object<->Map"],
    "trusted_base": ["syn 2 parser", "lib/absint.py"],
    "technique": "static analysis: sibling cross-checking of abstractly evaluated tables and dispatch/callee sets",
}

# helper callees that legitimately exist on one side only (reason)
HELPER_EXEMPT = {
    ("SIZE", "is_ident_byte_string_data_type"): "bstr .size: byte strings do not exist in the JSON data model",
    ("B64U", "validate_b64u_text"): "JSON uses its own JSONValidator::validate_b64_control; reviewed 2026-09-22, strict mode decodes with the same data_encoding tables, no diverging input found",
    ("B64C", "validate_b64c_text"): "same (validate_b64_control, classic alphabet)",
    ("B64USLOPPY", "validate_b64u_text"): "same; the CBOR helper has an extra strip-last-character fallback, no diverging verdict found with probes",
    ("B64CSLOPPY", "validate_b64c_text"): "same",
    ("HEXLC", "validate_hex_text"): "JSON uses its own validate_hex_control(bytes, HexCase::Lower): same decode + case test as the shared helper (reviewed after the fix commit that added the case test)",
    ("HEXUC", "validate_hex_text"): "same with HexCase::Upper",
    ("HEX", "validate_hex_text"): "JSON uses its own validate_hex_control (hex::decode, any case) = HexCase::Any of the shared helper",
}


CFG_EXEMPT = {
    "B16ByteString": "byte-string literals only occur in JSON validation as controllers of the additional controls",
    "B64ByteString": "same", "UTF8ByteString": "same",
}


def diff_tables(ctx, rid, text, floor, jrows, crows, keyf):
    ctx.rule(rid, text, floor=floor)
    j = {keyf(r): r for r in jrows}
    c = {keyf(r): r for r in crows}
    for k in sorted(set(j) | set(c)):
        a, b = j.get(k), c.get(k)
        if a is None or b is None:
            continue
        ctx.site(rid, k, a["file"], a["line"], {"json": a["verdict"], "cbor": b["verdict"]})
        if a["verdict"].startswith("unknown") or b["verdict"].startswith("unknown"):
            ctx.incomplete_msg(rid, "%s: not evaluable" % k)
        elif a["verdict"] != b["verdict"]:
            ctx.violation(rid, k, a["file"], a["line"],
                          "validators disagree at %s: JSON source evaluates to %s, CBOR source to %s" % (k, a["verdict"], b["verdict"]))


def r_tables(ctx):
    f = ctx.facts
    diff_tables(ctx, "C04.cmp", "literal comparison tables of JSON and CBOR visit_value agree on every (kind, ctrl, order type)", 100,
                vt.cmp_table(f, "json"), vt.cmp_table(f, "cbor"), lambda r: "%s|%s|%s" % (r["kind"], r["ctrl"], r["point"]))
    diff_tables(ctx, "C04.range", "range tables of JSON and CBOR visit_range agree on every (bound kinds, inclusive, order type)", 85,
                vt.range_table(f, "json"), vt.range_table(f, "cbor"),
                lambda r: "%s|%s|%s|%s" % (r["bounds"], "incl" if r["incl"] else "excl", r["doc"], r["point"]))
    diff_tables(ctx, "C04.occur", "seq_match_entry tables of both validators agree on every (occurrence, iterations available)", 80,
                vt.seq_entry_table(f, "json"), vt.seq_entry_table(f, "cbor"), lambda r: "%s|k=%s" % (r["occur"], r["iterations_available"]))
    diff_tables(ctx, "C04.seq", "seq_match_group / seq_match_group_choice tables of both validators agree", 10,
                vt.seq_choice_tables(f, "json"), vt.seq_choice_tables(f, "cbor"), lambda r: "%s|%s" % (r["fn"], r["script"]))


def r_arms(ctx):
    f = ctx.facts
    for fn, enum, only, rid, floor in (("visit_control_operator", "ControlOperator", cv.CBOR_ONLY_CTRL, "C04.ctrl", 30),
                                       ("visit_type2", "Type2", cv.CBOR_ONLY_TYPE2, "C04.type2", 14)):
        ctx.rule(rid, "arm sets of %s over %s are equal in both validators except the documented CBOR-only variants %s"
                 % (fn, enum, sorted(only)), floor=floor)
        fj, (mj, vj, wj) = cv.dispatch_arms(f, "json", fn, enum)
        fc, (mc, vc, wc) = cv.dispatch_arms(f, "cbor", fn, enum)
        for v in sorted(set(vj) | set(vc)):
            ctx.site(rid, v, fj.file, (vj.get(v) or vc.get(v))["l"], {"json": v in vj, "cbor": v in vc})
            if v in only:
                if v in vj:
                    ctx.violation(rid, v + "|json-has-cbor-only", fj.file, vj[v]["l"], "JSON validator handles CBOR-only %s::%s" % (enum, v))
                continue
            if (v in vj) != (v in vc):
                side = "JSON" if v not in vj else "CBOR"
                ctx.violation(rid, v, fj.file if side == "JSON" else fc.file, (fj if side == "JSON" else fc).line,
                              "%s::%s has an arm in one validator only (%s lacks it): the shared feature set diverges" % (enum, v, side))
            # cfg of the arms must agree too
            if v in vj and v in vc:
                cj, cc = sorted(set(vj[v].get("cfg") or [])), sorted(set(vc[v].get("cfg") or []))
                if cj != cc and v not in CFG_EXEMPT:
                    ctx.violation(rid, v + "|cfg", fj.file, vj[v]["l"], "%s::%s arm is under cfg %s in JSON but %s in CBOR" % (enum, v, cj, cc))


def r_methods(ctx):
    rid = "C04.methods"
    ctx.rule(rid, "both `impl Visitor` blocks override the same method set", floor=14)
    f = ctx.facts
    sets = {}
    for w in ("json", "cbor"):
        file, ty = vt.VIS[w]
        sets[w] = {fi.name: fi for fi in f.fns(file) if fi.impl_self == ty and fi.impl_trait == "Visitor"}
    for m in sorted(set(sets["json"]) | set(sets["cbor"])):
        fi = sets["json"].get(m) or sets["cbor"].get(m)
        ctx.site(rid, m, fi.file, fi.line, {"json": m in sets["json"], "cbor": m in sets["cbor"]})
        if (m in sets["json"]) != (m in sets["cbor"]):
            ctx.violation(rid, m, fi.file, fi.line, "Visitor::%s is overridden by one validator only" % m)


def transitive_helpers(f, which, node, helpers, depth=3):
    file, ty = vt.VIS[which]
    methods = {fi.name: fi for fi in f.fns(file) if fi.impl_self == ty and fi.impl_trait is None}
    out = set()
    seen = set()

    def rec(n, d):
        for x in vf.walk(n):
            if x["k"] == "call" and x["f"]["k"] == "path":
                nm = x["f"]["p"].split("::")[-1]
                if nm in helpers:
                    out.add(nm)
            if x["k"] == "mcall" and vf.src(x["r"]) == "self" and x["m"] in methods and d > 0 and x["m"] not in seen:
                seen.add(x["m"])
                rec(methods[x["m"]].node, d - 1)
    rec(node, depth)
    return out


def r_helpers(ctx):
    rid = "C04.helpers"
    ctx.rule(rid, "for every control operator both validators implement, the set of shared helper functions "
                  "(validator/control.rs, validator/mod.rs) reached from its arm (through self methods, depth <= 3) is the same", floor=25)
    f = ctx.facts
    helpers = set()
    for file in ("src/validator/control.rs", "src/validator/mod.rs"):
        for fi in f.fns(file):
            if not fi.in_test and fi.impl_self is None:
                helpers.add(fi.name)
    fj, (mj, vj, wj) = cv.dispatch_arms(f, "json", "visit_control_operator", "ControlOperator")
    fc, (mc, vc, wc) = cv.dispatch_arms(f, "cbor", "visit_control_operator", "ControlOperator")
    for v in sorted(set(vj) & set(vc)):
        hj = transitive_helpers(f, "json", vj[v]["body"], helpers)
        hc = transitive_helpers(f, "cbor", vc[v]["body"], helpers)
        ctx.site(rid, v, fj.file, vj[v]["l"], {"json": sorted(hj), "cbor": sorted(hc)})
        for h in sorted(hj ^ hc):
            if (v, h) in HELPER_EXEMPT:
                continue
            side = "JSON" if h in hj else "CBOR"
            ctx.violation(rid, "%s|%s" % (v, h), fj.file if side == "JSON" else fc.file, (vj if side == "JSON" else vc)[v]["l"],
                          "control %s reaches shared helper %s only in the %s validator" % (v, h, side))


def r_root(ctx):
    # both validate() functions satisfy the root rule (reported under C04 as sibling agreement)
    cv.root_rule(ctx, "C04j", "json")
    cv.root_rule(ctx, "C04c", "cbor")


def run(ctx):
    ctx.guarded("C04.tables", r_tables)
    ctx.guarded("C04.arms", r_arms)
    ctx.guarded("C04.methods", r_methods)
    ctx.guarded("C04.helpers", r_helpers)
    import c09
    ctx.guarded("C04.bareword", lambda c: c09.r_bareword(c, "C04.bareword"))
