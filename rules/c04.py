"""C04 — JSON and CBOR validators agree (sibling cross-check on semantic feature sets)."""
import common_val as cv
import valtables as vt
import vf

META = {
    "level": "other",
    "explanation": (
        "Sibling cross-check of the two validators: the abstractly evaluated verdict tables (literal comparison, ranges, "
        "occurrence/sequence matcher, root selection) must be identical point by point; the ControlOperator and Type2 "
        "dispatch arm sets must agree up to the documented CBOR-only constructs; both Visitor impls override the same "
        "methods; each shared control operator reaches the same shared helper functions in both validators. Decides "
        "agreement of these tables for all inputs; agreement of verdicts on all (schema, value) pairs is not decided."),
    "assumptions": ["the two validators' data models correspond as: JSON Number<->CBOR Integer/Float, String<->Text, Array, Object<->Map"],
    "also_decides": "C04.encctl / C04.ctlbytes: the JSON validator's own base64/hex control code agrees with the shared helpers the CBOR validator calls, on every decoder outcome, and receives the controller literal's bytes unchanged; C04.bareword: bareword member keys under every occurrence form; C04.repeatcount: lower / upper bound of repeating map members",
    "trusted_base": ["syn 2 parser", "lib/absint.py"],
    "technique": "static analysis: sibling cross-checking of abstractly evaluated tables, of the two implementations of the text-encoding controls (decoders scripted), and of dispatch/callee sets",
}

# helper callees that legitimately exist on one side only (reason)
HELPER_EXEMPT = {
    ("SIZE", "is_ident_byte_string_data_type"): "bstr .size: byte strings do not exist in the JSON data model",
    # the JSON validator has its own implementations of the text-encoding controls; their agreement with the shared helpers the
    # CBOR validator calls is decided by C04.encctl (abstract evaluation of both) and C04.ctlbytes, not assumed here.
    # (2026-09-22: an earlier version exempted these after probing only; two genuine divergences hid behind that exemption.)
    ("B64U", "validate_b64u_text"): "own implementation JSONValidator::validate_b64_control; agreement decided by C04.encctl",
    ("B64C", "validate_b64c_text"): "same",
    ("B64USLOPPY", "validate_b64u_text"): "same",
    ("B64CSLOPPY", "validate_b64c_text"): "same",
    ("HEXLC", "validate_hex_text"): "own implementation JSONValidator::validate_hex_control; agreement decided by C04.encctl",
    ("HEXUC", "validate_hex_text"): "same",
    ("HEX", "validate_hex_text"): "same",
}


CFG_EXEMPT = {
    "B16ByteString": "byte-string literals only occur in JSON validation as controllers of the additional controls",
    "B64ByteString": "same", "UTF8ByteString": "same",
}


def diff_tables(ctx, rid, text, floor, jrows, crows, keyf):
    ctx.rule(rid, text, floor=floor)
    j = {keyf(r): r for r in jrows}
    c = {keyf(r): r for r in crows}
    for k in sorted(set(j) | set(c)):
        a, b = j.get(k), c.get(k)
        if a is None or b is None:
            continue
        ctx.site(rid, k, a["file"], a["line"], {"json": a["verdict"], "cbor": b["verdict"]})
        if a["verdict"].startswith("unknown") or b["verdict"].startswith("unknown"):
            ctx.incomplete_msg(rid, "%s: not evaluable" % k)
        elif a["verdict"] != b["verdict"]:
            ctx.violation(rid, k, a["file"], a["line"],
                          "validators disagree at %s: JSON source evaluates to %s, CBOR source to %s" % (k, a["verdict"], b["verdict"]))


def r_tables(ctx):
    f = ctx.facts
    diff_tables(ctx, "C04.cmp", "literal comparison tables of JSON and CBOR visit_value agree on every (kind, ctrl, order type)", 100,
                vt.cmp_table(f, "json"), vt.cmp_table(f, "cbor"), lambda r: "%s|%s|%s" % (r["kind"], r["ctrl"], r["point"]))
    diff_tables(ctx, "C04.range", "range tables of JSON and CBOR visit_range agree on every (bound kinds, inclusive, order type)", 85,
                vt.range_table(f, "json"), vt.range_table(f, "cbor"),
                lambda r: "%s|%s|%s|%s" % (r["bounds"], "incl" if r["incl"] else "excl", r["doc"], r["point"]))
    diff_tables(ctx, "C04.occur", "seq_match_entry tables of both validators agree on every (occurrence, iterations available)", 80,
                vt.seq_entry_table(f, "json"), vt.seq_entry_table(f, "cbor"), lambda r: "%s|k=%s" % (r["occur"], r["iterations_available"]))
    diff_tables(ctx, "C04.seq", "seq_match_group / seq_match_group_choice tables of both validators agree", 10,
                vt.seq_choice_tables(f, "json"), vt.seq_choice_tables(f, "cbor"), lambda r: "%s|%s" % (r["fn"], r["script"]))


def r_arms(ctx):
    f = ctx.facts
    for fn, enum, only, rid, floor in (("visit_control_operator", "ControlOperator", cv.CBOR_ONLY_CTRL, "C04.ctrl", 30),
                                       ("visit_type2", "Type2", cv.CBOR_ONLY_TYPE2, "C04.type2", 14)):
        ctx.rule(rid, "arm sets of %s over %s are equal in both validators except the documented CBOR-only variants %s"
                 % (fn, enum, sorted(only)), floor=floor)
        fj, (mj, vj, wj) = cv.dispatch_arms(f, "json", fn, enum)
        fc, (mc, vc, wc) = cv.dispatch_arms(f, "cbor", fn, enum)
        for v in sorted(set(vj) | set(vc)):
            ctx.site(rid, v, fj.file, (vj.get(v) or vc.get(v))["l"], {"json": v in vj, "cbor": v in vc})
            if v in only:
                if v in vj:
                    ctx.violation(rid, v + "|json-has-cbor-only", fj.file, vj[v]["l"], "JSON validator handles CBOR-only %s::%s" % (enum, v))
                continue
            if (v in vj) != (v in vc):
                side = "JSON" if v not in vj else "CBOR"
                ctx.violation(rid, v, fj.file if side == "JSON" else fc.file, (fj if side == "JSON" else fc).line,
                              "%s::%s has an arm in one validator only (%s lacks it): the shared feature set diverges" % (enum, v, side))
            # cfg of the arms must agree too
            if v in vj and v in vc:
                cj, cc = sorted(set(vj[v].get("cfg") or [])), sorted(set(vc[v].get("cfg") or []))
                if cj != cc and v not in CFG_EXEMPT:
                    ctx.violation(rid, v + "|cfg", fj.file, vj[v]["l"], "%s::%s arm is under cfg %s in JSON but %s in CBOR" % (enum, v, cj, cc))


def r_methods(ctx):
    rid = "C04.methods"
    ctx.rule(rid, "both `impl Visitor` blocks override the same method set", floor=14)
    f = ctx.facts
    sets = {}
    for w in ("json", "cbor"):
        file, ty = vt.VIS[w]
        sets[w] = {fi.name: fi for fi in f.fns(file) if fi.impl_self == ty and fi.impl_trait == "Visitor"}
    for m in sorted(set(sets["json"]) | set(sets["cbor"])):
        fi = sets["json"].get(m) or sets["cbor"].get(m)
        ctx.site(rid, m, fi.file, fi.line, {"json": m in sets["json"], "cbor": m in sets["cbor"]})
        if (m in sets["json"]) != (m in sets["cbor"]):
            ctx.violation(rid, m, fi.file, fi.line, "Visitor::%s is overridden by one validator only" % m)


def transitive_helpers(f, which, node, helpers, depth=3):
    file, ty = vt.VIS[which]
    methods = {fi.name: fi for fi in f.fns(file) if fi.impl_self == ty and fi.impl_trait is None}
    out = set()
    seen = set()

    def rec(n, d):
        for x in vf.walk(n):
            if x["k"] == "call" and x["f"]["k"] == "path":
                nm = x["f"]["p"].split("::")[-1]
                if nm in helpers:
                    out.add(nm)
            if x["k"] == "mcall" and vf.src(x["r"]) == "self" and x["m"] in methods and d > 0 and x["m"] not in seen:
                seen.add(x["m"])
                rec(methods[x["m"]].node, d - 1)
    rec(node, depth)
    return out


def r_helpers(ctx):
    rid = "C04.helpers"
    ctx.rule(rid, "for every control operator both validators implement, the set of shared helper functions "
                  "(validator/control.rs, validator/mod.rs) reached from its arm (through self methods, depth <= 3) is the same", floor=25)
    f = ctx.facts
    helpers = set()
    for file in ("src/validator/control.rs", "src/validator/mod.rs"):
        for fi in f.fns(file):
            if not fi.in_test and fi.impl_self is None:
                helpers.add(fi.name)
    fj, (mj, vj, wj) = cv.dispatch_arms(f, "json", "visit_control_operator", "ControlOperator")
    fc, (mc, vc, wc) = cv.dispatch_arms(f, "cbor", "visit_control_operator", "ControlOperator")
    for v in sorted(set(vj) & set(vc)):
        hj = transitive_helpers(f, "json", vj[v]["body"], helpers)
        hc = transitive_helpers(f, "cbor", vc[v]["body"], helpers)
        ctx.site(rid, v, fj.file, vj[v]["l"], {"json": sorted(hj), "cbor": sorted(hc)})
        for h in sorted(hj ^ hc):
            if (v, h) in HELPER_EXEMPT:
                continue
            side = "JSON" if h in hj else "CBOR"
            ctx.violation(rid, "%s|%s" % (v, h), fj.file if side == "JSON" else fc.file, (vj if side == "JSON" else vc)[v]["l"],
                          "control %s reaches shared helper %s only in the %s validator" % (v, h, side))


CTRL_FILE = "src/validator/control.rs"
JSON_FILE = "src/validator/json.rs"


def _run_free(f, name, env, scripts):
    """interpret free function `name` of control.rs on env with scripted callees"""
    import absint
    fi = f.fn(CTRL_FILE, name)

    def on_call(kind, nm, node, args, recv):
        base = (nm or "").split("::")[-1]
        if kind == "method" and nm in scripts:
            return scripts[nm](node, recv, args)
        if kind == "fn" and (nm in scripts or base in scripts):
            return (scripts.get(nm) or scripts[base])(node, None, args)
        return NotImplemented
    it = absint.Interp(env=env, cfg=vt.cfg_fn("default"), on_call=on_call)
    try:
        return it.block(fi.node["body"])
    except absint.Return as r:
        return r.v


def r_encctl(ctx):
    import absint
    rid = "C04.encctl"
    ctx.rule(rid, "the text-encoding controls .b64u/.b64c(-sloppy) and .hex/.hexlc/.hexuc are implemented twice (JSONValidator::validate_b64_control "
                  "/ validate_hex_control and control.rs validate_b64u_text / validate_b64c_text / validate_hex_text for CBOR): for every outcome "
                  "of the strict decode (equal bytes / other bytes / error), of the sloppy decode, and every letter-case class of the text, both "
                  "accept exactly when RFC 9741 does (strict decode equal; or sloppy and sloppy decode equal; case as demanded) — abstract "
                  "evaluation of both sources with the decoders scripted", floor=60)
    f = ctx.facts
    V, W = ("str", "V"), ("str", "W")
    outcomes = {"eq": V, "ne": W, "err": None}
    # ---- base64
    for classic in (False, True):
        for sloppy in (False, True):
            for strict in outcomes:
                for slop in outcomes:
                    key = "b64|classic=%s|sloppy=%s|strict=%s|sloppydecode=%s" % (classic, sloppy, strict, slop)
                    want = strict == "eq" or (strict == "err" and sloppy and slop == "eq")

                    calls = [0]

                    def dec(node, recv, args, strict=strict, slop=slop, calls=calls):
                        # 1st decode = the strict attempt; a 2nd decode of the same text (padding stripped) = the sloppy attempt;
                        # any further decode works on a shortened text and yields a proper prefix of the real content
                        calls[0] += 1
                        o = outcomes[strict] if calls[0] == 1 else outcomes[slop] if calls[0] == 2 else ("str", "")
                        return ("Ok", o) if o is not None else ("Err", ("str", "e"))

                    def sl(node, recv, args, slop=slop):
                        return ("Some", outcomes[slop]) if outcomes[slop] is not None else ("None",)
                    scripts = {"decode": dec, "decode_b64_sloppy": sl, "encode": lambda n, r, a: ("str", "ENC")}
                    try:
                        ctrl = ("enum", "Type2::B16ByteString", {"value": V})
                        res = _run_free(f, "validate_b64c_text" if classic else "validate_b64u_text",
                                        {"__target": absint.OPAQUE, "controller": ctrl, "text_value": ("str", "TXT"), "is_sloppy": sloppy}, scripts)
                        cbor = res == ("Ok", True)
                        if res not in (("Ok", True), ("Ok", False)):
                            raise absint.Unknown("helper returned %r" % (res,))
                        calls[0] = 0
                        run = vt.ObjRun(f, JSON_FILE, "JSONValidator", scripts={"decode": lambda r, it, node, recv: dec(node, recv, None),
                                                                                "encode": lambda r, it, node, recv: ("str", "ENC"),
                                                                                "decode_b64_sloppy": lambda r, it, node, args: sl(node, None, args)})
                        obj = vt.self_obj("json", ("enum", "Value::String", [("str", "TXT")]))
                        run.call("validate_b64_control", obj, {"bytes": V, "is_classic": classic, "is_sloppy": sloppy})
                        js = run.errors == 0
                    except (absint.Unknown, vf.Incomplete) as e:
                        ctx.incomplete_msg(rid, "%s: %s" % (key, e))
                        continue
                    ctx.site(rid, key, CTRL_FILE, f.fn(CTRL_FILE, "validate_b64u_text").line, {"json": js, "cbor": cbor, "rfc9741": want})
                    if js != cbor:
                        ctx.violation(rid, key + "|diverge", JSON_FILE, run.fn("validate_b64_control").line,
                                      "base64 control (%s): JSON %s, CBOR helper %s" % (key, "accepts" if js else "rejects", "accepts" if cbor else "rejects"))
                    elif js != want:
                        ctx.violation(rid, key + "|rfc", CTRL_FILE, f.fn(CTRL_FILE, "validate_b64u_text").line,
                                      "base64 control (%s): both validators %s, RFC 9741 %s" % (key, "accept" if js else "reject", "accepts" if want else "rejects"))
    # ---- hex
    texts = {"lower": "6a", "upper": "6A", "digits": "61", "mixed": "aA"}
    for case in ("Any", "Lower", "Upper"):
        for strict in outcomes:
            for tname, txt in texts.items():
                key = "hex|case=%s|decode=%s|text=%s" % (case, strict, tname)
                case_ok = case == "Any" or (case == "Lower" and not any(c.isupper() for c in txt)) or (case == "Upper" and not any(c.islower() for c in txt))
                want = strict == "eq" and case_ok

                def dec(node, recv, args, strict=strict):
                    return ("Ok", outcomes[strict]) if outcomes[strict] is not None else ("Err", ("str", "e"))
                try:
                    ctrl = ("enum", "Type2::UTF8ByteString", {"value": V})
                    res = _run_free(f, "validate_hex_text", {"__target": absint.OPAQUE, "controller": ctrl, "text_value": ("str", txt),
                                                             "case_type": ("enum", "HexCase::" + case, [])}, {"decode": dec})
                    if res not in (("Ok", True), ("Ok", False)):
                        raise absint.Unknown("helper returned %r" % (res,))
                    cbor = res == ("Ok", True)
                    run = vt.ObjRun(f, JSON_FILE, "JSONValidator", scripts={"decode": lambda r, it, node, args: dec(node, None, args),
                                                                            "encode": lambda r, it, node, args: ("str", "ENC"),
                                                                            "encode_upper": lambda r, it, node, args: ("str", "ENC")})
                    obj = vt.self_obj("json", ("enum", "Value::String", [("str", txt)]))
                    run.call("validate_hex_control", obj, {"bytes": V, "case": ("enum", "HexCase::" + case, [])})
                    js = run.errors == 0
                except (absint.Unknown, vf.Incomplete) as e:
                    ctx.incomplete_msg(rid, "%s: %s" % (key, e))
                    continue
                ctx.site(rid, key, CTRL_FILE, f.fn(CTRL_FILE, "validate_hex_text").line, {"json": js, "cbor": cbor, "rfc9741": want})
                if js != cbor:
                    ctx.violation(rid, key + "|diverge", JSON_FILE, run.fn("validate_hex_control").line,
                                  "hex control (%s): JSON %s, CBOR helper %s" % (key, "accepts" if js else "rejects", "accepts" if cbor else "rejects"))
                elif js != want:
                    ctx.violation(rid, key + "|rfc", CTRL_FILE, f.fn(CTRL_FILE, "validate_hex_text").line,
                                  "hex control (%s): both validators %s, RFC 9741 %s" % (key, "accept" if js else "reject", "accepts" if want else "rejects"))


def r_ctlbytes(ctx):
    import absint
    rid = "C04.ctlbytes"
    ctx.rule(rid, "JSONValidator::visit_type2 on a byte-string literal controller (h'..', '..', b64'..') under each text-encoding control hands "
                  "the literal's decoded `value` unchanged to validate_b64_control / validate_hex_control (the CBOR helpers compare with "
                  "`value` too): no second decoding or re-encoding of the controller", floor=20)
    f = ctx.facts
    fi = vt.visitor_fn(f, "json", "visit_type2")
    atom = ("str", "VALUE-BYTES")
    for kind in ("B16ByteString", "UTF8ByteString", "B64ByteString"):
        for ctrl in ("B64U", "B64C", "B64USLOPPY", "B64CSLOPPY", "HEX", "HEXLC", "HEXUC"):
            key = "%s|%s" % (kind, ctrl)
            got = []

            def rec(run, node, recv, got=got):
                got.append(run.it.eval(node["a"][0]))
                return ("Ok", ("tuple", []))
            obj = vt.self_obj("json", ("enum", "Value::String", [("str", "TXT")]), ctrl=vt.ctrl_val(ctrl))
            t2 = ("enum", "Type2::" + kind, {"value": atom})
            r = vt.Run(f, "json", "default", {}, {"self": obj, "t2": t2},
                       scripts={"validate_b64_control": rec, "validate_hex_control": rec,
                                # any re-interpretation of the literal's bytes yields a different value
                                "std::str::from_utf8": lambda run, node, args: ("Ok", ("str", "TEXT-OF-VALUE")),
                                "core::str::from_utf8": lambda run, node, args: ("Ok", ("str", "TEXT-OF-VALUE")),
                                "hex::decode": lambda run, node, args: ("Ok", ("str", "HEX-DECODED-AGAIN")),
                                "hex::encode": lambda run, node, args: ("str", "HEX-ENCODED")})
            try:
                r.run(fi.node)
            except absint.Unknown as e:
                ctx.incomplete_msg(rid, "%s: %s" % (key, e))
                continue
            ctx.site(rid, key, fi.file, fi.line, {"passed": repr(got)[:60], "errors": r.errors})
            if len(got) != 1 or got[0] != atom or r.errors:
                ctx.violation(rid, key, fi.file, fi.line, "JSON visit_type2 on %s under .%s passes %r to the encoding check (expected the literal's "
                              "value unchanged, once); %d error(s) recorded before the check" % (kind, ctrl.lower(), got, r.errors))


def r_root(ctx):
    # both validate() functions satisfy the root rule (reported under C04 as sibling agreement)
    cv.root_rule(ctx, "C04j", "json")
    cv.root_rule(ctx, "C04c", "cbor")


def run(ctx):
    ctx.guarded("C04.tables", r_tables)
    ctx.guarded("C04.arms", r_arms)
    ctx.guarded("C04.methods", r_methods)
    ctx.guarded("C04.helpers", r_helpers)
    ctx.guarded("C04.encctl", r_encctl)
    ctx.guarded("C04.ctlbytes", r_ctlbytes)
    import c09
    ctx.guarded("C04.bareword", lambda c: c09.r_bareword(c, "C04.bareword"))
    # the repeating-member bounds of map tables (`*N tstr => T`): both validators against the same oracle, hence against each other
    ctx.guarded("C04.repeatcount", lambda c: c09.r_repeatcount(c, "C04.repeatcount"))
    import c08
    ctx.guarded("C04.groupref", lambda c: c08.r_groupref(c, rid="C04.groupref"))
    import common_val
    ctx.guarded("C04.choicerollback", lambda c: common_val.choicerollback_rule(c, "C04"))
