"""C09 — operator, occurrence and prelude identities (structural clauses)."""
import json
import os

import absint
import common_val as cv
import valtables as vt
import vf
from absint import OPAQUE

META = {
    "level": "other",
    "explanation": (
        "Identities decided on abstractly evaluated tables of both validators: .ne is the exact complement of "
        "equality on every order type; inclusive and exclusive ranges differ exactly at value = upper bound; the "
        "occurrence shorthands ?,*,+ give the same sequence-matcher/entry-count/member-count behaviour as 0*1, 0*, 1*; "
        "every site that discriminates on a shorthand Occur variant also handles the Exact form; the prelude "
        "classification predicates accept exactly the RFC 8610 Appendix D names of their class. A / B, .and and .within "
        "on composite operands are not decided (two runs of a stateful visitor)."),
    "assumptions": ["spec/rfc8610_prelude.json transcribes RFC 8610 Appendix D"],
    "trusted_base": ["syn 2 parser", "lib/absint.py", "spec/rfc8610_prelude.json"],
    "technique": "static analysis: abstract interpretation over order types, variant-coverage census, table agreement with RFC 8610 App. D",
}

MOD = "src/validator/mod.rs"


def r_eqne(ctx):
    rid = "C09.eqne"
    ctx.rule(rid, "for each validator and literal kind, `.ne` accepts exactly the order types plain equality rejects", floor=30)
    for w in ("json", "cbor"):
        rows = vt.cmp_table(ctx.facts, w)
        t = {(r["kind"], r["ctrl"], r["point"]): r for r in rows}
        for (kind, ctrl, point), r in sorted(t.items()):
            if ctrl != "none":
                continue
            ne = t.get((kind, "NE", point))
            if ne is None:
                continue
            key = "%s|%s|%s" % (w, kind, point)
            ctx.site(rid, key, r["file"], r["line"], {"eq": r["verdict"], "ne": ne["verdict"]})
            if r["verdict"].startswith("unknown") or ne["verdict"].startswith("unknown"):
                ctx.incomplete_msg(rid, key + ": not evaluable")
            elif r["verdict"] == ne["verdict"]:
                ctx.violation(rid, key, r["file"], r["line"],
                              "%s validator, %s literal, document %s literal: both `T .eq v` and `T .ne v` %s" % (w, kind, point, r["verdict"]))


def r_range(ctx):
    rid = "C09.range"
    ctx.rule(rid, "for each validator, bound kind and order type, `l..u` and `l...u` give different verdicts exactly when value = upper bound", floor=60)
    for w in ("json", "cbor"):
        rows = vt.range_table(ctx.facts, w)
        t = {}
        for r in rows:
            t[(r["bounds"], r["doc"], r["point"], r["incl"])] = r
        for (b, d, p, incl), r in sorted(t.items()):
            if not incl:
                continue
            e = t[(b, d, p, False)]
            key = "%s|%s|%s|%s" % (w, b, d, p)
            ctx.site(rid, key, r["file"], r["line"], {"inclusive": r["verdict"], "exclusive": e["verdict"]})
            if r["verdict"].startswith("unknown") or e["verdict"].startswith("unknown"):
                ctx.incomplete_msg(rid, key + ": not evaluable")
                continue
            at_upper = p in ("v=u", "l=u=v") or p.startswith("v=u=")
            differ = r["verdict"] != e["verdict"]
            # if the inclusive form rejects v=u as well (a defect of the inclusive form, reported by C01/C02.range)
            # the two cannot differ there; only report the identity itself
            if differ and not at_upper:
                ctx.violation(rid, key, r["file"], r["line"], "%s: `..` %ss but `...` %ss although value != upper bound (%s)" % (w, r["verdict"], e["verdict"], p))
            if at_upper and not differ and r["verdict"] == "accept":
                ctx.violation(rid, key, r["file"], r["line"], "%s: `...` accepts value = upper bound (%s, %s)" % (w, b, d))


EQUIV = [("?", "0*1"), ("*", "0*"), ("+", "1*"), ("*", "Exact{None,None}")]


def r_occur(ctx):
    rid = "C09.occur"
    ctx.rule(rid, "seq_match_entry gives identical results for ? and 0*1, * and 0*, + and 1* on every number of available iterations", floor=40)
    for w in ("json", "cbor"):
        rows = vt.seq_entry_table(ctx.facts, w)
        t = {(r["occur"], r["iterations_available"]): r for r in rows}
        for a, b in EQUIV:
            for k in (0, 1, 2, 3, 4, 5, "Z"):
                ra, rb = t.get((a, k)), t.get((b, k))
                if ra is None or rb is None:
                    continue
                key = "%s|%s~%s|k=%s" % (w, a, b, k)
                ctx.site(rid, key, ra["file"], ra["line"], {a: ra["verdict"], b: rb["verdict"]})
                if ra["verdict"] != rb["verdict"]:
                    ctx.violation(rid, key, ra["file"], ra["line"], "%s seq_match_entry: `%s` gives %s but `%s` gives %s with %s iterations available" % (w, a, ra["verdict"], b, rb["verdict"], k))


def r_repeatcount(ctx, rid="C09.repeatcount"):
    ctx.rule(rid, "validate_repeating_member_count records an error exactly when count < lower bound, and repeating_member_upper_bound "
                  "returns the upper bound, for shorthand and Exact forms alike (abstract evaluation, both validators)", floor=40)
    for w in ("json", "cbor"):
        fi = vt.visitor_fn(ctx.facts, w, "validate_repeating_member_count")
        fu = vt.visitor_fn(ctx.facts, w, "repeating_member_upper_bound")
        for o in vt.OCCURS:
            mn, mx = vt.oracle_minmax(o)
            occ = vt.occ_val(o)
            occurrence = ("Some", ("enum", "Occurrence", {"occur": occ[1]})) if o is not None else ("None",)
            entry = ("enum", "ValueMemberKeyEntry", {"occur": occurrence, "member_key": OPAQUE})
            for cnt in (0, 1, 2, 3):
                r = vt.Run(ctx.facts, w, "default", {}, {"entry": entry, "count": cnt})
                key = "%s|%s|count=%d" % (w, vt.occ_name(o), cnt)
                try:
                    r.run(fi.node)
                except absint.Unknown as e:
                    ctx.incomplete_msg(rid, "%s: %s" % (key, e))
                    continue
                exp_err = o is not None and cnt < mn
                ctx.site(rid, key, fi.file, fi.line, {"errors": r.errors})
                if (r.errors > 0) != exp_err:
                    ctx.violation(rid, key, fi.file, fi.line, "%s validate_repeating_member_count(%s, count=%d) records %d error(s); lower bound is %d"
                                  % (w, vt.occ_name(o), cnt, r.errors, mn))
            r = vt.Run(ctx.facts, w, "default", {}, {"entry": entry})
            key = "%s|%s|upper" % (w, vt.occ_name(o))
            try:
                v = r.run(fu.node)
            except absint.Unknown as e:
                ctx.incomplete_msg(rid, "%s: %s" % (key, e))
                continue
            ctx.site(rid, key, fu.file, fu.line, {"upper": v})
            exp = ("Some", mx) if (mx is not None and o is not None) else ("None",)
            # `?` is not a repeating member; callers treat None as unbounded only for repeating forms
            if o is not None and o[0] == "Optional":
                continue
            if v != exp:
                ctx.violation(rid, key, fu.file, fu.line, "%s repeating_member_upper_bound(%s) = %r, expected %r" % (w, vt.occ_name(o), v, exp))


SHORT = {"Optional", "ZeroOrMore", "OneOrMore"}
PAIRS = [(("Optional", None, None), ("Exact", 0, 1)), (("Optional", None, None), ("Exact", None, 1)),
         (("ZeroOrMore", None, None), ("Exact", 0, None)), (("ZeroOrMore", None, None), ("Exact", None, None)),
         (("OneOrMore", None, None), ("Exact", 1, None))]


def occur_units(f, file):
    """units = match expressions, if/else-if chains and matches! whose patterns name Occur variants.
    Each unit: (fn, node, kind, [(scrutinee_src, pattern)])"""
    units = []
    for fi in f.fns(file):
        if fi.in_test:
            continue
        chain_members = set()
        for n in vf.walk(fi.node):
            if n["k"] == "if" and id(n) not in chain_members:
                conds = []
                cur = n
                while cur is not None and cur["k"] == "if":
                    chain_members.add(id(cur))
                    got = None
                    for x in vf.walk(cur["c"]):
                        if x["k"] == "let":
                            got = (vf.src(x["e"]), x["pat"])
                            break
                        if x["k"] == "macro" and "pat" in x:
                            got = (vf.src(x["e"]), x["pat"])
                            break
                    conds.append(got)
                    cur = cur.get("e")
                units.append((fi, n, "if", conds))
            elif n["k"] == "match":
                units.append((fi, n, "match", [(vf.src(n["e"]), a["pat"]) for a in n["arms"] if absint.default_cfg_all(a)]))
            elif n["k"] == "macro" and "pat" in n:
                units.append((fi, n, "matches!", [(vf.src(n["e"]), n["pat"])]))
    out = []
    for fi, n, kind, conds in units:
        vs = set()
        for c in conds:
            if c is None:
                continue
            for x in vf.walk(c[1]):
                pp = x.get("p")
                if isinstance(pp, str) and "Occur::" in pp:
                    vs.add(pp.split("::")[-1])
        if vs & (SHORT | {"Exact"}):
            out.append((fi, n, kind, conds, vs))
    return out


def branch_of(conds, occ):
    """index of the first condition/arm whose pattern matches the occurrence value (guards ignored);
    a scrutinee spelled with `.take()` yields the value once and None afterwards"""
    it = absint.Interp()
    # is the scrutinee an Option<Occur>?  decided by the outermost constructor of the patterns (a nested `lower: Some(_)` does not count)
    wrapped = any(c is not None and any(vf.pat_path(alt) in ("Some", "None") for alt in vf.pat_alternatives(c[1])) for c in conds)
    val = vt.occ_val(occ)
    taken = set()
    for i, c in enumerate(conds):
        if c is None or "occur" not in c[0]:
            continue
        scrut, pat = c
        v = val if wrapped else val[1]
        if ".take()" in scrut:
            if scrut in taken:
                v = ("None",)
            taken.add(scrut)
        try:
            m = it.match(v, pat)
        except absint.Unknown:
            continue
        if m is not None:
            return i
    return -1


def arm_value(n, conds, idx, occ):
    """value of arm idx of match n on the occurrence value, when the arm body is a pure expression the interpreter can
    evaluate to a bool/int; None otherwise"""
    arms = [a for a in n["arms"] if absint.default_cfg_all(a)]
    if idx >= len(arms):
        return None
    wrapped = any(vf.pat_path(alt) in ("Some", "None") for alt in vf.pat_alternatives(arms[idx]["pat"]))
    val = vt.occ_val(occ)
    it = absint.Interp()
    try:
        m = it.match(val if wrapped else val[1], arms[idx]["pat"])
        if m is None:
            return None
        it.scopes[-1].update(m)
        v = it.eval(arms[idx]["body"])
    except (absint.Unknown, absint.Return, absint.Break, absint.Continue):
        return None
    return v if isinstance(v, (bool, int)) else None


def r_occursites(ctx):
    rid = "C09.occursites"
    ctx.rule(rid, "in every match / if-let chain / matches! in src/validator whose patterns name Occur variants, an occurrence shorthand "
                  "and its spelled-out n*m form select the same branch: ? ~ 0*1 ~ *1, * ~ 0* ~ Exact{None,None}, + ~ 1* "
                  "(pattern-level evaluation; `.take()` scrutinees yield their value once)", floor=15)
    f = ctx.facts
    rv = json.load(open(os.path.join(vf.VERIF, "spec", "occur_sites_reviewed.json")))
    reviewed = dict(rv["not_observable"])
    reviewed.update(rv["normalising"])
    sigs = rv.get("signatures", {})
    for file in ("src/validator/json.rs", "src/validator/cbor.rs", "src/validator/mod.rs"):
        counts = {}
        sites = []
        for fi, n, kind, conds, vs in occur_units(f, file):
            base = "%s|%s|%s|{%s}" % (file.split("/")[-1], fi.qual, kind, ",".join(sorted(vs)))
            i = counts.get(base, 0)
            counts[base] = i + 1
            key = "%s#%d" % (base, i)
            res = {}
            bad = []
            pairs = []
            for a, b in PAIRS:
                ba, bb = branch_of(conds, a), branch_of(conds, b)
                res["%s~%s" % (vt.occ_name(a), vt.occ_name(b))] = (ba, bb)
                if ba != bb and kind == "match" and ba >= 0 and bb >= 0:
                    # different arms whose bodies are pure expressions with the same value agree (a classification helper)
                    va, vb = arm_value(n, conds, ba, a), arm_value(n, conds, bb, b)
                    if va is not None and va == vb:
                        res["%s~%s" % (vt.occ_name(a), vt.occ_name(b))] = (ba, bb, "same value %r" % (va,))
                        continue
                if ba != bb:
                    bad.append("%s->branch %d but %s->branch %d" % (vt.occ_name(a), ba, vt.occ_name(b), bb))
                    pairs.append("%s~%s" % (vt.occ_name(a), vt.occ_name(b)))
            ctx.site(rid, key, file, n["l"], {"variants": sorted(vs), "branches": res})
            sites.append((key, fi, n, kind, sorted(vs), bad, sorted(pairs)))
        present = {k for k, *_ in sites}
        used = set()
        for key, fi, n, kind, vs, bad, pairs in sites:
            if not bad or key in reviewed:
                continue
            # a reviewed site that was rewritten (if-let <-> match <-> matches!) or moved into a helper keeps its review: same file, same
            # Occur variants named, same pairs of forms told apart, and the reviewed site itself is gone
            short = file.split("/")[-1]
            moved = [rk for rk in reviewed if rk.startswith(short + "|") and rk not in present and rk not in used
                     and rk.split("|")[-1].split("#")[0] == "{%s}" % ",".join(vs) and sigs.get(rk) == pairs]
            same_fn = [rk for rk in moved if rk.split("|")[1] == fi.qual]
            pick = (same_fn or moved or [None])[0]
            if pick is not None:
                used.add(pick)
                ctx.site(rid, key + "|reviewed-as", file, n["l"], {"reviewed_site": pick})
                continue
            ctx.violation(rid, key, file, n["l"], "%s (%s at this site): %s" % (fi.qual, kind, "; ".join(bad)))


def token_sets_of_predicates(f):
    """for each is_ident_* / ident_* predicate in validator/mod.rs: the set of Token variants it accepts directly"""
    out = {}
    for fi in f.fns(MOD):
        if fi.in_test or fi.impl_self is not None:
            continue
        if not (fi.name.startswith("is_ident_") or fi.name.startswith("ident_")):
            continue
        toks = set()
        for n in vf.walk(fi.node):
            p = n.get("p")
            if n["k"] in ("ppath", "pts", "pstruct", "pid") and isinstance(p, str) and p.startswith("Token::"):
                toks.add(p.split("::")[1])
        out[fi.name] = (toks, fi)
    return out


def r_prelude(ctx):
    rid = "C09.prelude"
    ctx.rule(rid, "each prelude classification predicate of validator/mod.rs accepts exactly the Token set of the RFC 8610 Appendix D "
                  "names belonging to its class (spec/rfc8610_prelude.json)", floor=15)
    spec = json.load(open(os.path.join(vf.VERIF, "spec", "rfc8610_prelude.json")))
    preds = token_sets_of_predicates(ctx.facts)
    for name, want in spec["predicates"].items():
        if name not in preds:
            raise vf.Incomplete("predicate %s not found in %s" % (name, MOD))
        toks, fi = preds[name]
        ctx.site(rid, name, MOD, fi.line, {"accepts": sorted(toks), "rfc": sorted(want["tokens"])})
        for t in sorted(set(want["tokens"]) - toks):
            ctx.violation(rid, "%s|missing:%s" % (name, t), MOD, fi.line,
                          "%s does not accept Token::%s although RFC 8610 App. D puts it in the class (%s)" % (name, t, want["why"]))
        for t in sorted(toks - set(want["tokens"])):
            ctx.violation(rid, "%s|extra:%s" % (name, t), MOD, fi.line,
                          "%s accepts Token::%s which RFC 8610 App. D does not put in the class (%s)" % (name, t, want["why"]))
    for name in preds:
        if name not in spec["predicates"] and name not in spec.get("unclassified", {}):
            ctx.violation(rid, "%s|unspecified" % name, MOD, preds[name][1].line, "predicate %s has no entry in spec/rfc8610_prelude.json" % name)


BW_OCCS = [None, ("Optional", None, None), ("ZeroOrMore", None, None), ("OneOrMore", None, None), ("Exact", 0, 1), ("Exact", None, 1),
           ("Exact", 0, None), ("Exact", 1, None), ("Exact", 2, 3)]


def r_bareword(ctx, rid="C09.bareword"):
    ctx.rule(rid, "visit_identifier (JSON and CBOR) on a map document, as a member key, for an identifier that is neither a rule, a prelude "
                  "type nor a key-domain type (a bareword key `k:`): under every occurrence form (none, ?, *, +, 0*1, *1, 0*, 1*, 2*3) the "
                  "identifier is handed to visit_value as the text key exactly once and that result is returned — a bareword key keeps "
                  "its meaning whatever occurrence precedes it (abstract evaluation with scripted classification predicates)", floor=18)
    f = ctx.facts
    for which in ("json", "cbor"):
        fi = vt.visitor_fn(f, which, "visit_identifier")
        for occ in BW_OCCS:
            key = "%s|%s" % (which, vt.occ_name(occ) if occ else "none")
            doc = ("enum", "Value::Object" if which == "json" else "Value::Map", [absint.OPAQUE])
            obj = vt.self_obj(which, doc)
            st = obj[2]["state"][2]
            st.update({"occurrence": vt.occ_val(occ) if occ else ("None",), "is_member_key": True, "is_colon_shortcut_present": True,
                       "data_location": ("str", ""), "visited_rules": absint.PyMap(), "is_cut_present": False})
            obj[2].update({"validating_value": False, "cut_value": ("None",), "claimed_map_entries": absint.MutList(),
                           "map_entry_candidates": ("None",), "object_value": ("None",), "validated_keys": ("None",)})
            seen = []

            def visit_value(run, node, recv, seen=seen):
                a = run.it.eval(node["a"][0])
                seen.append(a)
                return ("Ok", ("tuple", []))
            scripts = {"visit_value": visit_value, "find_single_map_entry": lambda run, node, recv: ("None",),
                       "in_standard_prelude": lambda run, node, recv: ("None",), "contains": lambda run, node, recv: False}
            r = vt.Run(f, which, "default", {}, {"self": obj, "ident": ("enum", "Identifier", {"ident": ("str", "k"), "socket": ("None",)})}, scripts=scripts)
            base = r.on_call

            def on_call(kind, name, node, args, recv, base=base):
                if kind == "fn" and name:
                    b = name.split("::")[-1]
                    if b.startswith("is_ident_") or b.startswith("ident_"):
                        return ("None",) if b == "ident_numeric_kind" else False
                    if b in ("rule_from_ident",):
                        return ("None",)
                    if b == "type_choice_types_from_ident":
                        return absint.MutList()
                    if b == "lookup_ident":
                        return ("enum", "Token::IDENT", [("str", "k"), ("None",)])
                return base(kind, name, node, args, recv)
            r.it.on_call = on_call
            try:
                res = r.run(fi.node)
            except absint.Unknown as e:
                ctx.incomplete_msg(rid, "%s: %s" % (key, e))
                continue
            texts = [a for a in seen if isinstance(a, tuple) and a[:1] == ("enum",) and a[1].endswith("Value::TEXT") and a[2] and a[2][0] in (("str", "k"), "k")]
            ctx.site(rid, key, fi.file, fi.line, {"visit_value_calls": len(seen), "result": repr(res)[:40], "errors": r.errors})
            if len(seen) != 1 or len(texts) != 1 or res != ("Ok", ("tuple", [])) or r.errors:
                ctx.violation(rid, key, fi.file, fi.line,
                              "%s visit_identifier on a map with bareword key `k` under occurrence %s: visit_value called %d time(s) with the text key "
                              "(expected exactly once), result %r, %d error(s) — the entry is ignored or misread"
                              % (which, vt.occ_name(occ) if occ else "none", len(texts), res, r.errors))


def r_absent(ctx, rid="C09.absent", cfgs=("default",)):
    ctx.rule(rid, "a map member with a literal key that is absent from the map (validate_object_value / the Map arm of CBOR visit_value): the "
                  "member is skipped exactly when its occurrence allows zero occurrences — ?, *, and n*m with n = 0 or omitted alike — and is "
                  "reported as a missing key otherwise (abstract evaluation%s)" % ("" if cfgs == ("default",) else ", under the default and the ast-span-less configuration"),
             floor=18 * len(cfgs))
    for which in ("json", "cbor"):
        tables = {}
        for cfgname in cfgs:
            rows = vt.absent_key_table(ctx.facts, which, cfgname)
            tables[cfgname] = rows
            for r in rows:
                key = "%s|%s|%s" % (which, cfgname, r["occ"])
                if r["verdict"].startswith("unknown"):
                    ctx.incomplete_msg(rid, "%s: %s" % (key, r["verdict"]))
                    continue
                ctx.site(rid, key, r["file"], r["line"], {"verdict": r["verdict"], "rfc": r["expected"]})
                if r["verdict"] != r["expected"]:
                    ctx.violation(rid, key, r["file"], r["line"], "%s validator (%s configuration): an absent literal-key member with occurrence %s is %s; "
                                  "RFC 8610 section 3.2: %s" % (which, cfgname, r["occ"], r["verdict"], r["expected"]))
        # the occurrence in force after the member was skipped: a member without an indicator of its own inherits whatever is left in
        # state.occurrence, so the configurations must leave the same thing behind
        base = {r["occ"]: r for r in tables[cfgs[0]]}
        for cfgname in cfgs:
            for r in tables[cfgname]:
                b = base.get(r["occ"])
                if b is None or r["verdict"].startswith("unknown") or b["verdict"].startswith("unknown"):
                    continue
                key = "%s|%s|%s|occurrence-after" % (which, cfgname, r["occ"])
                if "unknown" in (r.get("occ_after"), b.get("occ_after")):
                    ctx.incomplete_msg(rid, "%s: the occurrence left in force after the member could not be evaluated" % key)
                    continue
                if len(cfgs) == 1:
                    if r["verdict"] == "skipped" and r["occ_after"] == "kept":
                        ctx.site(rid, key, r["file"], r["line"], None)
                        ctx.violation(rid, key, r["file"], r["line"], "%s validator: after an absent member with occurrence %s is skipped its occurrence "
                                      "indicator stays in state.occurrence; the next member without an indicator of its own inherits it (a required "
                                      "member is then treated as optional)" % (which, r["occ"]))
                    continue
                if cfgname == cfgs[0]:
                    continue
                ctx.site(rid, key, r["file"], r["line"], None)
                if r["occ_after"] != b["occ_after"]:
                    ctx.violation(rid, key, r["file"], r["line"], "%s validator: after an absent member with occurrence %s, state.occurrence is %s under the "
                                  "default configuration but %s under %s — the next member without an indicator inherits a different occurrence"
                                  % (which, r["occ"], b["occ_after"], r["occ_after"], cfgname))


def r_typekey_absent(ctx, rid="C09.typekey-absent"):
    ctx.rule(rid, "JSON visit_identifier as the member key of `tstr => v` on an object with no unclaimed entry, under the default and the "
                  "ast-span-less configuration: without an occurrence the missing entry is an error; under `?` it is skipped "
                  "(advance_to_next_entry) and state.occurrence is cleared, so that the next member without an indicator of its own does "
                  "not inherit the `?`; under *, 0*1, *1, 0* no error is raised (abstract evaluation with scripted classification "
                  "predicates)", floor=12)
    f = ctx.facts
    which = "json"
    fi = vt.visitor_fn(f, which, "visit_identifier")
    for cfgname in ("default", "no-ast-span"):
        for occ in BW_OCCS:
            oname = vt.occ_name(occ) if occ else "none"
            if not (occ is None or vt.oracle_allows_absence(occ)):
                continue
            key = "%s|%s|%s" % (which, cfgname, oname)
            m = absint.PyMap()
            m.is_map = True
            obj = vt.self_obj(which, ("enum", "Value::Object", [m]))
            st = obj[2]["state"][2]
            st.update({"occurrence": vt.occ_val(occ) if occ else ("None",), "is_member_key": True, "is_colon_shortcut_present": False,
                       "data_location": ("str", ""), "visited_rules": absint.PyMap(), "is_cut_present": False, "advance_to_next_entry": False})
            obj[2].update({"validating_value": False, "cut_value": ("None",), "object_value": ("None",), "validated_keys": ("None",),
                           "values_to_validate": ("None",)})
            scripts = {"in_standard_prelude": lambda run, node, recv: ("Some", ("str", "tstr")), "contains": lambda run, node, recv: False}
            r = vt.Run(f, which, cfgname, {}, {"self": obj, "ident": ("enum", "Identifier", {"ident": ("str", "tstr"), "socket": ("None",)})}, scripts=scripts)
            base = r.on_call

            def on_call(kind, name, node, args, recv, base=base):
                if kind == "fn" and name:
                    b = name.split("::")[-1]
                    if b == "is_ident_string_data_type":
                        return True
                    if b.startswith("is_ident_") or b.startswith("ident_"):
                        return ("None",) if b == "ident_numeric_kind" else False
                    if b == "rule_from_ident":
                        return ("None",)
                    if b == "type_choice_types_from_ident":
                        return absint.MutList()
                    if b == "lookup_ident":
                        return ("enum", "Token::TSTR", [])
                return base(kind, name, node, args, recv)
            r.it.on_call = on_call
            try:
                res = r.run(fi.node)
            except absint.Unknown as e:
                ctx.incomplete_msg(rid, "%s: %s" % (key, e))
                continue
            nerr = r.errors + len(obj[2]["errors"])
            after = st.get("occurrence")
            adv = st.get("advance_to_next_entry")
            if absint.has_opaque(after) or absint.has_opaque(adv) or absint.has_opaque(res):
                ctx.incomplete_msg(rid, "%s: the state after the call could not be evaluated" % key)
                continue
            ctx.site(rid, key, fi.file, fi.line, {"errors": nerr, "advance": adv is True, "occurrence_after": repr(after)[:40]})
            if occ is None:
                if nerr == 0:
                    ctx.violation(rid, key, fi.file, fi.line, "json visit_identifier (%s): a `tstr => v` member without an occurrence and no entry left to "
                                  "take raises no error" % cfgname)
                continue
            if nerr:
                ctx.violation(rid, key, fi.file, fi.line, "json visit_identifier (%s): an absent `%s tstr => v` member raises %d error(s); the occurrence "
                              "allows zero entries" % (cfgname, oname, nerr))
            elif occ[0] == "Optional" and (adv is not True or after != ("None",)):
                ctx.violation(rid, key, fi.file, fi.line, "json visit_identifier (%s): after an absent `? tstr => v` member advance_to_next_entry is %r and "
                              "state.occurrence is %s — the `?` stays in force for the next member, whose missing key is then excused (`? x` and "
                              "`0*1 x` stop being interchangeable)" % (cfgname, adv, "cleared" if after == ("None",) else "still set"))


def r_numkey(ctx, rid="C09.numkey"):
    ctx.rule(rid, "numeric_ident_matches_cbor_value (the predicate that matches map keys against a numeric type-domain key such as `nint => v`): "
                  "for every prelude numeric name x every integer across the 65-bit CBOR range (-2^64, -2^63-1, -2^63, -1, 0, 1, 2^63-1, "
                  "2^63, 2^64-1) and a float, the result equals RFC 8610 Appendix D — uint / unsigned the non-negative integers, nint the "
                  "negative ones down to -2^64, int / integer every integer, number integers and floats, float the floats (abstract "
                  "evaluation; the classification predicates answer by name)", floor=60)
    f = ctx.facts
    cands = [x for x in f.fns("src/validator/cbor.rs") if x.name == "numeric_ident_matches_cbor_value" and not x.in_test]
    if not cands:
        raise vf.Incomplete("numeric_ident_matches_cbor_value not found")
    fi = cands[0]
    ints = [-2**64, -2**63 - 1, -2**63, -1, 0, 1, 2**63 - 1, 2**63, 2**64 - 1]
    classes = {"uint": ("int", lambda v: v >= 0), "unsigned": ("int", lambda v: v >= 0), "nint": ("int", lambda v: v < 0), "int": ("int", lambda v: True),
               "integer": ("int", lambda v: True), "number": ("both", lambda v: True), "float": ("float", None), "float64": ("float", None), "tstr": (None, None)}
    for name, (kind, pred) in classes.items():
        for doc in ints + ["float"]:
            key = "%s|%s" % (name, doc)
            v = ("enum", "Value::Float", [1.5]) if doc == "float" else ("enum", "Value::Integer", [doc])

            def on_call(knd, nm, node, args, recv, name=name, kind=kind):
                if knd == "fn" and nm:
                    b = nm.split("::")[-1]
                    if b == "ident_numeric_kind":
                        return ("None",) if kind is None else ("Some", ("enum", "NumericKind::" + {"int": "Int", "float": "Float", "both": "Both"}[kind], []))
                    if b == "is_ident_uint_data_type":
                        return name in ("uint",)
                    if b == "is_ident_nint_data_type":
                        return name == "nint"
                    if b.startswith("is_ident_"):
                        return False
                    if b == "lookup_ident":
                        return ("enum", "Token::" + name.upper(), [])
                    if nm in ("i128::from", "i64::from", "u64::from") and args and isinstance(args[0], int):
                        return args[0]
                if knd == "method" and isinstance(recv, tuple) and recv[:1] == ("enum",) and isinstance(recv[1], str) and recv[1].startswith("NumericKind::"):
                    k = recv[1].split("::")[-1]
                    if nm == "admits_int":
                        return k in ("Int", "Both")
                    if nm == "admits_float":
                        return k in ("Float", "Both")
                return NotImplemented
            it = absint.Interp(env={"cddl": absint.OPAQUE, "ident": ("enum", "Identifier", {"ident": ("str", name), "socket": ("None",)}), "v": v}, on_call=on_call)
            it.resolve_fn = vf.new_fn_resolver(f, ["src/validator/cbor.rs", "src/validator/mod.rs"], absint.default_cfg)
            try:
                try:
                    res = it.block(fi.node["body"])
                except absint.Return as r:
                    res = r.v
            except absint.Unknown as e:
                ctx.incomplete_msg(rid, "%s: %s" % (key, e))
                continue
            if not isinstance(res, bool):
                ctx.incomplete_msg(rid, "%s: result %r" % (key, res))
                continue
            want = (kind in ("float", "both")) if doc == "float" else (kind in ("int", "both") and pred(doc))
            ctx.site(rid, key, fi.file, fi.line, {"matches": res})
            if res != want:
                ctx.violation(rid, key, fi.file, fi.line, "numeric_ident_matches_cbor_value(%s, %s) is %r; RFC 8610 Appendix D: %s %s this value — a map key of that "
                              "value is %s by the member `%s => ...`" % (name, doc, res, name, "contains" if want else "does not contain",
                                                                         "not claimed" if want else "wrongly claimed", name))


def run(ctx):
    ctx.guarded("C09.eqne", r_eqne)
    ctx.guarded("C09.range", r_range)
    ctx.guarded("C09.occur", r_occur)
    ctx.guarded("C09.repeatcount", r_repeatcount)
    ctx.guarded("C09.occursites", r_occursites)
    ctx.guarded("C09.bareword", r_bareword)
    ctx.guarded("C09.absent", r_absent)
    ctx.guarded("C09.typekey-absent", r_typekey_absent)
    ctx.guarded("C09.prelude", r_prelude)
    ctx.guarded("C09.numkey", r_numkey)
    ctx.guarded("C09.ctrlrestore.json", lambda c: cv.ctrlrestore_rule(c, "C09j", "json"))
    ctx.guarded("C09.ctrlrestore.cbor", lambda c: cv.ctrlrestore_rule(c, "C09c", "cbor"))
