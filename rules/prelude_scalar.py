"""Prelude identifiers against scalar / tagged documents: abstract evaluation of visit_identifier of both validators with the
classification predicates of validator/mod.rs and token::lookup_ident interpreted from their own source (on a schema with no
user rules), compared with RFC 8610 Appendix D (spec/rfc8610_prelude_defs.json)."""
import json
import os

import absint
import valtables as vt
import vf
from absint import Interp, MutList, OPAQUE, Return, Unknown

MOD = "src/validator/mod.rs"
TOK = "src/token.rs"
AST = "src/ast/mod.rs"


def spec():
    return json.load(open(os.path.join(vf.VERIF, "spec", "rfc8610_prelude_defs.json")))


class Helpers:
    """interprets free functions of validator/mod.rs and token.rs (lookup_ident) on an empty rule list"""

    def __init__(self, facts, cfgname="default"):
        self.facts = facts
        self.cfg = vt.cfg_fn(cfgname)
        self.free = {}
        for file in (MOD, TOK):
            for fi in facts.fns(file):
                if fi.in_test or fi.impl_self is not None:
                    continue
                if all(self.cfg(c) for c in fi.cfg):
                    self.free.setdefault(fi.name, fi)
        self.methods = {}
        for fi in facts.fns(MOD):
            if fi.impl_self == "NumericKind" and not fi.in_test:
                self.methods[fi.name] = fi
        self.depth = 0

    def call(self, name, args):
        fi = self.free[name]
        names = [inp["pat"]["n"] if "pat" in inp and inp["pat"]["k"] == "pid" else None for inp in fi.node["sig"]["inputs"]]
        return self._run(fi, {n: a for n, a in zip(names, args) if n})

    def _run(self, fi, env):
        self.depth += 1
        if self.depth > 25:
            raise Unknown("helper recursion")
        it = Interp(env=env, cfg=self.cfg, on_call=self.on_call)
        try:
            return it.block(fi.node["body"])
        except Return as r:
            return r.v
        finally:
            self.depth -= 1

    def on_call(self, kind, name, node, args, recv):
        if kind == "fn" and name:
            base = name.split("::")[-1]
            if base in self.free and (base.startswith("is_ident_") or base.startswith("ident_") or base == "lookup_ident"):
                return self.call(base, args)
            if name.startswith("NumericKind::") and base in self.methods:
                return self._run(self.methods[base], {"self": args[0]})
        if kind == "method" and name in self.methods and isinstance(recv, tuple) and recv[:1] == ("enum",) and "NumericKind" in recv[1]:
            return self._run(self.methods[name], {"self": recv})
        return NotImplemented


CDDL_EMPTY = ("enum", "CDDL", {"rules": MutList()})


def ident(name):
    return ("enum", "Identifier", {"ident": ("str", name), "socket": ("None",)})


def run_ident(facts, which, helpers, name, doc, nested=None):
    """returns (errors, delegated) of visit_identifier(name) on doc; `delegated` = token names handed to the TaggedData path"""
    fi = vt.visitor_fn(facts, which, "visit_identifier")
    obj = vt.self_obj(which, doc)
    st = obj[2]["state"][2]
    st.update({"cddl": CDDL_EMPTY, "is_member_key": False, "is_colon_shortcut_present": False, "data_location": ("str", ""),
               "visited_rules": absint.PyMap(), "is_cut_present": False, "occurrence": ("None",)})
    obj[2].update({"validating_value": False, "cut_value": ("None",)})
    delegated = []

    def visit_type2(run, node, recv):
        a = run.it.eval(node["a"][0])
        delegated.append(a)
        return ("Ok", ("tuple", []))
    scripts = {"visit_type2": visit_type2,
               # content syntax checks of dependencies (RFC 3339 / RFC 3986 / base64url parsers): the content is well-formed
               "parse_from_rfc3339": lambda run, node, args: ("Ok", OPAQUE), "chrono::DateTime::parse_from_rfc3339": lambda run, node, args: ("Ok", OPAQUE),
               "uriparse::URI::try_from": lambda run, node, args: ("Ok", OPAQUE), "URI::try_from": lambda run, node, args: ("Ok", OPAQUE),
               "base64_url::decode": lambda run, node, args: ("Ok", OPAQUE),
               "timestamp_millis_opt": lambda run, node, recv: ("enum", "chrono::LocalResult::Single", [OPAQUE]),
               "timestamp_opt": lambda run, node, recv: ("enum", "chrono::LocalResult::Single", [OPAQUE]),
               "contains": lambda run, node, recv: False,        # visited_rules: nothing visited yet
               "try_into": lambda run, node, recv: ("Ok", recv), "trunc": lambda run, node, recv: recv, "fract": lambda run, node, recv: 0.0,
               "tag_from_token": lambda run, node, args: tagdef(args[0])}
    r = vt.Run(facts, which, "default", {}, {"self": obj, "ident": ident(name)}, scripts=scripts)
    base = r.on_call

    def on_call(kind, nm, node, args, recv):
        if kind == "fn" and nm:
            b = nm.split("::")[-1]
            if b in ("rule_from_ident", "unwrap_rule_from_ident"):
                return ("None",)
            if b == "type_choice_types_from_ident":
                return MutList()
            if b in helpers.free and (b.startswith("is_ident_") or b.startswith("ident_") or b == "lookup_ident"):
                return helpers.call(b, args)
            if b == "numeric_ident_matches_cbor_value":
                # free classification helper of cbor.rs: interpreted from its source with the same call table
                hf = facts.fn(vt.VIS[which][0], b)
                names = [inp["pat"]["n"] if "pat" in inp and inp["pat"]["k"] == "pid" else None for inp in hf.node["sig"]["inputs"]]
                sub = Interp(env={n: a for n, a in zip(names, args) if n}, cfg=r.it.cfg, on_call=on_call)
                try:
                    return sub.block(hf.node["body"])
                except Return as rr:
                    return rr.v
        h = helpers.on_call(kind, nm, node, args, recv)
        if h is not NotImplemented:
            return h
        return base(kind, nm, node, args, recv)
    r.it.on_call = on_call
    r.run(fi.node)
    return r.errors + len(obj[2]["errors"]), delegated


def tagdef(tok):
    """scripted ast::tag_from_token: the token itself stands for its TaggedData definition (the real table is decided by the
    tagtable rule); non-tagged tokens yield None exactly as the real function must"""
    name = tok[1].split("::")[-1] if isinstance(tok, tuple) and tok[:1] == ("enum",) else None
    if name in TAGGED_TOKENS:
        return ("Some", ("tagdef", name))
    return ("None",)


TAGGED_TOKENS = {"TDATE", "TIME", "BIGUINT", "BIGNINT", "DECFRAC", "BIGFLOAT", "EB64URL", "EB64LEGACY", "EB16", "ENCODEDCBOR", "URI", "B64URL",
                 "B64LEGACY", "REGEXP", "MIMEMESSAGE", "CBORANY"}


def cbor_docs():
    I = lambda v: ("enum", "Value::Integer", [v])
    T = ("enum", "Value::Text", [("str", "x")])
    B = ("enum", "Value::Bytes", [("bytes", 1)])
    docs = {"uint": I(5), "nint": I(-6), "float": ("enum", "Value::Float", [1.5]), "text": T, "bytes": B,
            "false": ("enum", "Value::Bool", [False]), "true": ("enum", "Value::Bool", [True]), "null": ("enum", "Value::Null", [])}
    for n, (ck, cv) in {0: ("text", T), 1: ("uint", I(5)), 2: ("bytes", B), 3: ("bytes", B), 5: ("uint", I(1)), 21: ("uint", I(1)), 24: ("bytes", B),
                        32: ("text", T), 33: ("text", T), 35: ("text", T), 55799: ("uint", I(1)), 99: ("uint", I(1))}.items():
        docs["tag%d(%s)" % (n, ck)] = ("enum", "Value::Tag", [n, cv])
    docs["tag1(float)"] = ("enum", "Value::Tag", [1, ("enum", "Value::Float", [1.5])])
    docs["tag0(uint)"] = ("enum", "Value::Tag", [0, I(5)])
    docs["tag1(text)"] = ("enum", "Value::Tag", [1, T])
    return docs


def json_docs():
    N = lambda x: ("enum", "Value::Number", [vt.json_number(x)])
    return {"uint": N(5), "uint@above-i64": N(2**63), "nint": N(-6), "float": N(1.5), "text": ("enum", "Value::String", [("str", "x")]),
            "false": ("enum", "Value::Bool", [False]), "true": ("enum", "Value::Bool", [True]), "null": ("enum", "Value::Null", [])}


def accepts(defs, name, dk, json_mode):
    """RFC 8610 Appendix D: does prelude name `name` admit a document of kind dk"""
    d = defs[name]
    if "alias" in d:
        return accepts(defs, d["alias"], dk, json_mode)
    if "choice" in d:
        return any(accepts(defs, x, dk, json_mode) for x in d["choice"])
    if d.get("any"):
        return True
    if "kind" in d:
        return dk in d["kind"]
    if "tag" in d:
        if json_mode:
            # JSON has no tags: the README documents the content type as the JSON reading of tdate/time/uri/b64url
            return accepts_content(defs, d["content"], dk, json_mode)
        if not dk.startswith("tag"):
            return False
        n, ck = dk[3:].rstrip(")").split("(")
        return int(n) == d["tag"] and accepts_content(defs, d["content"], ck, json_mode)
    raise KeyError(name)


def accepts_content(defs, content, ck, json_mode):
    if content == "any":
        return True
    if content == "array":
        return False        # array contents are not part of the scalar domain
    return accepts(defs, content, ck, json_mode)


def rule(ctx, prop, which):
    rid = "%s.prelude" % prop
    sp = spec()
    defs = sp["defs"]
    names = [n for n in defs if not (which == "json" and n not in sp["json_names"])]
    ctx.rule(rid, "%s visit_identifier on every RFC 8610 Appendix D prelude name x every scalar%s document kind: the verdict equals the "
                  "Appendix D definition of the name (a tagged type needs its tag and content; an untagged item never matches a "
                  "tagged type%s) — abstract evaluation of the source with the classification predicates of validator/mod.rs and "
                  "token::lookup_ident interpreted from their own source on a schema without user rules"
                  % (which, " and tagged" if which == "cbor" else "", "" if which == "cbor" else "; JSON has no tags and reads tdate/uri/b64url as strings, time as a number"),
             floor=250 if which == "cbor" else 90)
    helpers = Helpers(ctx.facts)
    docs = cbor_docs() if which == "cbor" else json_docs()
    fi = vt.visitor_fn(ctx.facts, which, "visit_identifier")
    for name in names:
        for dk, dv in docs.items():
            key = "%s|%s" % (name, dk)
            try:
                errors, delegated = run_ident(ctx.facts, which, helpers, name, dv)
            except Unknown as e:
                ctx.incomplete_msg(rid, "%s: %s" % (key, e))
                continue
            want = accepts(defs, name, dk.split("@")[0], which == "json")
            if delegated:
                # handed to the TaggedData arm with the name's own definition: decided by C02.tagged / C02.tagtable
                d = delegated[0]
                tokname = d[1] if isinstance(d, tuple) and d[:1] == ("tagdef",) else None
                got = None
                if tokname is not None and errors == 0:
                    tdef = defs[sp["token_names"][tokname]]
                    got = accepts(defs, sp["token_names"][tokname], dk.split("@")[0], False) if "tag" in tdef else None
                if got is None:
                    ctx.incomplete_msg(rid, "%s: delegated to visit_type2 with %r" % (key, d))
                    continue
                verdict = got
                how = "delegated to the TaggedData definition of %s" % sp["token_names"][tokname]
            else:
                verdict = errors == 0
                how = "%d error(s)" % errors
            ctx.site(rid, key, fi.file, fi.line, {"verdict": "accept" if verdict else "reject", "how": how, "rfc": "accept" if want else "reject"})
            if verdict != want:
                cls = "tag" if dk.startswith("tag") else dk
                ctx.violation(rid, "%s|%s|%s" % (name, cls, "accepts" if verdict else "rejects"), fi.file, fi.line,
                              "%s validator %ss a %s document for the prelude type %s (%s); RFC 8610 Appendix D: %s = %s"
                              % (which, "accept" if verdict else "reject", dk, name, how, name, defs[name].get("text", "?")))


def tagtable_rule(ctx, rid="C02.tagtable"):
    ctx.rule(rid, "ast::tag_from_token maps each prelude token of a tagged type to Type2::TaggedData with the tag number and content type "
                  "of RFC 8610 Appendix D, and every other token to None (abstract evaluation of the source)", floor=16)
    sp = spec()
    defs = sp["defs"]
    f = ctx.facts
    fi = f.fn(AST, "tag_from_token")
    enum = f.item(TOK, "enum", "Token")
    rev = {v: k for k, v in sp["token_names"].items()}
    for v in enum["variants"]:
        tname = v["name"]
        if v.get("fields"):
            continue
        calls = []

        def on_call(kind, nm, node, args, recv, calls=calls):
            if kind == "fn" and nm and nm.split("::")[-1] in ("type_from_token", "array_type_from_tokens"):
                calls.append((nm.split("::")[-1], args))
                return ("typeof", nm.split("::")[-1], args)
            return NotImplemented
        it = Interp(env={"token": ("enum", "Token::" + tname, [])}, cfg=vt.cfg_fn("default"), on_call=on_call)
        try:
            try:
                res = it.block(fi.node["body"])
            except Return as r:
                res = r.v
        except Unknown as e:
            ctx.incomplete_msg(rid, "%s: %s" % (tname, e))
            continue
        name = sp["token_names"].get(tname)
        d = defs.get(name) if name else None
        want_tag = d["tag"] if d and "tag" in d else None
        got_tag = None
        content = None
        if isinstance(res, tuple) and res[0] == "Some":
            td = res[1]
            if isinstance(td, tuple) and td[:2] == ("enum", "Type2::TaggedData"):
                tg = td[2].get("tag")
                if isinstance(tg, tuple) and tg[0] == "Some" and isinstance(tg[1], tuple) and tg[1][1].endswith("TagConstraint::Literal"):
                    got_tag = tg[1][2][0]
                t = td[2].get("t")
                if isinstance(t, tuple) and t[0] == "typeof":
                    a = t[2][0]
                    if t[1] == "type_from_token" and isinstance(a, tuple) and a[:1] == ("enum",):
                        content = sp["token_names"].get(a[1].split("::")[-1], a[1].split("::")[-1].lower())
                    else:
                        content = "array"
        ctx.site(rid, tname, AST, fi.line, {"tag": got_tag, "content": content, "rfc_tag": want_tag, "rfc_content": d.get("content") if d else None})
        if got_tag != want_tag:
            ctx.violation(rid, "%s|tag" % tname, AST, fi.line, "tag_from_token(Token::%s) gives tag %r, RFC 8610 Appendix D: %r" % (tname, got_tag, want_tag))
        elif want_tag is not None and content != d["content"]:
            ctx.violation(rid, "%s|content" % tname, AST, fi.line, "tag_from_token(Token::%s) gives content type %r, RFC 8610 Appendix D: %r"
                          % (tname, content, d["content"]))
