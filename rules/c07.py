"""C07 — literals denote exactly the RFC value or the document is rejected (structural clauses)."""
import json
import os

import absint
import pestg
import vf
from absint import Interp, OPAQUE, Return, Unknown

META = {
    "level": "other",
    "explanation": (
        "On the literal decoders of src/pest_bridge.rs (all cfg twins): (intwrap) parse_int_lit / parse_uint_lit are abstractly "
        "interpreted on the boundary magnitudes 0, 1, 2^63-1, 2^63, 2^63+1, 2^64-1 with parse_u64_lit as the trusted primitive: "
        "the value is exact or the result is None; (single) integer/float text is decoded only in the designated functions; "
        "(narrow) no `as` cast to an integer type is applied to a decoded literal in the decoder set except the reviewed ones; "
        "(finite) a parsed f64 reaches the AST only through an is_finite test; (discipline) no fallible conversion has its failure "
        "case silently skipped (`if let Ok(..) = conv {..}` without else); (slices) the fixed-offset slices that strip literal "
        "delimiters agree with the delimiter lengths of the grammar rule that produced the pair. Exact numeric/byte value of every "
        "spelling (semantics of from_str_radix, f64::from_str, data_encoding) is trusted, not decided."),
    "assumptions": ["u64::from_str_radix / str::parse / hexf_parse / data_encoding decode exactly or fail (trusted std/deps)"],
    "trusted_base": ["syn 2 parser", "pest_meta grammar parser", "lib/absint.py"],
    "technique": "static analysis: abstract interpretation on boundary values, who-may-call, cast census, must-pass-through, failure-consumption classification of every fallible conversion, grammar/slice agreement, producer/consumer representation agreement of byte-string payloads",
}

B = "src/pest_bridge.rs"
DECODER_SET = ["parse_u64_lit", "parse_uint_lit", "parse_int_lit", "convert_number_to_type2", "convert_value_to_type2", "unescape_text", "try_unescape_text",
               "hex_decode", "base64_decode", "clean_prefixed_byte_string", "convert_bytes_value_to_type2", "convert_tag_expr",
               "convert_occurrence", "convert_member_key_simple"]
INT_TYPES = {"i8", "u8", "i16", "u16", "i32", "u32", "i64", "u64", "isize", "usize", "i128", "u128"}
MAGS = [0, 1, 5, 2**63 - 1, 2**63, 2**63 + 1, 2**64 - 1]


def run_fn(fi, env, scripts):
    def on_call(kind, name, node, args, recv):
        if kind == "fn" and name in scripts:
            return scripts[name](args)
        return NotImplemented
    it = Interp(env=env, on_call=on_call)
    try:
        return it.block(fi.node["body"])
    except Return as r:
        return r.v


def r_intwrap(ctx):
    rid = "C07.intwrap"
    ctx.rule(rid, "parse_int_lit(\"-m\") = Some(-m) iff m <= 2^63 else None; parse_int_lit(\"m\") = Some(m) iff m < 2^63 else None; "
                  "parse_uint_lit(\"m\") = Some(m) for every m < 2^64; never a wrapped or truncated value (abstract evaluation, "
                  "parse_u64_lit trusted)", floor=20)
    f = ctx.facts
    table = {}

    def p64(args):
        s = args[0]
        if isinstance(s, tuple) and s[:1] == ("str",) and s[1] in table:
            return ("Some", table[s[1]])
        if isinstance(s, tuple) and s[:1] == ("str",) and s[1] == "overflow":
            return ("None",)
        raise Unknown("parse_u64_lit on %r" % (s,))
    for i, m in enumerate(MAGS):
        table["M%d" % i] = m
    for fn, neg in (("parse_int_lit", True), ("parse_int_lit", False), ("parse_uint_lit", False)):
        for fi in f.fn_all(B, fn):
            for i, m in enumerate(MAGS + ["overflow"]):
                text = ("-" if neg else "") + ("M%d" % i if m != "overflow" else "overflow")
                key = "%s|%s%s" % (fn, "-" if neg else "", m)
                try:
                    v = run_fn(fi, {"s": ("str", text)}, {"parse_u64_lit": p64})
                except Unknown as e:
                    ctx.incomplete_msg(rid, "%s: %s" % (key, e))
                    continue
                if m == "overflow":
                    exp = ("None",)
                elif fn == "parse_uint_lit":
                    exp = ("Some", m)
                elif neg:
                    exp = ("Some", -m) if m <= 2**63 else ("None",)
                else:
                    exp = ("Some", m) if m < 2**63 else ("None",)
                ctx.site(rid, key, B, fi.line, {"result": repr(v), "expected": repr(exp)})
                if v != exp:
                    ctx.violation(rid, key, B, fi.line, "%s on a literal of magnitude %s%s evaluates to %r, the RFC value/rejection is %r"
                                  % (fn, "-" if neg else "", m, v, exp))


def r_single(ctx):
    rid = "C07.single"
    ctx.rule(rid, "integer text is decoded only in parse_u64_lit (from_str_radix / parse), float text only in convert_number_to_type2 "
                  "(parse::<f64>, parse_hexf64); every other function of pest_bridge.rs reaches them through these", floor=4)
    f = ctx.facts
    allowed = {"from_str_radix": {"parse_u64_lit", "unescape_text", "try_unescape_text"}, "parse": {"parse_u64_lit", "convert_number_to_type2"},
               "parse_hexf64": {"convert_number_to_type2"}}
    for fi in f.fns(B):
        if fi.in_test:
            continue
        for n in vf.walk(fi.node):
            name = None
            if n["k"] == "call" and n["f"]["k"] == "path" and n["f"]["p"].split("::")[-1] != "parse":
                name = n["f"]["p"].split("::")[-1]
            elif n["k"] == "mcall" and not (n["m"] == "parse" and n["a"]):
                name = n["m"]
            if name in allowed:
                ctx.site(rid, "%s|%s" % (fi.name, name), B, n["l"], {"call": vf.src(n)[:80]})
                if fi.name.split("::")[0] not in allowed[name]:
                    ctx.violation(rid, "%s|%s" % (fi.qual, name), B, n["l"], "%s decodes literal text with %s outside the designated decoder: position-specific "
                                  "decoders drift apart" % (fi.qual, name))


NARROW_REVIEWED = {
    "convert_tag_expr|d as u8": "d comes from char::to_digit(10): 0..=9",
}


def r_narrow(ctx):
    rid = "C07.narrow"
    ctx.rule(rid, "no `as <integer type>` cast inside the literal decoder set of pest_bridge.rs except a cast of a digit obtained from "
                  "char::to_digit (0..=35, decided by provenance) and the reviewed ones (casts wrap or truncate silently; conversions must "
                  "be try_from)", floor=1)
    f = ctx.facts
    import c05

    def digit_provenance(fi, cast):
        """the cast operand is a closure parameter fed by char::to_digit (0..=35): the value fits every integer type"""
        op = cast["e"]
        while op["k"] in ("paren", "un", "ref"):
            op = op["e"]
        if op["k"] != "path" or "::" in op["p"]:
            return False
        for m in vf.walk(fi.node):
            if m["k"] == "mcall" and m["m"] in ("map", "and_then", "filter_map") and m["a"] and m["a"][0]["k"] == "closure":
                cl = m["a"][0]
                if op["p"] in [x for prm in cl["params"] for x in vf.pat_bindings(prm)] and any(x is cast for x in vf.walk(cl["body"])):
                    return any(x["k"] == "mcall" and x["m"] == "to_digit" for x in vf.walk(m["r"]))
        return False
    reviewed = {k.split("|")[0] + "|" + c05._norm_site(k.split("|", 1)[1]): v for k, v in NARROW_REVIEWED.items()}
    for fn in DECODER_SET:
        for fi in f.fn_all(B, fn):
            for n in vf.walk(fi.node):
                if n["k"] == "cast" and n["ty"] in INT_TYPES:
                    key = "%s|%s" % (fn, vf.src(n)[:60])
                    nkey = "%s|%s" % (fn, c05._norm_site(vf.src(n)[:60]))
                    by_digit = digit_provenance(fi, n)
                    ctx.site(rid, key, B, n["l"], {"cast": vf.src(n)[:80], "operand_from_to_digit": by_digit})
                    if not by_digit and nkey not in reviewed:
                        ctx.violation(rid, key, B, n["l"], "`%s` in %s: a decoded literal is cast with `as`, which wraps instead of rejecting" % (vf.src(n)[:60], fn))
    ctx.site(rid, "decoder-set", B, 1, {"functions": DECODER_SET})


def r_finite(ctx):
    rid = "C07.finite"
    ctx.rule(rid, "convert_number_to_type2 on a float literal: when the standard parser yields a finite value the literal becomes "
                  "Type2::FloatValue with exactly that value; when it yields an infinity (Rust parses out-of-range decimal floats such as "
                  "1e999 to inf) or fails, the document is rejected — never a FloatValue holding inf (abstract evaluation with the "
                  "parser's outcome scripted, both cfg twins)", floor=6)
    f = ctx.facts
    from absint import PyIter
    inf = float("inf")
    for fi in f.fn_all(B, "convert_number_to_type2"):
        cfgk = ",".join(fi.cfg) or "any"
        off = ("lsp", "_build-parser") + (("ast-span",) if 'not(feature="ast-span")' in cfgk else ())
        cfg = lambda c, off=off: absint.eval_cfg(c, lambda ft: ft not in off)
        for label, outcome in (("finite", ("Ok", 1.5)), ("+inf", ("Ok", inf)), ("-inf", ("Ok", -inf)), ("parse error", ("Err", OPAQUE))):
            key = "%s[%s]|%s" % (fi.name, cfgk, label)
            inner = ("enum", "Pair", {"rule": "float_value", "text": "1.5", "children": []})
            pair = ("enum", "Pair", {"rule": "number", "text": "1.5", "children": [inner]})

            def on_call(kind, name, node, args, recv, outcome=outcome):
                if kind == "method" and isinstance(recv, tuple) and recv[:2] == ("enum", "Pair"):
                    d = recv[2]
                    if name == "as_rule":
                        return ("enum", "Rule::" + d["rule"], [])
                    if name == "into_inner":
                        return PyIter(d["children"])
                    if name == "as_str":
                        return ("str", d["text"])
                    if name in ("as_span", "clone"):
                        return OPAQUE if name == "as_span" else recv
                if kind == "method" and name == "parse" and isinstance(recv, tuple) and recv[:1] == ("str",):
                    return outcome
                if kind == "fn" and name and name.split("::")[-1] in ("pest_span_to_position", "pest_span_to_ast_span"):
                    return OPAQUE
                return NotImplemented
            env = {"pair": pair, "input": OPAQUE, "span": OPAQUE}
            it = Interp(env=env, cfg=cfg, on_call=on_call)
            try:
                try:
                    res = it.block(fi.node["body"])
                except Return as r:
                    res = r.v
            except Unknown as e:
                ctx.incomplete_msg(rid, "%s: %s" % (key, e))
                continue
            val = None
            if isinstance(res, tuple) and res[0] == "Ok" and isinstance(res[1], tuple) and res[1][:1] == ("enum",) and isinstance(res[1][2], dict):
                val = res[1][2].get("value")
            ok = isinstance(res, tuple) and res[0] == "Ok"
            ctx.site(rid, key, B, fi.line, {"result": "Ok(%r)" % (val,) if ok else "Err"})
            if label == "finite":
                if not ok or val != 1.5:
                    ctx.violation(rid, "%s[%s]|finite" % (fi.name, cfgk), B, fi.line, "a finite float literal yields %r instead of FloatValue(1.5)" % (res if not ok else val,))
            elif ok:
                ctx.violation(rid, "%s[%s]|float_value" % (fi.name, cfgk), B, fi.line,
                              "%s: when the parser yields %s the literal is stored (FloatValue(%r)) instead of being rejected: `1e999` becomes inf" % (key, label, val))



FALLIBLE = {"from_str_radix", "from_u32", "parse", "try_from", "try_into", "to_digit", "decode", "decode_mut", "decode_len", "from_utf8", "parse_hexf64",
            "parse_u64_lit", "parse_uint_lit", "parse_int_lit", "from_digit", "try_unescape_text"}


PASS_THROUGH = {"ok", "map", "map_err", "filter", "and_then", "ok_or", "ok_or_else", "or_else", "copied", "cloned", "as_ref", "as_deref",
                "into_iter", "iter", "flatten", "collect", "transpose", "then_some"}
SILENT_DEFAULT = {"unwrap_or", "unwrap_or_default", "unwrap_or_else"}


def _parents(root):
    par = {}
    stack = [(root, None)]
    while stack:
        x, p = stack.pop()
        if isinstance(x, dict):
            q = p
            if "k" in x:
                par[id(x)] = p
                q = x
            for v in x.values():
                if isinstance(v, (dict, list)):
                    stack.append((v, q))
        elif isinstance(x, list):
            for v in x:
                if isinstance(v, (dict, list)):
                    stack.append((v, p))
    return par


def _consumption(call, par, fn_node):
    """how the failure of a fallible conversion is consumed: (verdict, idiom)"""
    cur = call
    while True:
        p = par.get(id(cur))
        if p is None:
            return "unknown", "no parent"
        k = p["k"]
        if k == "mcall" and p["r"] is cur:
            if p["m"] in PASS_THROUGH:
                cur = p
                continue
            if p["m"] in SILENT_DEFAULT:
                return "silent", "failure replaced by a default (`.%s`)" % p["m"]
            if p["m"] in ("unwrap", "expect"):
                return "panic", ".%s()" % p["m"]
            if p["m"] in ("is_ok", "is_some", "is_err", "is_none"):
                return "ok", "tested with .%s()" % p["m"]
            return "unknown", "method .%s on the result" % p["m"]
        if k == "try":
            return "ok", "propagated with ?"
        if k == "ret":
            return "ok", "returned to the caller"
        if k == "match" and p["e"] is cur:
            empty = [a for a in p["arms"] if vf.pat_path(a["pat"]) in ("Err", "None") or vf.pat_is_catchall(a["pat"])]
            for a in empty:
                body = a["body"]
                if (body["k"] in ("block", "eblock") and not (body.get("stmts") or body.get("b", {}).get("stmts"))) or (body["k"] == "tuple" and not body.get("e")):
                    return "silent", "match arm for the failure case is empty"
            return "ok", "matched with a failure arm"
        if k == "match":
            cur = p       # value of an arm is the value of the match
            continue
        if k == "let" and p["e"] is cur:
            # `if let` / `while let` condition
            gp = par.get(id(p))
            while gp is not None and gp["k"] == "bin":
                gp = par.get(id(gp))
            head = vf.pat_path(p["pat"])
            if gp is not None and gp["k"] == "if":
                if head in ("Ok", "Some") and gp.get("e") is None:
                    return "silent", "`if let %s(..)` without else" % head
                return "ok", "`if let` with else"
            if gp is not None and gp["k"] == "while":
                return "ok", "`while let` (loop ends on failure)"
            return "unknown", "let-expression in %s" % (gp["k"] if gp else "?")
        if k == "local":
            if p.get("els") is not None:
                return "ok", "`let .. else` diverges"
            if p["pat"]["k"] == "pwild":
                return "silent", "`let _ =` discards the result"
            # bound to a variable: follow no further (the variable is a Result/Option value) -- accepted only when named
            return "bound", "bound to `%s`" % vf.src(p["pat"])[:30]
        if k == "sexpr":
            if p.get("semi"):
                return "silent", "result discarded by `;`"
            return "ok", "tail expression: returned to the caller"
        if k in ("block", "eblock", "arm", "if", "unsafe", "ref", "call", "struct", "fieldval", "tuple", "closure", "macro", "cast", "un", "bin", "field"):
            if k == "block" or k == "eblock":
                # tail of a block: keep climbing (value of the block)
                cur = p
                continue
            if k == "arm" or k == "if":
                cur = p
                continue
            if k == "closure":
                return "ok", "value of a closure (consumed by the adaptor)"
            if k == "call":
                # Some(conv(..)?) / Ok(..) wrappers and helper calls: the result flows into the callee
                cur = p
                continue
            cur = p
            continue
        if k == "fn":
            return "ok", "value of the function: returned to the caller"
        return "unknown", "consumed by a `%s` node" % k


def r_discipline(ctx):
    rid = "C07.discipline"
    ctx.rule(rid, "every fallible conversion in the literal decoder set (from_str_radix, char::from_u32, parse, try_from/try_into, to_digit, "
                  "data-encoding decode, from_utf8, parse_*_lit) has its failure propagated (`?`, returned, `let..else`, match/if-let with "
                  "a failure branch): never `if let Ok/Some(..) = conv {..}` without else, `.unwrap_or*`, `let _ =`, a discarded "
                  "statement or an empty failure arm — the literal would be silently altered instead of rejected", floor=25)
    f = ctx.facts
    for fn in DECODER_SET:
        for fi in f.fn_all(B, fn):
            cfgk = ",".join(fi.cfg) or "any"
            par = _parents(fi.node)
            cnt = {}
            for n in vf.walk(fi.node):
                if n["k"] == "call" and n["f"]["k"] == "path" and n["f"]["p"].split("::")[-1] in FALLIBLE:
                    cname = n["f"]["p"]
                elif n["k"] == "mcall" and n["m"] in FALLIBLE:
                    cname = n["m"]
                else:
                    continue
                base = "%s[%s]|%s" % (fn, cfgk, cname)
                i = cnt.get(base, 0)
                cnt[base] = i + 1
                key = "%s#%d" % (base, i)
                verdict, idiom = _consumption(n, par, fi.node)
                ctx.site(rid, key, B, n["l"], {"call": vf.src(n)[:80], "consumed": idiom})
                if verdict in ("silent", "panic"):
                    ctx.violation(rid, key, B, n["l"], "%s: failure of `%s` is not propagated (%s): the literal's value is altered instead of the "
                                  "document being rejected" % (fn, vf.src(n)[:70], idiom))
                elif verdict == "bound":
                    # a Result/Option bound to a name: every later use is a plain value; accept only when the binding's
                    # pattern is a simple identifier that is itself consumed by `?`, match or if-let-else later in the body
                    name = idiom[len("bound to `"):-1]
                    uses = [u for u in vf.walk(fi.node) if u["k"] in ("try", "match", "mcall") and name and name in vf.src(u.get("e") or u.get("r") or {})]
                    if not uses:
                        ctx.incomplete_msg(rid, "%s: result of `%s` is bound to `%s` and its consumption could not be followed" % (fn, vf.src(n)[:50], name))
                elif verdict == "unknown":
                    ctx.incomplete_msg(rid, "%s: unrecognised consumption of `%s`: %s" % (fn, vf.src(n)[:60], idiom))


REPR_FILES = ("src/validator/json.rs", "src/validator/cbor.rs", "src/validator/control.rs", "src/validator/mod.rs", "src/ast/mod.rs", "src/token.rs")
REPR_VARIANTS = {"Type2::B16ByteString": "base16", "Type2::B64ByteString": "base64", "ByteValue::B16": "base16", "ByteValue::B64": "base64",
                 "ast::Type2::B16ByteString": "base16", "ast::Type2::B64ByteString": "base64", "token::ByteValue::B16": "base16", "token::ByteValue::B64": "base64"}
DECODERS = ("decode", "decode_mut", "decode_len")


def _bound_names(pat):
    """names bound to the payload of a byte-string literal variant inside pattern `pat`: [(variant, name)]"""
    out = []
    for x in vf.walk(pat):
        p = x.get("p")
        if x["k"] in ("pstruct", "pts") and isinstance(p, str) and p in REPR_VARIANTS:
            if x["k"] == "pstruct":
                for fld in x.get("f") or []:
                    if fld.get("n") == "value":
                        out += [(p, n) for n in vf.pat_bindings(fld["pat"])]
            else:
                for sub in x.get("elems") or x.get("e") or []:
                    out += [(p, n) for n in vf.pat_bindings(sub)]
    return out


def r_bytesrepr(ctx):
    rid = "C07.bytesrepr"
    ctx.rule(rid, "the parser stores the *decoded* bytes of h'..' and b64'..' literals (convert_bytes_value_to_type2); every other place that "
                  "takes the payload of Type2::B16ByteString / B64ByteString / ByteValue::B16 / B64 uses it as bytes: it is never passed to a "
                  "base16/base64 decoder again, and no such literal is built from encoder output (a second decoding makes h'61' mean the "
                  "byte that the *text* \"61\" would decode to, or an error)", floor=15)
    f = ctx.facts
    # the producer: the parser must store decoder output
    prod = 0
    for fi in f.fn_all(B, "convert_bytes_value_to_type2"):
        for x in vf.walk(fi.node):
            if x["k"] == "struct" and x.get("p", "").endswith(("B16ByteString", "B64ByteString")):
                prod += 1
                ctx.site(rid, "producer|%s[%s]|%s#%d" % (fi.name, ",".join(fi.cfg) or "any", x["p"].split("::")[-1], prod), B, x["l"], None)
    if prod == 0:
        raise vf.Incomplete("no construction of B16ByteString/B64ByteString found in convert_bytes_value_to_type2")
    for file in REPR_FILES:
        for fi in f.fns(file):
            if fi.in_test:
                continue
            cnt = {}
            for n in vf.walk(fi.node):
                arms = []
                if n["k"] == "match":
                    arms = [(a["pat"], a["body"]) for a in n["arms"]]
                elif n["k"] == "if" and n["c"]["k"] == "let":
                    arms = [(n["c"]["pat"], n["t"])]
                for pat, body in arms:
                    for variant, name in _bound_names(pat):
                        enc = REPR_VARIANTS[variant]
                        for c in vf.walk(body):
                            isdec = (c["k"] == "call" and c["f"]["k"] == "path" and c["f"]["p"].split("::")[-1] in DECODERS) or \
                                    (c["k"] == "mcall" and c["m"] in DECODERS)
                            if not isdec:
                                continue
                            args = c["a"]
                            if not any(any(y["k"] == "path" and y["p"] == name for y in vf.walk(a)) for a in args):
                                continue
                            base = "%s|%s|decode(%s %s)" % (file.split("/")[-1], fi.qual, variant.split("::")[-1], name)
                            i = cnt.get(base, 0)
                            cnt[base] = i + 1
                            key = "%s#%d" % (base, i)
                            ctx.site(rid, key, file, c["l"], {"call": vf.src(c)[:80]})
                            ctx.violation(rid, key, file, c["l"], "%s: the payload `%s` of %s holds decoded bytes but is passed to a %s decoder "
                                          "again (`%s`)" % (fi.qual, name, variant, enc, vf.src(c)[:70]))
            for n in vf.walk(fi.node):
                # constructions from encoder output
                if n["k"] == "call" and n["f"]["k"] == "path" and n["f"]["p"] in REPR_VARIANTS and n["f"]["p"].split("::")[-2] == "ByteValue":
                    srcs = vf.src(n)
                    base = "%s|%s|construct(%s)" % (file.split("/")[-1], fi.qual, n["f"]["p"].split("::")[-1])
                    i = cnt.get(base, 0)
                    cnt[base] = i + 1
                    key = "%s#%d" % (base, i)
                    ctx.site(rid, key, file, n["l"], {"expr": srcs[:80]})
                    if any((x["k"] == "call" and x["f"]["k"] == "path" and "encode" in x["f"]["p"].split("::")[-1]) or (x["k"] == "mcall" and x["m"].startswith("encode"))
                           for x in vf.walk(n)):
                        ctx.violation(rid, key, file, n["l"], "%s: a byte-string literal is built from encoder output (`%s`): its payload would be "
                                      "text, not the bytes it denotes" % (fi.qual, srcs[:70]))


UNESCAPE_CASES = [
    # (literal content between the quotes, decoded string or None = not a text literal of RFC 8610 / 9682)
    ("abc", "abc"), ("a\\nb", "a\nb"), ("\\t\\r\\b\\f", "\t\r\x08\x0c"), ("q\\\"x", "q\"x"), ("b\\\\s", "b\\s"), ("s\\/", "s/"),
    ("\\u0041", "A"), ("\\u00e9", "\u00e9"), ("\\u{41}", "A"), ("\\u{1F600}", "\U0001F600"), ("\\u{10FFFF}", "\U0010FFFF"),
    ("\\uD83D\\uDE00", "\U0001F600"), ("x\\uD83C\\uDC73y", "x\U0001F073y"),
    ("\\uD83D", None), ("\\uD83Dx", None), ("\\uD83D\\u0041", None), ("\\uD800\\uD800", None), ("\\uDC00", None), ("\\uDE00\\uD83D", None),
    ("\\u{110000}", None), ("\\u{D800}", None), ("\\u{FFFFFFFFF}", None),
]


def rfc_unescape(lit):
    """value of the text-literal content per RFC 8610 App. B / RFC 9682 (SESC, hexchar), or None when it is not derivable"""
    out = []
    i = 0
    simple = {'"': '"', "/": "/", "\\": "\\", "b": "\b", "f": "\f", "n": "\n", "r": "\r", "t": "\t"}
    hexd = "0123456789abcdefABCDEF"
    while i < len(lit):
        c = lit[i]
        if c != "\\":
            out.append(c)
            i += 1
            continue
        if i + 1 >= len(lit):
            return None
        e = lit[i + 1]
        if e in simple:
            out.append(simple[e])
            i += 2
            continue
        if e != "u":
            return None
        if lit[i + 2:i + 3] == "{":
            j = lit.find("}", i + 3)
            h = lit[i + 3:j] if j > 0 else ""
            if j < 0 or not h or any(x not in hexd for x in h):
                return None
            v = int(h, 16)
            if v > 0x10FFFF or 0xD800 <= v <= 0xDFFF:
                return None            # hexscalar excludes surrogates; a braced escape never pairs
            out.append(chr(v))
            i = j + 1
            continue
        h = lit[i + 2:i + 6]
        if len(h) != 4 or any(x not in hexd for x in h):
            return None
        v = int(h, 16)
        i += 6
        if 0xD800 <= v <= 0xDBFF:
            l = lit[i + 2:i + 6]
            if lit[i:i + 2] != "\\u" or len(l) != 4 or any(x not in hexd for x in l) or not (0xDC00 <= int(l, 16) <= 0xDFFF):
                return None
            out.append(chr(0x10000 + ((v - 0xD800) << 10) + (int(l, 16) - 0xDC00)))
            i += 6
        elif 0xDC00 <= v <= 0xDFFF:
            return None
        else:
            out.append(chr(v))
    return "".join(out)


def unescape_generated_cases():
    """systematic \\u spellings: braced and classic escapes at the boundaries of the scalar-value ranges, with leading zeros, alone and
    in pairs; the expected value comes from rfc_unescape"""
    vals = ["41", "e9", "D7FF", "D800", "DBFF", "DC00", "DFFF", "E000", "FFFF", "10000", "1F600", "10FFFF", "110000"]
    singles = []
    for v in vals:
        for z in (0, 1, 4, 9):
            singles.append("\\u{%s%s}" % ("0" * z, v))
        singles.append("\\u{%s}" % v.lower())
    for v in ("0041", "D7FF", "D800", "DBFF", "DC00", "DFFF", "E000", "FFFF", "d83d"):
        singles.append("\\u%s" % v)
    halves = ["\\uD83C", "\\uDC73", "\\u{D83C}", "\\u{DC73}", "\\u{00D83C}", "\\u0041", "\\u{41}", "\\uDBFF", "\\uDFFF", "\\uD800", "\\uDC00"]
    pairs = [a + b for a in halves for b in halves]
    # only spellings the grammar's escape_sequence admits reach the function (unterminated or short forms are the grammar's business)
    for lit in singles + pairs + ["\\uD83C\\n", "x\\u{1F600}y"]:
        yield lit, rfc_unescape(lit)


def r_unescape(ctx, rid="C07.unescape"):
    from absint import PyIter
    ctx.rule(rid, "try_unescape_text decodes each escape of a text literal to the character RFC 8610 / RFC 9682 give it (simple escapes, "
                  "\\uXXXX, surrogate pairs, \\u{...}) and rejects what is no Unicode scalar value: an unpaired or wrongly paired surrogate, a "
                  "code point above U+10FFFF, an over-long hex number, a braced surrogate (which never pairs); any number of leading zeros in "
                  "a braced escape is allowed (abstract evaluation of the source on a hand-written table plus systematically generated "
                  "\\u spellings — boundary code points, leading zeros, all pairs of surrogate-like escapes — against an RFC oracle)", floor=200)
    f = ctx.facts
    fi = f.fn(B, "try_unescape_text")
    mod_fns = {x.name: x.node for x in f.fns(B) if x.impl_self is None and not x.in_test and x.name != "try_unescape_text"}

    def text_of(v):
        if isinstance(v, tuple) and v[:1] == ("str",):
            return v[1]
        if isinstance(v, list):
            return "".join(text_of(x) or "" for x in v)
        return getattr(v, "s", None)

    def on_call(kind, name, node, args, recv):
        if kind == "method":
            if name == "chars" and isinstance(recv, tuple) and recv[:1] == ("str",):
                return PyIter([("str", c) for c in recv[1]])
            if name == "push" and isinstance(recv, absint.MutList) and getattr(recv, "kind", "") == "str":
                return NotImplemented
        if kind == "fn" and name:
            b = name.split("::")[-1]
            if b == "from_str_radix":
                t = text_of(args[0])
                try:
                    v = int(t, args[1])
                    return ("Ok", v) if 0 <= v < 2**32 and t and not t.startswith(("+", "-")) else ("Err", OPAQUE)
                except Exception:
                    return ("Err", OPAQUE)
            if b == "from_u32" and isinstance(args[0], int):
                v = args[0]
                return ("Some", ("str", chr(v))) if 0 <= v <= 0x10FFFF and not (0xD800 <= v <= 0xDFFF) else ("None",)
        return NotImplemented
    cases = list(UNESCAPE_CASES)
    known = {l for l, _ in cases}
    cases += [(l, w) for l, w in unescape_generated_cases() if l not in known]
    for lit, want in UNESCAPE_CASES:
        if rfc_unescape(lit) != want:
            raise vf.Incomplete("oracle disagrees with the hand-written table on %r" % lit)
    for lit, want in cases:
        it = Interp(env={"text": ("str", lit)}, on_call=on_call, max_steps=400000)
        it.resolve_fn = lambda nm: mod_fns.get(nm) if "::" not in nm else None
        try:
            try:
                res = it.block(fi.node["body"])
            except Return as r:
                res = r.v
        except Unknown as e:
            ctx.incomplete_msg(rid, "%r: %s" % (lit, e))
            continue
        got = None
        if isinstance(res, tuple) and res[0] == "Some":
            got = text_of(res[1])
        elif res == ("None",):
            got = None
        else:
            ctx.incomplete_msg(rid, "%r: result %r" % (lit, res))
            continue
        ctx.site(rid, lit, B, fi.line, {"decoded": got if got is None else got.encode("unicode_escape").decode(), "rfc": want if want is None else want.encode("unicode_escape").decode()})
        if got != want:
            cls = "accepts-non-scalar" if want is None else ("rejects-valid" if got is None else "wrong-character")
            ctx.violation(rid, "%s|%s" % (cls, lit[:14]), B, fi.line, "try_unescape_text(%r) gives %r; RFC 8610/9682: %s"
                          % (lit, got, "not a text literal (rejected)" if want is None else repr(want)))


def r_slices(ctx):
    rid = "C07.slices"
    ctx.rule(rid, "in convert_value_to_type2 / convert_bytes_value_to_type2 the slice `&text[a..text.len()-b]` that strips the delimiters of a "
                  "Rule::X pair uses a = length of the opening literal and b = length of the closing literal of grammar rule X", floor=8)
    f = ctx.facts
    g = pestg.G(f.grammar())

    def delims(rule):
        e = g.rules[rule]["expr"]
        if e["k"] != "seq":
            return None
        first, last = e["e"][0], e["e"][-1]
        # leading literals may be split ("h" ~ "\"")
        lead = ""
        for x in e["e"]:
            s = g.literal(x)
            if s is None:
                break
            lead += s
        tail = g.literal(last)
        if not lead or tail is None:
            return None
        return len(lead), len(tail)
    for fn in ("convert_value_to_type2", "convert_bytes_value_to_type2"):
        for fi in f.fn_all(B, fn):
            cfgk = ",".join(fi.cfg) or "any"
            for m in vf.find(fi.node, "match"):
                for arm in m["arms"]:
                    p = vf.pat_path(arm["pat"])
                    if not p or not p.startswith("Rule::") or p[6:] not in g.rules:
                        continue
                    for ix in vf.find(arm["body"], "index"):
                        r = ix["i"]
                        if r["k"] != "range" or r.get("a") is None or r.get("b") is None:
                            continue
                        a = r["a"]
                        b = r["b"]
                        if a["k"] != "lit" or b["k"] != "bin" or b["op"] != "-" or b["b"]["k"] != "lit":
                            continue
                        d = delims(p[6:])
                        key = "%s[%s]|%s" % (fn, cfgk, p[6:])
                        got = (int(a["v"]), int(b["b"]["v"]))
                        ctx.site(rid, key, B, ix["l"], {"slice": vf.src(ix), "grammar_delimiters": d})
                        if d is None:
                            ctx.incomplete_msg(rid, "%s: delimiters of grammar rule not literal" % key)
                        elif got != d:
                            ctx.violation(rid, key, B, ix["l"], "%s strips %d leading / %d trailing bytes from a %s pair but the grammar's delimiters are %d / %d "
                                          "bytes long: the literal's content is shifted" % (fn, got[0], got[1], p[6:], d[0], d[1]))


def r_cleanbytes(ctx, rid="C07.cleanbytes"):
    import itertools
    from absint import Interp, Return
    maxlen = 5 if ctx.tier == "quick" else 6
    ctx.rule(rid, "clean_prefixed_byte_string (the body of h'..' / b64'..' before decoding) returns the body without whitespace and without "
                  "comments (`;` up to and including the next line break, or to the end), every other character once and in order — "
                  "RFC 8610 section 3.1 — for every body up to length %d over {digit, letter, `;`, space, line break} plus multi-line "
                  "targeted bodies (abstract evaluation of the function against an independent oracle)" % maxlen, floor=1)
    f = ctx.facts
    B = "src/pest_bridge.rs"
    fis = [x for x in f.fns(B) if x.name == "clean_prefixed_byte_string" and not x.in_test and all(absint.default_cfg(c) for c in x.cfg)]
    if not fis:
        raise vf.Incomplete("clean_prefixed_byte_string not found")
    fi = fis[0]
    resolver = vf.new_fn_resolver(f, [B], cfg=absint.default_cfg)

    def oracle(t):
        out, i = [], 0
        while i < len(t):
            c = t[i]
            if c == ";":
                j = t.find("\n", i)
                i = len(t) if j < 0 else j + 1
                continue
            if not c.isspace():
                out.append(c)
            i += 1
        return "".join(out)

    def run(t):
        def on_call(kind, nm, node, a, recv):
            if kind == "method" and nm == "chars" and isinstance(recv, tuple) and recv[:1] == ("str",):
                return absint.PyIter([("str", c) for c in recv[1]])
            return NotImplemented
        it = Interp(env={"content": ("str", t)}, on_call=on_call)
        it.resolve_fn = resolver
        try:
            v = it.block(fi.node["body"])
        except Return as r:
            v = r.v
        if isinstance(v, tuple) and v[:1] == ("str",):
            return v[1]
        if isinstance(v, absint.MutList) and all(isinstance(c, tuple) and c[:1] == ("str",) for c in v):
            return "".join(c[1] for c in v)
        raise absint.Unknown("result %r" % (v,))
    alpha = ["0", "a", ";", " ", "\n"]
    targeted = ["0102\n0304 ; trailer\n0506", "01 ; c1\n02 ; c2\n03", "\n\n0a ;x\n0b", "00;\r\n11", "Ej ; note\nRWeA", "0;1;2\n3"]
    n = 0
    seen = set()
    for t in itertools.chain(("".join(p) for k in range(maxlen + 1) for p in itertools.product(alpha, repeat=k)), targeted):
        try:
            got = run(t)
        except absint.Unknown as e:
            ctx.incomplete_msg(rid, "%r: %s" % (t, e))
            continue
        n += 1
        want = oracle(t)
        if got != want:
            cls = "duplicates-data" if len(got) > len(want) else ("drops-data" if len(got) < len(want) else "reorders")
            if cls not in seen:
                seen.add(cls)
                ctx.violation(rid, cls, B, fi.line, "clean_prefixed_byte_string(%r) evaluates to %r; without whitespace and comments the body is %r — the byte "
                              "string denoted by the literal changes" % (t, got, want))
    ctx.site(rid, "bodies", B, fi.line, {"evaluated": n, "alphabet": alpha, "max_len": maxlen})
    ctx.extra["evaluations"] = ctx.extra.get("evaluations", 0) + n
    if n < 3000:
        ctx.incomplete_msg(rid, "only %d bodies evaluated" % n)


def run(ctx):
    ctx.guarded("C07.intwrap", r_intwrap)
    ctx.guarded("C07.single", r_single)
    ctx.guarded("C07.narrow", r_narrow)
    ctx.guarded("C07.finite", r_finite)
    ctx.guarded("C07.discipline", r_discipline)
    ctx.guarded("C07.slices", r_slices)
    ctx.guarded("C07.bytesrepr", r_bytesrepr)
    ctx.guarded("C07.unescape", r_unescape)
    ctx.guarded("C07.cleanbytes", r_cleanbytes)
