"""C14 — validation failures are reported faithfully and deterministically (structural clauses)."""
import itertools

import absint
import common_val as cv
import valtables as vt
import vf
from absint import Interp, MutList, OPAQUE, Return, Unknown

META = {
    "level": "other",
    "explanation": (
        "(result) validate() of both validators returns Err(Validation(errors)) iff errors were recorded (abstract evaluation, "
        "shared with C01/C02.root). (kinds) the three failure kinds of validate_json_from_str / validate_cbor_from_slice / "
        "validate_csv_from_str use three different variants of the route's error enum. (choice) visit_type and "
        "visit_named_type_choice of both validators are abstractly interpreted with scripted arm outcomes: errors recorded before "
        "the choice are preserved exactly, no error of a failed arm survives a successful arm, and all arms failing leaves errors "
        "(speculative truncation never goes below its checkpoint). (location) visit_value_member_key_entry restores "
        "state.data_location to its entry value on every Ok exit. (pure) no static / thread_local / clock / RNG / environment "
        "access and no iteration over RandomState hash containers in the validation, parsing and formatting modules. That every "
        "reported location resolves to a node of the document is not decided."),
    "assumptions": ["dependencies (regex, chrono parsing, serde_json, ciborium-ll) are deterministic"],
    "trusted_base": ["syn 2 parser", "lib/absint.py"],
    "technique": "static analysis: abstract interpretation with scripted callees (error-list accounting, pairing), variant-distinctness rule, purity census",
}

MOD = "src/validator/mod.rs"


def r_kinds(ctx):
    rid = "C14.kinds"
    ctx.rule(rid, "each non-wasm validate_json_from_str / validate_cbor_from_slice entry point returns, for a schema that does not parse, for a "
                  "document that does not parse / decode and for a validation failure, errors of three pairwise different variants of the "
                  "route's error enum (and the schema-parse variant is CDDLParsing), and Ok only when all three steps succeed (abstract "
                  "evaluation with the parser, the document decoder and the validator scripted)", floor=3)
    f = ctx.facts
    for name, docfns, vnew in (("validate_json_from_str", ("from_str", "from_slice"), "JSONValidator::new"), ("validate_cbor_from_slice", ("decode_cbor",), "CBORValidator::new")):
        for fi in f.fn_all(MOD, name):
            if 'target_arch="wasm32"' in fi.cfg:
                continue
            cfgk = ",".join(c for c in fi.cfg if "additional" in c) or "any"
            off = ("lsp", "_build-parser") + (("additional-controls",) if "not(" in cfgk else ())
            cfg = lambda c, off=off: absint.eval_cfg(c, lambda ft: ft not in off)
            params = [inp["pat"]["n"] for inp in fi.node["sig"]["inputs"] if "pat" in inp and inp["pat"]["k"] == "pid"]
            kinds = {}
            for step in ("schema", "document", "validation", "none"):
                def on_call(kind, nm, node, args, recv, step=step):
                    if kind == "fn" and nm:
                        b = nm.split("::")[-1]
                        if b == "cddl_from_str":
                            return ("Err", ("str", "schema error")) if step == "schema" else ("Ok", ("str", "AST"))
                        if b in docfns and ("serde_json" in nm or b == "decode_cbor"):
                            return ("Err", ("enum", "DecodeErr", {})) if step == "document" else ("Ok", ("str", "DOC"))
                        if nm.endswith(vnew):
                            return ("enum", "Validator", {"args": list(args)})
                        if "Error::" in nm:
                            return ("enum", nm, list(args))
                        if nm.endswith("Semantic"):
                            return ("enum", nm, list(args))
                    if kind == "method":
                        if nm == "validate" and isinstance(recv, tuple) and recv[:2] == ("enum", "Validator"):
                            return ("Err", ("enum", "Error::Validation", [OPAQUE])) if step == "validation" else ("Ok", ("tuple", []))
                        if nm == "to_string":
                            return ("str", "text")
                    return NotImplemented
                it = Interp(env={p: ("arg", i) for i, p in enumerate(params)}, cfg=cfg, on_call=on_call)
                try:
                    try:
                        res = it.block(fi.node["body"])
                    except Return as r:
                        res = r.v
                except Unknown as e:
                    ctx.incomplete_msg(rid, "%s[%s] %s failing: %s" % (name, cfgk, step, e))
                    kinds = None
                    break
                if isinstance(res, tuple) and res[0] == "Err" and isinstance(res[1], tuple) and res[1][:1] == ("enum",):
                    kinds[step] = res[1][1].split("::")[-1]
                elif isinstance(res, tuple) and res[0] == "Ok":
                    kinds[step] = "Ok"
                else:
                    kinds[step] = repr(res)[:40]
            if kinds is None:
                continue
            key = "%s[%s]" % (name, cfgk)
            ctx.site(rid, key, MOD, fi.line, kinds)
            if kinds["none"] != "Ok":
                ctx.violation(rid, key + "|success", MOD, fi.line, "%s returns %s when every step succeeds" % (name, kinds["none"]))
            if kinds["schema"] != "CDDLParsing":
                ctx.violation(rid, key + "|schema", MOD, fi.line, "%s reports a malformed schema as %s" % (name, kinds["schema"]))
            if kinds["document"] in (kinds["schema"], kinds["validation"], "Ok"):
                ctx.violation(rid, key + "|document", MOD, fi.line, "%s reports a malformed document as %s — the same kind as %s: callers cannot tell "
                              "the failures apart" % (name, kinds["document"], "a malformed schema" if kinds["document"] == kinds["schema"] else "a validation failure"))
            if kinds["validation"] in (kinds["schema"], "Ok"):
                ctx.violation(rid, key + "|validation", MOD, fi.line, "%s reports a validation failure as %s" % (name, kinds["validation"]))


def self_with_errors(which, docv, pre):
    state = ("enum", "ValidationState", {"is_multi_type_choice": False, "is_multi_type_choice_type_rule_validating_array": False,
                                         "has_feature_errors": False, "disabled_features": ("None",), "cddl": OPAQUE, "ctrl": ("None",)})
    return ("enum", "Self", {"state": state, "json" if which == "json" else "cbor": docv, "errors": MutList([("pre", i) for i in range(pre)])})


def r_choice(ctx):
    rid = "C14.choice"
    ctx.rule(rid, "visit_type (both validators, array and non-array documents, 1-3 arms, every fail/succeed pattern, 0 or 2 errors recorded "
                  "beforehand): afterwards the pre-existing errors are intact, and the errors added are none if some arm succeeded and at "
                  "least one if every arm failed — A / B accepts exactly when A or B does, in either order", floor=60)
    f = ctx.facts
    for which in ("json", "cbor"):
        file, ty = vt.VIS[which]
        arr = ("enum", "Value::Array", [OPAQUE])
        scal = ("enum", "Value::Number", [OPAQUE]) if which == "json" else ("enum", "Value::Integer", [3])
        for dname, docv in (("array", arr), ("scalar", scal)):
            for n in (1, 2, 3):
                for pattern in itertools.product((True, False), repeat=n):
                    for pre in (0, 2):
                        key = "%s|%s|arms=%s|pre=%d" % (which, dname, "".join("S" if p else "F" for p in pattern), pre)
                        selfo = self_with_errors(which, docv, pre)
                        idx = {"i": 0}

                        def arm(run, it, node, recv, pattern=pattern, idx=idx):
                            i = idx["i"]
                            idx["i"] += 1
                            ok = pattern[i] if i < len(pattern) else True
                            if not ok:
                                recv[2]["errors"].append(("arm-error", i))
                                recv[2]["errors"].append(("arm-error2", i))
                            return ("Ok", ("tuple", []))
                        run = vt.ObjRun(f, file, ty, scripts={"visit_type_choice": arm})
                        for fi2 in f.fns(file):
                            if fi2.impl_self == ty and fi2.name == "visit_type":
                                run.methods.setdefault("visit_type", []).append(fi2)
                        t = ("enum", "Type", {"type_choices": MutList([("tc", i) for i in range(n)])})
                        try:
                            v = run.call("visit_type", selfo, {"t": t})
                        except Unknown as e:
                            ctx.incomplete_msg(rid, "%s: %s" % (key, e))
                            continue
                        fi = run.fn("visit_type")
                        errs = list(selfo[2]["errors"])
                        prefix_ok = errs[:pre] == [("pre", i) for i in range(pre)]
                        added = errs[pre:]
                        ctx.site(rid, key, file, fi.line, {"errors_after": [repr(e) for e in errs]})
                        if not prefix_ok:
                            ctx.violation(rid, key + "|prefix", file, fi.line, "%s visit_type (%s document, arms %s): errors recorded before the choice are "
                                          "altered: %r" % (which, dname, key.split("arms=")[1].split("|")[0], errs))
                        elif any(pattern) and added:
                            ctx.violation(rid, key + "|leak", file, fi.line, "%s visit_type (%s document): an arm succeeded but errors %r of failed arms survive: "
                                          "the value is rejected although one alternative accepts it" % (which, dname, added))
                        elif not any(pattern) and not added:
                            ctx.violation(rid, key + "|lost", file, fi.line, "%s visit_type (%s document): every arm failed but no error is left: the value is "
                                          "accepted although no alternative accepts it" % (which, dname))


def r_groupchoice(ctx, rid="C14.groupchoice"):
    ctx.rule(rid, "visit_group_rule and visit_type_groupname_entry (both validators): a named group is its base definition plus its `//=` "
                  "alternatives; over 0-2 alternatives with every fail/succeed pattern of (alternatives..., base) and 0 or 2 prior errors: "
                  "prior errors intact; no error left iff some definition accepts — in particular the base definition still counts when "
                  "alternatives exist, and an accepting alternative clears the errors of the ones tried before it", floor=40)
    f = ctx.facts
    for which in ("json", "cbor"):
        file, ty = vt.VIS[which]
        for method, argname in (("visit_group_rule", "gr"), ("visit_type_groupname_entry", "entry")):
            for n_alt in (0, 1, 2):
                for pattern in itertools.product((True, False), repeat=n_alt + 1):       # alternatives in order, then the base definition
                    for pre in (0, 2):
                        key = "%s|%s|alts=%s|base=%s|pre=%d" % (which, method, "".join("S" if p else "F" for p in pattern[:-1]) or "-", "S" if pattern[-1] else "F", pre)
                        docv = ("enum", "Value::Object", [OPAQUE]) if which == "json" else ("enum", "Value::Map", [OPAQUE])
                        selfo = self_with_errors(which, docv, pre)
                        st = selfo[2]["state"][2]
                        st.update({"generic_rules": MutList(), "eval_generic_rule": ("None",), "is_multi_group_choice": False, "type_group_name_entry": ("None",)})
                        alts = MutList([("alt", i) for i in range(n_alt)])
                        base = ("base",)

                        def outcome(recv, which_def, pattern=pattern, n_alt=n_alt):
                            i = n_alt if which_def == ("base",) else which_def[1]
                            if not pattern[i]:
                                recv[2]["errors"].append(("def-error", i))
                            return ("Ok", ("tuple", []))

                        def visit_group_entry(run, it, node, recv):
                            a = it.eval(node["a"][0])
                            if a == base or (isinstance(a, tuple) and a[:1] == ("alt",)):
                                return outcome(recv, a)
                            raise Unknown("visit_group_entry on %r" % (a,))

                        def walk_entry(run, it, node, a):
                            return outcome(a[0], base)
                        if method == "visit_group_rule":
                            arg = ("enum", "GroupRule", {"name": ("enum", "Identifier", {"ident": ("str", "g")}), "generic_params": ("None",), "entry": base})
                        else:
                            arg = ("enum", "TypeGroupnameEntry", {"name": ("enum", "Identifier", {"ident": ("str", "g")}), "generic_args": ("None",), "occur": ("None",)})
                        scripts = {"visit_group_entry": visit_group_entry, "walk_type_groupname_entry": walk_entry,
                                   "group_choice_alternates_from_ident": lambda r, it, node, a: alts}
                        run = vt.ObjRun(f, file, ty, scripts=scripts)
                        try:
                            run.call(method, selfo, {argname: arg})
                        except Unknown as e:
                            ctx.incomplete_msg(rid, "%s: %s" % (key, e))
                            continue
                        fi = run.fn(method)
                        errs = list(selfo[2]["errors"])
                        added = errs[pre:]
                        ctx.site(rid, key, file, fi.line, {"errors_after": [repr(e) for e in errs]})
                        short = "%s|%s" % (which, method)
                        if errs[:pre] != [("pre", i) for i in range(pre)]:
                            ctx.violation(rid, short + "|prefix", file, fi.line, "%s %s alters errors recorded before it: %r (%s)" % (which, method, errs, key))
                        elif any(pattern) and added:
                            what = "the base definition accepts" if pattern[-1] and not any(pattern[:-1]) else "an alternative accepts"
                            ctx.violation(rid, short + ("|base-leak" if pattern[-1] and not any(pattern[:-1]) else "|leak"), file, fi.line,
                                          "%s %s (%s): %s but errors %r of the definitions tried before it survive: `g = (a: 1)`, `g //= (b: 2)` "
                                          "rejects what one of its definitions accepts" % (which, method, key, what, added))
                        elif not any(pattern) and not added:
                            ctx.violation(rid, short + "|lost", file, fi.line, "%s %s (%s): every definition failed but no error is left" % (which, method, key))


def r_named(ctx):
    rid = "C14.named"
    ctx.rule(rid, "visit_named_type_choice (both validators): over 1-3 contributing definitions (base + /= increments) with every fail/succeed "
                  "pattern and 0 or 2 prior errors: prior errors intact; no error left iff some definition's type accepted", floor=25)
    f = ctx.facts
    for which in ("json", "cbor"):
        file, ty = vt.VIS[which]
        for n in (1, 2, 3):
            for pattern in itertools.product((True, False), repeat=n):
                for pre in (0, 2):
                    key = "%s|defs=%s|pre=%d" % (which, "".join("S" if p else "F" for p in pattern), pre)
                    docv = ("enum", "Value::Number", [OPAQUE]) if which == "json" else ("enum", "Value::Integer", [3])
                    selfo = self_with_errors(which, docv, pre)
                    idx = {"i": 0}

                    def vtype(run, it, node, recv, pattern=pattern, idx=idx):
                        i = idx["i"]
                        idx["i"] += 1
                        if not pattern[i]:
                            recv[2]["errors"].append(("def-error", i))
                        return ("Ok", ("tuple", []))
                    choices = MutList([("enum", "Type", {"type_choices": MutList([("tc", 0)])}) for _ in range(n)])
                    scripts = {"visit_type": vtype, "type_choice_types_from_ident": lambda r, it, node, a: choices,
                               "is_array": lambda r, it, node, recv: False}
                    run = vt.ObjRun(f, file, ty, scripts=scripts)
                    try:
                        v = run.call("visit_named_type_choice", selfo, {"ident": OPAQUE})
                    except Unknown as e:
                        ctx.incomplete_msg(rid, "%s: %s" % (key, e))
                        continue
                    fi = run.fn("visit_named_type_choice")
                    errs = list(selfo[2]["errors"])
                    added = errs[pre:]
                    ctx.site(rid, key, file, fi.line, {"errors_after": [repr(e) for e in errs]})
                    if errs[:pre] != [("pre", i) for i in range(pre)]:
                        ctx.violation(rid, key + "|prefix", file, fi.line, "%s visit_named_type_choice alters errors recorded before it: %r" % (which, errs))
                    elif any(pattern) and added:
                        ctx.violation(rid, key + "|leak", file, fi.line, "%s visit_named_type_choice: a definition accepted but errors %r survive" % (which, added))
                    elif not any(pattern) and not added:
                        ctx.violation(rid, key + "|lost", file, fi.line, "%s visit_named_type_choice: every definition failed but no error is left" % which)


def r_location(ctx):
    import c10
    rid = "C14.location"
    ctx.rule(rid, "visit_value_member_key_entry (both validators, literal-key and repeating members, with and without occurrence): "
                  "state.data_location on every Ok exit equals its value on entry (the `/key` segment pushed by the key visitor is "
                  "removed), so later errors of the same map are not reported under a stale path", floor=12)
    for row in c10.entry_runs(ctx.facts):
        if row.get("unknown"):
            ctx.incomplete_msg(rid, "%s: %s" % (row["key"], row["unknown"]))
            continue
        ctx.site(rid, row["key"], row["file"], row["line"], {"location_after": row["location_after"]})
        if row["ok"] and row["location_after"] != "root":
            ctx.violation(rid, row["key"].split("|inherited")[0], row["file"], row["line"],
                          "%s: returns Ok with state.data_location = %r (was 'root'): subsequent errors of this map carry a stale location" % (row["key"], row["location_after"]))


def rfc6901(seg):
    return seg.replace("~", "~0").replace("/", "~1")


def r_pointer(ctx):
    import valtables as vt
    rid = "C14.pointer"
    ctx.rule(rid, "the location segment the JSON validator appends for a map key resolves to that member: a key is appended as one "
                  "reference token of the slash-separated path, with `~` and `/` inside the key escaped (RFC 6901: ~0, ~1) — otherwise the "
                  "location of an error under the key `a/b` reads as member b of member a, which does not exist (validate_object_value "
                  "interpreted on maps containing the key, under both ast-span twins)", floor=6)
    for cfgname in ("default", "no-ast-span"):
        for key in ("k", "a/b", "t~x", "a/b~c/"):
            got, fi = vt.present_key_location(ctx.facts, key, cfgname)
            k = "%s|%r" % (cfgname, key)
            if isinstance(got, tuple):
                ctx.incomplete_msg(rid, "%s: %s" % (k, got[1]))
                continue
            ctx.site(rid, k, fi.file, fi.line, {"location": got})
            want = "/outer/" + rfc6901(key)
            if got != want:
                kind = "plain" if key == "k" else ("slash" if "/" in key and "~" not in key else ("tilde" if "/" not in key else "both"))
                ctx.violation(rid, "%s|%s" % (cfgname, kind), fi.file, fi.line, "an error under the key %r is located at %r; as a slash-separated path that "
                              "resolves to the member it must be %r" % (key, got, want))


PURE_FILES = ["src/validator/json.rs", "src/validator/cbor.rs", "src/validator/mod.rs", "src/validator/control.rs", "src/validator/cbor_value.rs",
              "src/validator/csv_validator.rs", "src/pest_bridge.rs", "src/ast/mod.rs", "src/ast/parent.rs", "src/token.rs", "src/parser.rs", "src/visitor.rs"]
IMPURE_PATHS = ("SystemTime", "Instant", "rand::", "thread_rng", "std::env", "env::var", "thread_local", "RandomState", "AtomicUsize", "AtomicBool", "Mutex",
                "RwLock", "OnceCell", "OnceLock", "lazy_static", "Utc::now", "Local::now", "std::process")


def r_pure(ctx):
    rid = "C14.pure"
    ctx.rule(rid, "the validation / parsing / formatting modules declare no `static` (other than immutable consts), no thread_local!, and "
                  "reference no clock, RNG, environment, lock or atomic; HashMap/HashSet are never iterated (only keyed access), so results "
                  "cannot depend on hash seeds or on other calls", floor=12)
    f = ctx.facts
    for file in PURE_FILES:
        if file not in f.files:
            raise vf.Incomplete("%s missing" % file)
        n_static = 0
        for it in f.items(file):
            if it["k"] == "static":
                n_static += 1
                ctx.violation(rid, "%s|static %s" % (file, it["name"]), file, it["l"], "static item %s: shared state between calls" % it["name"])
            if it["k"] == "imacro" and it["name"] in ("thread_local", "lazy_static"):
                ctx.violation(rid, "%s|%s" % (file, it["name"]), file, it["l"], "%s! state" % it["name"])
        hits = []
        for fi in f.fns(file):
            if fi.in_test:
                continue
            hashvars = set()
            for n in vf.walk(fi.node):
                if n["k"] == "local" and n.get("init") is not None and ("HashMap" in vf.src(n["init"]) or "HashSet" in vf.src(n["init"]) or "HashMap" in vf.src(n["pat"]) or "HashSet" in vf.src(n["pat"])):
                    hashvars |= set(vf.pat_bindings(n["pat"]))
            for n in vf.walk(fi.node):
                if n["k"] == "path" and any(p in n["p"] for p in IMPURE_PATHS):
                    if "wasm32" in " ".join(fi.cfg):
                        continue
                    hits.append((fi.qual, n["p"], n["l"]))
                if n["k"] == "mcall" and n["m"] in ("iter", "keys", "values", "into_iter", "drain", "iter_mut") and n["r"]["k"] == "path" and n["r"]["p"] in hashvars:
                    hits.append((fi.qual, "%s.%s()" % (n["r"]["p"], n["m"]), n["l"]))
                if n["k"] == "for" and n["e"]["k"] in ("path", "ref") and vf.src(n["e"]).lstrip("&").replace("mut ", "") in hashvars:
                    hits.append((fi.qual, "for over %s" % vf.src(n["e"]), n["l"]))
        ctx.site(rid, file, file, 1, {"statics": n_static, "impure_references": len(hits)})
        for q, p, l in hits:
            ctx.violation(rid, "%s|%s|%s" % (file, q, p), file, l, "%s references %s: the result can differ between repetitions or interleavings" % (q, p))


def run(ctx):
    ctx.guarded("C14.pointer", r_pointer)
    ctx.guarded("C14.groupchoice", r_groupchoice)
    ctx.guarded("C14.result.json", lambda c: cv.root_rule(c, "C14j", "json"))
    ctx.guarded("C14.result.cbor", lambda c: cv.root_rule(c, "C14c", "cbor"))
    ctx.guarded("C14.kinds", r_kinds)
    ctx.guarded("C14.choice", r_choice)
    ctx.guarded("C14.named", r_named)
    ctx.guarded("C14.location", r_location)
    ctx.guarded("C14.pure", r_pure)
