"""C13 — CSV validation = JSON validation of the draft's data-model mapping."""
import absint
import vf
from absint import Interp, OPAQUE, Return, Unknown

META = {
    "level": "other",
    "explanation": (
        "(coerce) coerce_field is abstractly interpreted on the classes of field text distinguished by which std parsers accept it "
        "(empty, u64, i64 only, finite f64 only, non-finite f64 spelling, none): the field becomes a JSON number exactly for the "
        "integer and finite-float classes, text otherwise, and the unchanged field text is what is kept. (header) the closure of "
        "parse_csv_to_json keeps a header-row field as text exactly when has_header && row_idx == 0 and otherwise delegates to "
        "coerce_field. (reader) the csv reader is built with has_headers(false) and flexible(true). (delegate) validate_csv_from_str "
        "feeds that mapping, its own parsed schema and its own features argument to JSONValidator and returns validate()'s result. "
        "Which spellings u64/i64/f64::from_str accept (+3, 007, 1e5) is std semantics, not decided."),
    "assumptions": ["str::parse::<u64|i64|f64> accept/reject as documented by std (modelled as the input classes)", "csv crate implements RFC 4180 record splitting"],
    "trusted_base": ["syn 2 parser", "lib/absint.py"],
    "technique": "static analysis: abstract interpretation over parser-acceptance classes, configuration-chain rule, argument-provenance rule",
}

F = "src/validator/csv_validator.rs"

INF = float("inf")
CLASSES = {
    # name: (sample text, u64 result, i64 result, f64 result, expected)   -- what Rust's str::parse yields for the sample text
    "empty": ("", ("Err",), ("Err",), ("Err",), "text"),
    "unsigned-integer": ("12", ("Ok", 12), ("Ok", 12), ("Ok", 12.0), "number:12"),
    "unsigned-with-plus-sign": ("+3", ("Ok", 3), ("Ok", 3), ("Ok", 3.0), "number:3"),
    "unsigned-beyond-i64": ("9223372036854775808", ("Ok", 2**63), ("Err",), ("Ok", 9.223372036854776e18), "number:9223372036854775808"),
    "negative-integer": ("-3", ("Err",), ("Ok", -3), ("Ok", -3.0), "number:-3"),
    "integer-beyond-i64-u64": ("18446744073709551616", ("Err",), ("Err",), ("Ok", 1.8446744073709552e19), "number:1.8446744073709552e+19"),
    "finite-float": ("1.5", ("Err",), ("Err",), ("Ok", 1.5), "number:1.5"),
    "float-leading-dot": (".5", ("Err",), ("Err",), ("Ok", 0.5), "number:0.5"),
    "float-with-plus-sign": ("+1.5e1", ("Err",), ("Err",), ("Ok", 15.0), "number:15.0"),
    "inf-spelling": ("inf", ("Err",), ("Err",), ("Ok", INF), "text"),
    "nan-spelling": ("NaN", ("Err",), ("Err",), ("Ok", float("nan")), "text"),
    "overflowing-exponent": ("1e999", ("Err",), ("Err",), ("Ok", INF), "text"),
    "not-a-number": ("abc", ("Err",), ("Err",), ("Err",), "text"),
}


def r_coerce(ctx):
    rid = "C13.coerce"
    ctx.rule(rid, "coerce_field maps the empty field and every field no std parser accepts or whose f64 value is not finite to "
                  "Value::String(field unchanged), and every other field — including spellings with a leading `+` or `.` — to the number the "
                  "first accepting parser (u64, i64, f64) yields (abstract evaluation on one sample text per class, the parsers' outcome for "
                  "that text scripted)", floor=12)
    fi = ctx.facts.fn(F, "coerce_field")
    for name, (text, u, i, fl, exp) in CLASSES.items():
        field = ("str", text)

        def on_call(kind, nm, node, args, recv, u=u, i=i, fl=fl, field=field):
            if kind == "method" and recv == field and nm == "parse":
                tf = (node.get("tf") or "").replace(" ", "")
                r = {"::<u64>": u, "::<i64>": i, "::<f64>": fl}.get(tf)
                if r is None:
                    raise Unknown("parse%s" % tf)
                return r if r[0] == "Ok" else ("Err", OPAQUE)
            if kind == "macro" and nm == "json":
                return ("json-number", args[0] if args else None)
            return NotImplemented
        it = Interp(env={"field": field}, on_call=on_call)
        try:
            try:
                v = it.block(fi.node["body"])
            except Return as r:
                v = r.v
        except Unknown as e:
            ctx.incomplete_msg(rid, "%s: %s" % (name, e))
            continue
        if isinstance(v, tuple) and v[0] == "json-number":
            got = "number:%r" % (v[1],)
        elif isinstance(v, tuple) and v[0] == "enum" and v[1].endswith("Value::String"):
            inner = v[2][0] if v[2] else None
            itext = inner[1] if isinstance(inner, tuple) and inner[:1] == ("str",) else getattr(inner, "s", None) if inner is not None else None
            if itext is None and isinstance(inner, absint.MutList) and getattr(inner, "kind", "") == "str":
                itext = "".join(x[1] if isinstance(x, tuple) else str(x) for x in inner)
            got = "text" if itext == text else "text-altered:%r" % (inner,)
        else:
            got = "other:%r" % (v,)
        ctx.site(rid, name, F, fi.line, {"class": name, "sample": text, "result": got, "expected": exp})
        if got != exp:
            ctx.violation(rid, name, F, fi.line, "coerce_field on a field of class `%s` (e.g. %r) yields %s; the draft's mapping says %s" % (name, text, got, exp))


def r_header(ctx):
    rid = "C13.header"
    ctx.rule(rid, "in parse_csv_to_json each field of row 0 stays Value::String(field) iff has_header (defaulting to false), every other field "
                  "goes through coerce_field; rows are pushed in order", floor=6)
    fi = ctx.facts.fn(F, "parse_csv_to_json")
    cl = None
    for n in vf.walk(fi.node):
        if n["k"] == "mcall" and n["m"] == "map" and n["a"] and n["a"][0]["k"] == "closure" and any(x["k"] == "call" and vf.src(x["f"]) == "coerce_field" for x in vf.walk(n["a"][0])):
            cl = n["a"][0]
    if cl is None:
        raise vf.Incomplete("field-mapping closure not found")
    # has_header default
    dflt = None
    for loc in vf.find(fi.node, "local"):
        if loc["pat"].get("k") == "pid" and loc["pat"]["n"] == "has_header":
            dflt = vf.src(loc.get("init"))
    ctx.site(rid, "default", F, fi.line, {"has_header": dflt})
    # the default is decided by evaluating the initialiser on None / Some(true) / Some(false)
    for loc in vf.find(fi.node, "local"):
        if loc["pat"].get("k") == "pid" and loc["pat"]["n"] == "has_header" and loc.get("init") is not None:
            for arg, want in ((("None",), False), (("Some", True), True), (("Some", False), False)):
                try:
                    v = Interp(env={"has_header": arg}).eval(loc["init"])
                except Unknown as e:
                    ctx.incomplete_msg(rid, "default: %s" % e)
                    continue
                if v is not want:
                    ctx.violation(rid, "default", F, fi.line, "has_header = %r is read as %r (the draft's default is no header row)" % (arg, v))
    for hh in (True, False):
        for row in (0, 1, 2):
            field = ("csvfield", "x")

            def on_call(kind, nm, node, args, recv):
                if kind == "fn" and nm == "coerce_field":
                    return ("coerced", args[0])
                if kind == "method" and recv == field and nm in ("to_string", "to_owned"):
                    return ("str-of", field)
                return NotImplemented
            it = Interp(env={"has_header": hh, "row_idx": row}, on_call=on_call)
            try:
                v = it.call_closure(cl, [field])
            except Return as r:
                v = r.v
            except Unknown as e:
                ctx.incomplete_msg(rid, "has_header=%s row=%d: %s" % (hh, row, e))
                continue
            exp_text = hh and row == 0
            is_text = isinstance(v, tuple) and v[0] == "enum" and v[1].endswith("Value::String") and v[2] == [("str-of", field)]
            is_coerced = v == ("coerced", field)
            key = "has_header=%s|row=%d" % (hh, row)
            ctx.site(rid, key, F, cl["l"], {"result": "text" if is_text else ("coerced" if is_coerced else repr(v)[:60])})
            if (exp_text and not is_text) or (not exp_text and not is_coerced):
                ctx.violation(rid, key, F, cl["l"], "with has_header=%s a field of row %d is mapped to %r" % (hh, row, v))


def r_reader(ctx):
    rid = "C13.reader"
    ctx.rule(rid, "the csv::ReaderBuilder chain in parse_csv_to_json sets has_headers(false) and flexible(true) and reads csv_data", floor=2)
    fi = ctx.facts.fn(F, "parse_csv_to_json")
    chain = {}
    for n in vf.walk(fi.node):
        if n["k"] == "mcall" and n["m"] in ("has_headers", "flexible", "delimiter", "quote", "escape", "double_quote", "comment", "trim", "terminator", "quoting", "from_reader"):
            chain[n["m"]] = vf.src(n["a"][0]) if n["a"] else ""
    ctx.site(rid, "builder", F, fi.line, chain)
    want = {"has_headers": "false", "flexible": "true"}
    for k, v in want.items():
        ctx.site(rid, k, F, fi.line, {k: chain.get(k)})
        if chain.get(k) != v:
            ctx.violation(rid, k, F, fi.line, "ReaderBuilder.%s(%s): the draft's mapping needs %s(%s) (header handled by the mapping; ragged rows kept)" % (k, chain.get(k), k, v))
    for k in ("delimiter", "quote", "escape", "double_quote", "comment", "trim", "terminator", "quoting"):
        if k in chain:
            ctx.violation(rid, k, F, fi.line, "ReaderBuilder.%s(%s) departs from RFC 4180 defaults" % (k, chain[k]))
    if "csv_data" not in chain.get("from_reader", ""):
        ctx.violation(rid, "from_reader", F, fi.line, "the reader does not read csv_data")


def r_delegate(ctx):
    rid = "C13.delegate"
    ctx.rule(rid, "validate_csv_from_str (both non-wasm cfg twins): the schema that is parsed is its first argument, the JSON value is "
                  "parse_csv_to_json of its csv_data and has_header arguments, JSONValidator is constructed from exactly these (and the "
                  "enabled_features argument when there is one), a failure of either step is returned as an error, and otherwise the result "
                  "is validate()'s — Ok stays Ok, Err stays Err (abstract evaluation with the four callees scripted)", floor=8)
    f = ctx.facts
    fns = [x for x in f.fn_all(F, "validate_csv_from_str") if 'target_arch="wasm32"' not in x.cfg]
    if not fns:
        raise vf.Incomplete("validate_csv_from_str not found")
    for fi in fns:
        cfgk = ",".join(c for c in fi.cfg if "additional" in c) or "any"
        off = ("lsp", "_build-parser") + (("additional-controls",) if "not(" in cfgk else ())
        cfg = lambda c, off=off: absint.eval_cfg(c, lambda ft: ft not in off)
        params = [inp["pat"]["n"] for inp in fi.node["sig"]["inputs"] if "pat" in inp and inp["pat"]["k"] == "pid"]
        if len(params) < 3:
            raise vf.Incomplete("validate_csv_from_str has %d parameters" % len(params))
        atoms = {p: ("arg", i) for i, p in enumerate(params)}
        for schema_ok in (True, False):
            for csv_ok in (True, False):
                for verdict in ("Ok", "Err"):
                    key = "%s|schema %s|csv %s|validate %s" % (cfgk, "ok" if schema_ok else "err", "ok" if csv_ok else "err", verdict)
                    built = []

                    def on_call(kind, nm, node, args, recv, schema_ok=schema_ok, csv_ok=csv_ok, verdict=verdict, built=built):
                        if kind == "fn" and nm:
                            b = nm.split("::")[-1]
                            if b == "cddl_from_str":
                                return ("Ok", ("ast-of", args[0])) if schema_ok else ("Err", ("str", "schema error"))
                            if b == "parse_csv_to_json":
                                return ("Ok", ("json-of", args[0], args[1])) if csv_ok else ("Err", ("str", "csv error"))
                            if nm.endswith("JSONValidator::new"):
                                built.append(list(args))
                                return ("enum", "JSONValidator", {"args": list(args)})
                            if nm.startswith("Error::"):
                                return ("enum", nm, list(args))
                        if kind == "method" and nm == "validate" and isinstance(recv, tuple) and recv[:2] == ("enum", "JSONValidator"):
                            return ("Ok", ("tuple", [])) if verdict == "Ok" else ("Err", ("str", "validation errors"))
                        return NotImplemented
                    it = Interp(env=dict(atoms), cfg=cfg, on_call=on_call)
                    try:
                        try:
                            res = it.block(fi.node["body"])
                        except Return as r:
                            res = r.v
                    except Unknown as e:
                        ctx.incomplete_msg(rid, "%s: %s" % (key, e))
                        continue
                    want_ok = schema_ok and csv_ok and verdict == "Ok"
                    got_ok = isinstance(res, tuple) and res[0] == "Ok"
                    ctx.site(rid, key, F, fi.line, {"result": "Ok" if got_ok else "Err", "validator_args": repr(built[:1])[:120]})
                    if got_ok != want_ok:
                        ctx.violation(rid, "%s|result" % cfgk, F, fi.line, "validate_csv_from_str returns %s when the schema parse is %s, the CSV mapping %s and "
                                      "validate() %s" % ("Ok" if got_ok else "Err", "ok" if schema_ok else "an error", "ok" if csv_ok else "an error", verdict))
                    if schema_ok and csv_ok:
                        want = [("ast-of", ("arg", 0)), ("json-of", ("arg", 1), ("arg", 2))] + ([("arg", 3)] if len(params) > 3 else [])
                        if not built or built[0] != want:
                            ctx.violation(rid, "%s|validator" % cfgk, F, fi.line,
                                          "JSONValidator::new receives %r; expected the parsed first argument, the CSV mapping of arguments 2 and 3%s"
                                          % (built[:1], " and the features argument" if len(params) > 3 else ""))


def run(ctx):
    ctx.guarded("C13.coerce", r_coerce)
    ctx.guarded("C13.header", r_header)
    ctx.guarded("C13.reader", r_reader)
    ctx.guarded("C13.delegate", r_delegate)
