"""C13 — CSV validation = JSON validation of the draft's data-model mapping."""
import absint
import vf
from absint import Interp, OPAQUE, Return, Unknown

META = {
    "level": "other",
    "explanation": (
        "(coerce) coerce_field is abstractly interpreted on the classes of field text distinguished by which std parsers accept it "
        "(empty, u64, i64 only, finite f64 only, non-finite f64 spelling, none): the field becomes a JSON number exactly for the "
        "integer and finite-float classes, text otherwise, and the unchanged field text is what is kept. (header) the closure of "
        "parse_csv_to_json keeps a header-row field as text exactly when has_header && row_idx == 0 and otherwise delegates to "
        "coerce_field. (reader) the csv reader is built with has_headers(false) and flexible(true). (delegate) validate_csv_from_str "
        "feeds that mapping, its own parsed schema and its own features argument to JSONValidator and returns validate()'s result. "
        "Which spellings u64/i64/f64::from_str accept (+3, 007, 1e5) is std semantics, not decided."),
    "assumptions": ["str::parse::<u64|i64|f64> accept/reject as documented by std (modelled as the input classes)", "csv crate implements RFC 4180 record splitting"],
    "trusted_base": ["syn 2 parser", "lib/absint.py"],
    "technique": "static analysis: abstract interpretation over parser-acceptance classes, configuration-chain rule, argument-provenance rule",
}

F = "src/validator/csv_validator.rs"

INF = float("inf")
CLASSES = {
    # name: (sample text, u64 result, i64 result, f64 result, expected)   -- what Rust's str::parse yields for the sample text
    "empty": ("", ("Err",), ("Err",), ("Err",), "text"),
    "unsigned-integer": ("12", ("Ok", 12), ("Ok", 12), ("Ok", 12.0), "number:12"),
    "unsigned-with-plus-sign": ("+3", ("Ok", 3), ("Ok", 3), ("Ok", 3.0), "number:3"),
    "unsigned-beyond-i64": ("9223372036854775808", ("Ok", 2**63), ("Err",), ("Ok", 9.223372036854776e18), "number:9223372036854775808"),
    "negative-integer": ("-3", ("Err",), ("Ok", -3), ("Ok", -3.0), "number:-3"),
    "integer-beyond-i64-u64": ("18446744073709551616", ("Err",), ("Err",), ("Ok", 1.8446744073709552e19), "number:1.8446744073709552e+19"),
    "finite-float": ("1.5", ("Err",), ("Err",), ("Ok", 1.5), "number:1.5"),
    "float-leading-dot": (".5", ("Err",), ("Err",), ("Ok", 0.5), "number:0.5"),
    "float-with-plus-sign": ("+1.5e1", ("Err",), ("Err",), ("Ok", 15.0), "number:15.0"),
    "inf-spelling": ("inf", ("Err",), ("Err",), ("Ok", INF), "text"),
    "nan-spelling": ("NaN", ("Err",), ("Err",), ("Ok", float("nan")), "text"),
    "overflowing-exponent": ("1e999", ("Err",), ("Err",), ("Ok", INF), "text"),
    "not-a-number": ("abc", ("Err",), ("Err",), ("Err",), "text"),
}


def r_coerce(ctx):
    rid = "C13.coerce"
    ctx.rule(rid, "coerce_field maps the empty field and every field no std parser accepts or whose f64 value is not finite to "
                  "Value::String(field unchanged), and every other field — including spellings with a leading `+` or `.` — to the number the "
                  "first accepting parser (u64, i64, f64) yields (abstract evaluation on one sample text per class, the parsers' outcome for "
                  "that text scripted)", floor=12)
    fi = ctx.facts.fn(F, "coerce_field")
    for name, (text, u, i, fl, exp) in CLASSES.items():
        field = ("str", text)

        def on_call(kind, nm, node, args, recv, u=u, i=i, fl=fl, field=field):
            if kind == "method" and recv == field and nm == "parse":
                tf = (node.get("tf") or "").replace(" ", "")
                r = {"::<u64>": u, "::<i64>": i, "::<f64>": fl}.get(tf)
                if r is None:
                    raise Unknown("parse%s" % tf)
                return r if r[0] == "Ok" else ("Err", OPAQUE)
            if kind == "macro" and nm == "json":
                return ("json-number", args[0] if args else None)
            return NotImplemented
        it = Interp(env={"field": field}, on_call=on_call)
        it.resolve_fn = vf.new_fn_resolver(ctx.facts, [F])
        try:
            try:
                v = it.block(fi.node["body"])
            except Return as r:
                v = r.v
        except Unknown as e:
            ctx.incomplete_msg(rid, "%s: %s" % (name, e))
            continue
        if isinstance(v, tuple) and v[0] == "json-number":
            got = "number:%r" % (v[1],)
        elif isinstance(v, tuple) and v[0] == "enum" and v[1].endswith("Value::String"):
            inner = v[2][0] if v[2] else None
            itext = inner[1] if isinstance(inner, tuple) and inner[:1] == ("str",) else getattr(inner, "s", None) if inner is not None else None
            if itext is None and isinstance(inner, absint.MutList) and getattr(inner, "kind", "") == "str":
                itext = "".join(x[1] if isinstance(x, tuple) else str(x) for x in inner)
            got = "text" if itext == text else "text-altered:%r" % (inner,)
        elif v is OPAQUE or v == OPAQUE:
            ctx.incomplete_msg(rid, "%s: the result of coerce_field could not be evaluated" % name)
            continue
        else:
            got = "other:%r" % (v,)
        ctx.site(rid, name, F, fi.line, {"class": name, "sample": text, "result": got, "expected": exp})
        if got != exp:
            ctx.violation(rid, name, F, fi.line, "coerce_field on a field of class `%s` (e.g. %r) yields %s; the draft's mapping says %s" % (name, text, got, exp))


def r_header(ctx):
    rid = "C13.header"
    ctx.rule(rid, "parse_csv_to_json on a scripted three-row reader: the result is Ok(Array of one Array per record, in order); each field of "
                  "row 0 stays Value::String(field) iff has_header is Some(true) (None and Some(false) mean no header row), every other field "
                  "is coerce_field(field); a reader error is returned as the error (abstract evaluation of the whole function, the csv reader "
                  "and coerce_field scripted)", floor=6)
    fi = ctx.facts.fn(F, "parse_csv_to_json")
    MutList = absint.MutList

    def fld(r, c):
        return ("csvfield", "r%dc%d" % (r, c))
    shape = [2, 3, 1]        # ragged rows

    # csv 1.x: Position::line() of a record is the reader's line counter when the read of the record starts, and the counter advances
    # on `\n` only — the `\n` of a CRLF terminator is consumed by the *next* read (measured on the csv 1.4.0 of Cargo.lock:
    # LF records start on lines 1,2,3; CRLF records on 1,1,2; bare-CR records on 1,1,1); Position::record() is the record index
    LINES = {"LF": [1, 2, 3], "CRLF": [1, 1, 2], "CR": [1, 1, 1]}

    def mkrecords(fail_at=None, term="LF"):
        recs = []
        for r, n in enumerate(shape):
            if fail_at == r:
                recs.append(("Err", ("csv-error", r)))
            else:
                recs.append(("Ok", ("enum", "StringRecord", {"row": r, "fields": [fld(r, c) for c in range(n)], "line": LINES[term][r]})))
        return recs

    def run(hh, fail_at=None, term="LF"):
        def on_call(kind, nm, node, args, recv):
            if kind == "fn" and nm and nm.endswith("ReaderBuilder::new"):
                return ("enum", "ReaderBuilder", {})
            if kind == "method" and isinstance(recv, tuple) and len(recv) == 3 and recv[1] == "ReaderBuilder":
                if nm == "from_reader":
                    return ("enum", "Reader", {})
                return recv
            if kind == "method" and isinstance(recv, tuple) and len(recv) == 3 and recv[1] == "Reader":
                if nm in ("records", "into_records"):
                    return absint.PyIter(mkrecords(fail_at, term))
                raise Unknown("csv::Reader::%s is not modelled" % nm)
            if kind == "method" and isinstance(recv, tuple) and len(recv) == 3 and recv[1] == "StringRecord":
                if nm in ("iter", "into_iter"):
                    return MutList(recv[2]["fields"])
                if nm == "len":
                    return len(recv[2]["fields"])
                if nm == "position":
                    return ("Some", ("enum", "csv::Position", {"line": recv[2]["line"], "record": recv[2]["row"]}))
                raise Unknown("StringRecord::%s is not modelled" % nm)
            if kind == "method" and isinstance(recv, tuple) and len(recv) == 3 and recv[1] == "csv::Position":
                if nm in ("line", "record"):
                    return recv[2][nm]
                raise Unknown("csv::Position::%s is not modelled" % nm)
            if kind == "method" and isinstance(recv, tuple) and recv[:1] == ("csvfield",):
                if nm in ("to_string", "to_owned", "into"):
                    return ("str-of", recv)
                raise Unknown("field.%s is not modelled" % nm)
            if kind == "method" and isinstance(recv, tuple) and recv[:1] == ("str",) and nm == "as_bytes":
                return recv
            if kind == "fn" and nm == "coerce_field":
                return ("coerced", args[0])
            if kind == "fn" and nm in ("String::from",) and args and isinstance(args[0], tuple) and args[0][:1] == ("csvfield",):
                return ("str-of", args[0])
            return NotImplemented
        it = Interp(env={"csv_data": ("str", "DATA"), "has_header": hh}, on_call=on_call)
        it.resolve_fn = vf.new_fn_resolver(ctx.facts, [F])
        try:
            return it.block(fi.node["body"])
        except Return as r:
            return r.v

    def unlist(v):
        return list(v) if isinstance(v, (list, MutList)) else (v[1] if isinstance(v, tuple) and v[:1] == ("list",) else None)

    def classify(v):
        if isinstance(v, tuple) and v[0] == "enum" and v[1].endswith("Value::String") and len(v[2]) == 1 and isinstance(v[2][0], tuple) and v[2][0][:1] == ("str-of",):
            return ("text", v[2][0][1])
        if isinstance(v, tuple) and v[:1] == ("coerced",):
            return ("coerced", v[1])
        return ("other", repr(v)[:60])
    for label, hh, term in [(l, h, t) for t in ("LF", "CRLF", "CR") for l, h in (("None", ("None",)), ("Some(false)", ("Some", False)), ("Some(true)", ("Some", True)))]:
        if term != "LF":
            label = "%s,%s records" % (label, term)
        try:
            v = run(hh, term=term)
        except Unknown as e:
            ctx.incomplete_msg(rid, "has_header=%s: %s" % (label, e))
            continue
        rows = None
        if isinstance(v, tuple) and v[0] == "Ok" and isinstance(v[1], tuple) and v[1][0] == "enum" and v[1][1].endswith("Value::Array") and len(v[1][2]) == 1:
            rows = unlist(v[1][2][0])
        if rows is None:
            if v is OPAQUE or (isinstance(v, tuple) and v[0] == "Ok" and v[1] is OPAQUE):
                ctx.incomplete_msg(rid, "has_header=%s: the result could not be evaluated" % label)
            else:
                ctx.violation(rid, "has_header=%s|shape" % label, F, fi.line, "parse_csv_to_json returns %s, expected Ok(Value::Array(rows))" % repr(v)[:80])
            continue
        if len(rows) != len(shape):
            ctx.violation(rid, "has_header=%s|rows" % label, F, fi.line, "3 records give %d rows" % len(rows))
            continue
        for r, row in enumerate(rows):
            cells = unlist(row[2][0]) if isinstance(row, tuple) and row[0] == "enum" and row[1].endswith("Value::Array") and len(row[2]) == 1 else None
            key = "has_header=%s|row=%d" % (label, r)
            if cells is None:
                ctx.violation(rid, key, F, fi.line, "row %d is %s, expected Value::Array(fields)" % (r, repr(row)[:60]))
                continue
            got = [classify(c) for c in cells]
            exp_text = hh == ("Some", True) and r == 0
            want = [("text" if exp_text else "coerced", fld(r, c)) for c in range(shape[r])]
            ctx.site(rid, key, F, fi.line, {"fields": [g[0] for g in got]})
            if any(g[0] == "other" and "opaque" in g[1] for g in got):
                ctx.incomplete_msg(rid, "%s: a field's mapping could not be evaluated" % key)
            elif got != want:
                ctx.violation(rid, key, F, fi.line, "with has_header=%s row %d is mapped to %s; expected %s of each of its %d fields in order"
                              % (label, r, [(g[0], g[1][1] if isinstance(g[1], tuple) else g[1]) for g in got], "the text" if exp_text else "coerce_field", shape[r]))
    # a record the reader fails on is the function's error
    try:
        v = run(("None",), fail_at=1)
        ctx.site(rid, "reader-error", F, fi.line, {"result": repr(v)[:60]})
        if not (isinstance(v, tuple) and v[0] == "Err"):
            if v is OPAQUE:
                ctx.incomplete_msg(rid, "reader-error: the result could not be evaluated")
            else:
                ctx.violation(rid, "reader-error", F, fi.line, "a record error from the csv reader is not returned: result %s" % repr(v)[:80])
    except Unknown as e:
        ctx.incomplete_msg(rid, "reader-error: %s" % e)


def r_reader(ctx):
    rid = "C13.reader"
    ctx.rule(rid, "the csv::ReaderBuilder chain in parse_csv_to_json sets has_headers(false) and flexible(true) and reads csv_data", floor=2)
    fi = ctx.facts.fn(F, "parse_csv_to_json")
    chain = {}
    for n in vf.walk(fi.node):
        if n["k"] == "mcall" and n["m"] in ("has_headers", "flexible", "delimiter", "quote", "escape", "double_quote", "comment", "trim", "terminator", "quoting", "from_reader"):
            chain[n["m"]] = vf.src(n["a"][0]) if n["a"] else ""
    ctx.site(rid, "builder", F, fi.line, chain)
    want = {"has_headers": "false", "flexible": "true"}
    for k, v in want.items():
        ctx.site(rid, k, F, fi.line, {k: chain.get(k)})
        if chain.get(k) != v:
            ctx.violation(rid, k, F, fi.line, "ReaderBuilder.%s(%s): the draft's mapping needs %s(%s) (header handled by the mapping; ragged rows kept)" % (k, chain.get(k), k, v))
    for k in ("delimiter", "quote", "escape", "double_quote", "comment", "trim", "terminator", "quoting"):
        if k in chain:
            ctx.violation(rid, k, F, fi.line, "ReaderBuilder.%s(%s) departs from RFC 4180 defaults" % (k, chain[k]))
    if "csv_data" not in chain.get("from_reader", ""):
        ctx.violation(rid, "from_reader", F, fi.line, "the reader does not read csv_data")


def r_delegate(ctx):
    rid = "C13.delegate"
    ctx.rule(rid, "validate_csv_from_str (both non-wasm cfg twins): the schema that is parsed is its first argument, the JSON value is "
                  "parse_csv_to_json of its csv_data and has_header arguments, JSONValidator is constructed from exactly these (and the "
                  "enabled_features argument when there is one), a failure of either step is returned as an error, and otherwise the result "
                  "is validate()'s — Ok stays Ok, Err stays Err (abstract evaluation with the four callees scripted)", floor=8)
    f = ctx.facts
    fns = [x for x in f.fn_all(F, "validate_csv_from_str") if 'target_arch="wasm32"' not in x.cfg]
    if not fns:
        raise vf.Incomplete("validate_csv_from_str not found")
    for fi in fns:
        cfgk = ",".join(c for c in fi.cfg if "additional" in c) or "any"
        off = ("lsp", "_build-parser") + (("additional-controls",) if "not(" in cfgk else ())
        cfg = lambda c, off=off: absint.eval_cfg(c, lambda ft: ft not in off)
        params = [inp["pat"]["n"] for inp in fi.node["sig"]["inputs"] if "pat" in inp and inp["pat"]["k"] == "pid"]
        if len(params) < 3:
            raise vf.Incomplete("validate_csv_from_str has %d parameters" % len(params))
        atoms = {p: ("arg", i) for i, p in enumerate(params)}
        for schema_ok in (True, False):
            for csv_ok in (True, False):
                for verdict in ("Ok", "Err"):
                    key = "%s|schema %s|csv %s|validate %s" % (cfgk, "ok" if schema_ok else "err", "ok" if csv_ok else "err", verdict)
                    built = []

                    def on_call(kind, nm, node, args, recv, schema_ok=schema_ok, csv_ok=csv_ok, verdict=verdict, built=built):
                        if kind == "fn" and nm:
                            b = nm.split("::")[-1]
                            if b == "cddl_from_str":
                                return ("Ok", ("ast-of", args[0])) if schema_ok else ("Err", ("str", "schema error"))
                            if b == "parse_csv_to_json":
                                return ("Ok", ("json-of", args[0], args[1])) if csv_ok else ("Err", ("str", "csv error"))
                            if nm.endswith("JSONValidator::new"):
                                built.append(list(args))
                                return ("enum", "JSONValidator", {"args": list(args)})
                            if nm.startswith("Error::"):
                                return ("enum", nm, list(args))
                        if kind == "method" and nm == "validate" and isinstance(recv, tuple) and recv[:2] == ("enum", "JSONValidator"):
                            return ("Ok", ("tuple", [])) if verdict == "Ok" else ("Err", ("str", "validation errors"))
                        return NotImplemented
                    it = Interp(env=dict(atoms), cfg=cfg, on_call=on_call)
                    try:
                        try:
                            res = it.block(fi.node["body"])
                        except Return as r:
                            res = r.v
                    except Unknown as e:
                        ctx.incomplete_msg(rid, "%s: %s" % (key, e))
                        continue
                    want_ok = schema_ok and csv_ok and verdict == "Ok"
                    got_ok = isinstance(res, tuple) and res[0] == "Ok"
                    ctx.site(rid, key, F, fi.line, {"result": "Ok" if got_ok else "Err", "validator_args": repr(built[:1])[:120]})
                    if got_ok != want_ok:
                        ctx.violation(rid, "%s|result" % cfgk, F, fi.line, "validate_csv_from_str returns %s when the schema parse is %s, the CSV mapping %s and "
                                      "validate() %s" % ("Ok" if got_ok else "Err", "ok" if schema_ok else "an error", "ok" if csv_ok else "an error", verdict))
                    if schema_ok and csv_ok:
                        want = [("ast-of", ("arg", 0)), ("json-of", ("arg", 1), ("arg", 2))] + ([("arg", 3)] if len(params) > 3 else [])
                        if not built or built[0] != want:
                            ctx.violation(rid, "%s|validator" % cfgk, F, fi.line,
                                          "JSONValidator::new receives %r; expected the parsed first argument, the CSV mapping of arguments 2 and 3%s"
                                          % (built[:1], " and the features argument" if len(params) > 3 else ""))


def run(ctx):
    ctx.guarded("C13.coerce", r_coerce)
    ctx.guarded("C13.header", r_header)
    ctx.guarded("C13.reader", r_reader)
    ctx.guarded("C13.delegate", r_delegate)
