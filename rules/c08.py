"""C08 — naming, generics, sockets and parentheses are transparent (structural clauses)."""
import absint
import fmtmodel as fm
import valtables as vt
import vf
from absint import MutList, OPAQUE, Unknown

META = {
    "level": "other",
    "explanation": (
        "(nameeq) Identifier equality — the relation every rule lookup uses — is abstractly evaluated on identifier pairs and must "
        "distinguish `a`, `$a` and `$$a` and nothing else. (restore) seq_match_group_ref / seq_match_unwrap of both validators are "
        "abstractly interpreted with scripted callee outcomes: on every Ok exit the generic-instantiation state "
        "(state.generic_rules, state.eval_generic_rule) equals its value on entry and ctx.active_group_refs is balanced, whatever "
        "the speculative match returned. (order) the helpers that collect `/=` and `//=` increments iterate cddl.rules forward "
        "without reordering. (ctrl) the control-operator mode flag is restored (shared with C09). Verdict invariance under all "
        "refactorings of all schemas is not decided."),
    "assumptions": ["scripted callees stand for arbitrary outcomes of the speculative sub-match"],
    "trusted_base": ["syn 2 parser", "lib/absint.py", "lib/fmtmodel.py"],
    "technique": "static analysis: abstract interpretation (pairing/restore rules with scripted callees), equality table, who-may-reorder",
}

AST = "src/ast/mod.rs"
MOD = "src/validator/mod.rs"


def ident(name, socket):
    sp = ("None",) if socket is None else ("Some", ("enum", "SocketPlug::" + socket, []))
    return ("enum", "Identifier", {"ident": ("str", name), "socket": sp, "span": OPAQUE})


def r_nameeq(ctx):
    rid = "C08.nameeq"
    ctx.rule(rid, "<Identifier as PartialEq>::eq is true exactly when both the name and the socket prefix are equal (abstract evaluation "
                  "on all pairs over names {a,b} x sockets {none,$,$$})", floor=30)
    f = ctx.facts
    eqs = [fi for fi in f.fns(AST) if fi.impl_self == "Identifier" and fi.impl_trait == "PartialEq" and fi.name == "eq"]
    if not eqs:
        # derived equality compares all fields: fine, but then spans take part; report as incomplete to re-review
        raise vf.Incomplete("hand-written PartialEq for Identifier not found")
    fi = eqs[0]
    world = fm.World(f)
    ids = [(n, s) for n in ("a", "b") for s in (None, "TYPE", "GROUP")]
    for x in ids:
        for y in ids:
            key = "%s%s==%s%s" % ({None: "", "TYPE": "$", "GROUP": "$$"}[x[1]], x[0], {None: "", "TYPE": "$", "GROUP": "$$"}[y[1]], y[0])
            it = fm.FmtInterp(world, env={"self": ident(*x), "other": ident(*y)})
            try:
                try:
                    v = it.block(fi.node["body"])
                except absint.Return as r:
                    v = r.v
            except Unknown as e:
                ctx.incomplete_msg(rid, "%s: %s" % (key, e))
                continue
            ctx.site(rid, key, AST, fi.line, {"result": v})
            if v is not (x == y):
                ctx.violation(rid, key, AST, fi.line, "Identifier equality %s evaluates to %r: rule lookups conflate or split names (a plain rule, a type "
                                                      "socket and a group socket of the same base name are different names)" % (key, v))


def generic_rule(name, nargs):
    return ("enum", "GenericRule", {"name": ("str", name), "params": MutList([("str", "T")]), "args": MutList([("arg", i) for i in range(nargs)])})


def r_restore(ctx):
    rid = "C08.restore"
    ctx.rule(rid, "seq_match_group_ref and seq_match_unwrap (JSON and CBOR): for every combination of {generic args present/absent, generic "
                  "rule already registered/not, sub-match matches/fails/matches on an alternate}, on return Ok the fields "
                  "state.generic_rules and state.eval_generic_rule equal their values on entry and ctx.active_group_refs has its entry "
                  "length (abstract evaluation with scripted callees)", floor=40)
    f = ctx.facts
    for which in ("json", "cbor"):
        file, ty = vt.VIS[which]
        for fn in ("seq_match_group_ref", "seq_match_unwrap"):
            for has_args in (False, True):
                for registered in (False, True):
                    for outcome in ("match", "fail", "alt-match"):
                        for already_active in (False, True):
                            key = "%s|%s|args=%s|registered=%s|sub=%s|active=%s" % (which, fn, has_args, registered, outcome, already_active)
                            gr0 = [generic_rule("other", 1)] + ([generic_rule("g", 1)] if registered else [])
                            state = ("enum", "ValidationState", {"generic_rules": MutList(gr0), "eval_generic_rule": ("Some", ("str", "outer")),
                                                                 "cddl": OPAQUE, "ctrl": ("None",)})
                            selfo = ("enum", "Self", {"state": state, "errors": MutList()})
                            active = MutList([("tuple", [("str", "zzz"), 0])] + ([("tuple", [("str", "g"), 7])] if already_active else []))
                            ctxo = ("enum", "ArraySeqCtx", {"active_group_refs": active})
                            ga = ("Some", ("enum", "GenericArgs", {"args": MutList([("enum", "GenericArg", {"arg": ("arg", 9)})])})) if has_args else ("None",)
                            name = ("enum", "Identifier", {"ident": ("str", "g"), "socket": ("None",)})
                            calls = {"n": 0}

                            def sub(run, it, node, recv, outcome=outcome, calls=calls):
                                calls["n"] += 1
                                if outcome == "match" or (outcome == "alt-match" and calls["n"] >= 2):
                                    return ("Ok", ("Some", 8))
                                return ("Ok", ("None",))
                            scripts = {"seq_match_entry": sub, "seq_match_group": sub,
                                       "rule_from_ident": lambda r, it, node, a: ("Some", ("enum", "Rule::Type", {"rule": ("enum", "TypeRule", {"value": ("enum", "Type", {"type_choices": MutList([("enum", "TypeChoice", {"type1": ("enum", "Type1", {"type2": ("enum", "Type2::Array", {"group": OPAQUE})})})])})})})),
                                       "generic_params_from_rule": lambda r, it, node, a: ("Some", MutList([("str", "T")]))}
                            run = vt.ObjRun(f, file, ty, scripts=scripts)
                            before_rules = repr(state[2]["generic_rules"])
                            before_eval = state[2]["eval_generic_rule"]
                            before_active = len(active)
                            try:
                                if fn == "seq_match_group_ref":
                                    ge = ("enum", "TypeGroupnameEntry", {"name": name, "generic_args": ga, "occur": ("None",)})
                                    grule = ("Some", ("enum", "GroupRule", {"entry": OPAQUE}))
                                    alts = MutList([OPAQUE, OPAQUE])
                                    v = run.call(fn, selfo, {"ge": ge, "grule": grule, "alternates": alts, "elems": OPAQUE, "cursor": 7, "ctx": ctxo})
                                else:
                                    rule = scripts["rule_from_ident"](None, None, None, None)[1]
                                    gav = ga[1] if has_args else None
                                    v = run.call(fn, selfo, {"ident": name, "generic_args": ("Some", gav) if has_args else ("None",), "rule": rule,
                                                             "elems": OPAQUE, "cursor": 7, "ctx": ctxo})
                            except Unknown as e:
                                ctx.incomplete_msg(rid, "%s: %s" % (key, e))
                                continue
                            if not (isinstance(v, tuple) and v[0] == "Ok"):
                                continue
                            after_rules = repr(state[2]["generic_rules"])
                            ok = after_rules == before_rules and state[2]["eval_generic_rule"] == before_eval and len(active) == before_active
                            fi = run.fn(fn)
                            ctx.site(rid, key, file, fi.line, {"result": repr(v)[:40], "restored": ok})
                            if not ok:
                                what = []
                                if after_rules != before_rules:
                                    what.append("state.generic_rules changed (%s -> %s)" % (before_rules[:80], after_rules[:80]))
                                if state[2]["eval_generic_rule"] != before_eval:
                                    what.append("state.eval_generic_rule = %r (was %r)" % (state[2]["eval_generic_rule"], before_eval))
                                if len(active) != before_active:
                                    what.append("ctx.active_group_refs has %d entries (was %d)" % (len(active), before_active))
                                ctx.violation(rid, key.replace("|active=%s" % already_active, ""), file, fi.line,
                                              "%s %s returns Ok but %s: generic arguments of a speculative descent leak into siblings" % (which, fn, "; ".join(what)))


def r_groupref(ctx, rid="C08.groupref"):
    ctx.rule(rid, "seq_match_group_ref (JSON and CBOR) on a group name inside an array: (a) a reference to a group that is being expanded at an "
                  "*earlier* cursor is followed — elements were consumed in between, so `g = (int, ? g)` recurses through the array; (b) the "
                  "same name at the *same* cursor is refused without descending (zero progress); (c) when the base definition does not match "
                  "and two `//=` alternatives both do, the first one in document order decides the result and the later one is not tried "
                  "(abstract evaluation with the sub-matcher scripted)", floor=6)
    f = ctx.facts
    for which in ("json", "cbor"):
        file, ty = vt.VIS[which]
        fn = "seq_match_group_ref"
        for label, active0, results, want, want_calls in (
                ("progress", [("g", 3)], [8], ("Some", 8), 1),
                ("zero-progress", [("g", 7)], [8], ("None",), 0),
                ("alternates-in-order", [], [None, 8, 9], ("Some", 8), 2)):
            key = "%s|%s" % (which, label)
            state = ("enum", "ValidationState", {"generic_rules": MutList(), "eval_generic_rule": ("None",), "cddl": OPAQUE, "ctrl": ("None",)})
            selfo = ("enum", "Self", {"state": state, "errors": MutList()})
            active = MutList([("tuple", [("str", "zzz"), 0])] + [("tuple", [("str", n), c]) for n, c in active0])
            ctxo = ("enum", "ArraySeqCtx", {"active_group_refs": active})
            name = ("enum", "Identifier", {"ident": ("str", "g"), "socket": ("None",)})
            calls = {"n": 0}

            def sub(run, it, node, recv, results=results, calls=calls):
                i = calls["n"]
                calls["n"] += 1
                r = results[i] if i < len(results) else None
                return ("Ok", ("Some", r)) if r is not None else ("Ok", ("None",))
            scripts = {"seq_match_entry": sub, "seq_match_group": sub,
                       "generic_params_from_rule": lambda r, it, node, a: ("None",)}
            run = vt.ObjRun(f, file, ty, scripts=scripts)
            ge = ("enum", "TypeGroupnameEntry", {"name": name, "generic_args": ("None",), "occur": ("None",)})
            grule = ("Some", ("enum", "GroupRule", {"entry": OPAQUE}))
            alts = MutList([("alt", 1), ("alt", 2)])
            try:
                v = run.call(fn, selfo, {"ge": ge, "grule": grule, "alternates": alts, "elems": OPAQUE, "cursor": 7, "ctx": ctxo})
            except Unknown as e:
                ctx.incomplete_msg(rid, "%s: %s" % (key, e))
                continue
            fi = run.fn(fn)
            if not (isinstance(v, tuple) and v[0] == "Ok") or absint.has_opaque(v):
                ctx.incomplete_msg(rid, "%s: result %r" % (key, v))
                continue
            ctx.site(rid, key, file, fi.line, {"result": repr(v[1]), "sub_matches_tried": calls["n"]})
            if v[1] != want or calls["n"] != want_calls:
                ctx.violation(rid, key, file, fi.line, "%s seq_match_group_ref, scenario %s (group `g` open at %s, cursor 7, sub-matcher results %r): returns %r after "
                              "%d sub-match(es); expected %r after %d" % (which, label, active0 or "no cursor", results, v[1], calls["n"], want, want_calls))


def r_order(ctx):
    rid = "C08.order"
    ctx.rule(rid, "type_choice_types_from_ident, type_choice_alternates_from_ident and group_choice_alternates_from_ident iterate `cddl.rules` "
                  "forward (iter + filter_map + collect) with no rev/sort/dedup: increments keep document order (RFC 8610 Appendix C)", floor=3)
    f = ctx.facts
    bad = {"rev", "sort", "sort_by", "sort_by_key", "sort_unstable", "dedup", "reverse", "rposition", "rfind", "last", "next_back"}
    for fn in ("type_choice_types_from_ident", "type_choice_alternates_from_ident", "group_choice_alternates_from_ident", "rule_from_ident"):
        fi = f.fn(MOD, fn)
        ms = [n["m"] for n in vf.walk(fi.node) if n["k"] == "mcall"]
        ctx.site(rid, fn, MOD, fi.line, {"method_chain": ms})
        for m in ms:
            if m in bad:
                ctx.violation(rid, "%s|%s" % (fn, m), MOD, fi.line, "%s uses .%s(): rule order is not document order any more" % (fn, m))
        if "iter" not in ms:
            ctx.incomplete_msg(rid, "%s does not iterate cddl.rules with .iter() any more: the iteration idiom is not recognised" % fn)



def r_aliasincr(ctx):
    """the prelude classification of a name follows every rule that defines the name, base rule and /= increments alike"""
    import c05
    import absint
    from absint import Interp, Return, Unknown
    rid = "C08.aliasincr"
    ctx.rule(rid, "the classification predicates of validator/mod.rs (is_ident_*_data_type, through their shared alias traversal) treat a type "
                  "that is spelled as a base rule plus `/=` increments, or by increments only, like the single rule with the same choices: "
                  "`a = tstr` + `a /= uint` and `a = b`, `b /= uint` are integer-classed exactly as `a = tstr / uint` is (abstract "
                  "evaluation of the predicates on those schemas, every crate function they call interpreted)", floor=6)
    f = ctx.facts
    A = c05._cyc_ast()
    ident, t2name, trule, cddl = A["ident"], A["t2name"], A["trule"], A["cddl"]

    def incr(rule):
        r = ("enum", rule[1], dict(rule[2]))
        tr = ("enum", "TypeRule", dict(rule[2]["rule"][2]))
        tr[2]["is_type_choice_alternate"] = True
        r[2]["rule"] = tr
        return r
    cfg = absint.default_cfg
    free = {}
    for fi in f.fns(MOD):
        if fi.impl_self is None and not fi.in_test and all(cfg(c) for c in fi.cfg):
            free.setdefault(fi.name, fi)
    schemas = {
        "a = tstr / uint": (cddl(trule("a", t2name("tstr"), t2name("uint"))), True),
        "a = tstr, a /= uint": (cddl(trule("a", t2name("tstr")), incr(trule("a", t2name("uint")))), True),
        "a /= tstr, a /= uint (increments only)": (cddl(incr(trule("a", t2name("tstr"))), incr(trule("a", t2name("uint")))), True),
        "a = b, b /= uint": (cddl(trule("a", t2name("b")), incr(trule("b", t2name("uint")))), True),
        "a = b, b = tstr, b /= c, c = uint": (cddl(trule("a", t2name("b")), trule("b", t2name("tstr")), incr(trule("b", t2name("c"))), trule("c", t2name("uint"))), True),
        "a = tstr, a /= bool": (cddl(trule("a", t2name("tstr")), incr(trule("a", t2name("bool")))), False),
    }
    pred = None
    for name in ("is_ident_uint_data_type", "is_ident_integer_data_type"):
        if name in free:
            pred = free[name]
            break
    if pred is None:
        raise vf.Incomplete("no integer classification predicate found in %s" % MOD)
    holder = [None]

    def on_call(kind, nm, node, args, recv):
        if kind == "fn" and nm:
            base = nm.split("::")[-1]
            if base in free and (len(nm.split("::")) == 1 or nm.split("::")[0] in ("crate", "super", "self")):
                return (absint.CURRENT or holder[0]).call_fn_node(free[base].node, args)
            if base == "lookup_ident":
                t = args[0][1] if isinstance(args[0], tuple) and args[0][:1] == ("str",) else None
                return ("enum", {"uint": "Token::UINT", "tstr": "Token::TSTR", "bool": "Token::BOOL"}.get(t, "Token::IDENT"), [])
        return NotImplemented
    for label, (schema, want) in schemas.items():
        it = Interp(env={}, cfg=cfg, on_call=on_call, max_steps=100000)
        it.fn_items = lambda nm: nm in free
        holder[0] = it
        try:
            res = it.call_fn_node(pred.node, [schema, ident("a")])
        except Unknown as e:
            ctx.incomplete_msg(rid, "%s: %s" % (label, e))
            continue
        ctx.site(rid, label, MOD, pred.line, {"predicate": pred.name, "result": repr(res), "expected": want})
        if not isinstance(res, bool):
            ctx.incomplete_msg(rid, "%s: %s returned %r" % (label, pred.name, res))
        elif res != want:
            ctx.violation(rid, "incr|%s" % ("missed" if want else "extra"), MOD, pred.line, "%s(a) is %r on the schema `%s` but %r on `a = tstr / uint`: "
                          "spelling a choice with `/=` increments changes how the name is classified" % (pred.name, res, label, want))


def run(ctx):
    import common_val as cv
    ctx.guarded("C08.nameeq", r_nameeq)
    ctx.guarded("C08.restore", r_restore)
    ctx.guarded("C08.order", r_order)
    ctx.guarded("C08.aliasincr", r_aliasincr)
    # a group spelled as a base definition plus //= alternatives accepts what any of its definitions accepts
    import c14
    ctx.guarded("C08.groupincr", lambda c: c14.r_groupchoice(c, "C08.groupincr"))
    ctx.guarded("C08.ctrlrestore.json", lambda c: cv.ctrlrestore_rule(c, "C08j", "json"))
    ctx.guarded("C08.ctrlrestore.cbor", lambda c: cv.ctrlrestore_rule(c, "C08c", "cbor"))
    ctx.guarded("C08.groupref", r_groupref)
    ctx.guarded("C08.argctx.json", lambda c: cv.argctx_rule(c, "C08j", "json"))
    ctx.guarded("C08.argctx.cbor", lambda c: cv.argctx_rule(c, "C08c", "cbor"))
    ctx.guarded("C08.instguard.json", lambda c: cv.instguard_rule(c, "C08j", "json"))
    ctx.guarded("C08.instguard.cbor", lambda c: cv.instguard_rule(c, "C08c", "cbor"))
