"""C05 — no entry point panics, aborts, overflows the stack or hangs (structural clauses)."""
import json
import re
import os

import cg as cgmod
import vf

META = {
    "level": "other",
    "explanation": (
        "Crash/hang signatures decided on the source: (alloc) no allocation in the CBOR decoder is sized by a wire length "
        "(taint through abstract runs of the decoder source, shared with C11); (recursion) every cycle of the name-resolved "
        "call graph that goes through a rule-name lookup passes a function that keeps a visited / in-progress set (tests membership in "
        "and adds to one collection); (cyclic) the alias-following helpers outside the visitors are interpreted from their source on "
        "cyclic type and group schemas and must return within the call-depth bound; (panic) census of "
        "unwrap/expect/panic-family sites in non-test code against a reviewed table with local proofs; (index) census of "
        "index/slice expressions against the frozen reviewed baseline; (rerender) no AST child is rendered twice on one path "
        "of a Display impl (exponential printing); (progress) the occurrence loop of the sequence matcher ends after one "
        "zero-width iteration; (arith) census of arithmetic expressions against a reviewed classification (structural / bounded / "
        "float / unchecked value arithmetic). Time bounds and absolute stack depth are not decided."),
    "assumptions": ["dependencies return Err instead of panicking (trusted)", "name-based call resolution covers free functions and self methods (strong edges)"],
    "trusted_base": ["syn 2 parser", "lib/cg.py", "lib/absint.py", "spec/c05_*.json reviewed tables"],
    "technique": "static analysis: taint via abstract interpretation, call-graph cycle rule, abstract interpretation of the rule-following helpers on cyclic schemas, census against reviewed tables, path rule on Display bodies",
}

MEMBERSHIP_TESTS = {"contains", "contains_key", "any", "binary_search", "get", "position"}
MEMBERSHIP_ADDS = {"push", "insert", "push_back", "push_front", "extend", "entry"}


def visited_set_collections(fi):
    """collections on which the function both tests membership and adds a member (the visited / in-progress set idiom): the
    root expression of the receiver chain, e.g. `open` for `open.iter().any(..)` and `open.push(..)`"""
    tests, adds = {}, {}

    def root(n):
        while True:
            if n["k"] == "mcall" and n["m"] in ("iter", "iter_mut", "as_ref", "as_mut", "borrow", "borrow_mut", "as_slice", "keys", "values", "clone", "lock", "unwrap"):
                n = n["r"]
            elif n["k"] in ("ref", "paren", "un"):
                n = n["e"]
            else:
                return n
    for n in vf.walk(fi.node):
        if n["k"] != "mcall":
            continue
        r = root(n["r"])
        if r["k"] not in ("path", "field"):
            continue
        base = vf.src(r)
        if n["m"] in MEMBERSHIP_TESTS:
            tests.setdefault(base, n["l"])
        if n["m"] in MEMBERSHIP_ADDS:
            adds.setdefault(base, n["l"])
    return sorted(set(tests) & set(adds))


def fn_text_tokens(fi):
    toks = set()
    for n in vf.walk(fi.node):
        if n["k"] == "path":
            toks.add(n["p"])
        elif n["k"] == "field":
            toks.add(n["f"])
        elif n["k"] == "pid":
            toks.add(n["n"])
        elif n["k"] == "mcall":
            toks.add(n["m"])
    return toks


def has_lookup(fi):
    for n in vf.walk(fi.node):
        if n["k"] == "field" and n["f"] == "rules":
            return True
    return False


def lookup_tainted_calls(fi, lookup_names, targets):
    """call sites in fi (to functions in `targets`, matched by name) whose arguments derive from a rule lookup.
    Taint sources: any expression containing `.rules` or a call to a lookup helper.  Taint flows through let /
    if-let / match / for patterns, closure parameters of method chains on tainted receivers, and field/method chains."""
    tainted = set()

    def expr_tainted(e):
        for x in vf.walk(e):
            if x["k"] == "field" and x["f"] == "rules":
                return True
            if x["k"] == "call" and x["f"]["k"] == "path" and x["f"]["p"].split("::")[-1] in lookup_names:
                return True
            if x["k"] == "path" and x["p"] in tainted:
                return True
        return False

    changed = True
    rounds = 0
    while changed and rounds < 12:
        changed = False
        rounds += 1
        for n in vf.walk(fi.node):
            binds = []
            k = n["k"]
            if k == "local" and n.get("init") is not None and expr_tainted(n["init"]):
                binds = vf.pat_bindings(n["pat"])
            elif k == "let" and expr_tainted(n["e"]):
                binds = vf.pat_bindings(n["pat"])
            elif k == "for" and expr_tainted(n["e"]):
                binds = vf.pat_bindings(n["pat"])
            elif k == "match" and expr_tainted(n["e"]):
                for a in n["arms"]:
                    binds += vf.pat_bindings(a["pat"])
            elif k == "macro" and "pat" in n and expr_tainted(n["e"]):
                binds = vf.pat_bindings(n["pat"])
            elif k == "mcall" and expr_tainted(n["r"]):
                for a in n["a"]:
                    if a["k"] == "closure":
                        for p in a["params"]:
                            binds += vf.pat_bindings(p)
            for b in binds:
                if b not in tainted:
                    tainted.add(b)
                    changed = True
    out = []
    for n in vf.walk(fi.node):
        name = None
        args = []
        if n["k"] == "call" and n["f"]["k"] == "path":
            name = n["f"]["p"].split("::")[-1]
            args = n["a"]
        elif n["k"] == "mcall" and vf.src(n["r"]) == "self":
            name = n["m"]
            args = n["a"]
        if name in targets and any(expr_tainted(a) for a in args):
            out.append(n)
    return out


def r_recursion(ctx):
    rid = "C05.recursion"
    ctx.rule(rid, "every cycle of the crate-local call graph (free functions and self methods, all cfg) that contains a function "
                  "performing a rule lookup (iterates `.rules` or calls a lookup helper) also contains a function that keeps a "
                  "visited / in-progress set — it tests membership in a collection and adds to the same collection (whatever it is "
                  "called); cycles without lookups are structural descents over a finite tree", floor=8)
    g = cgmod.CG(ctx.facts)
    direct = {id(fi) for fi in g.fns if has_lookup(fi)}
    guarded = {id(fi) for fi in g.fns if visited_set_collections(fi)}
    for comp in g.sccs():
        comp_set = set(comp)
        # lookup-mediated members: own lookup or a strong call to a lookup function outside the component
        med = set()
        for v in comp:
            if v in direct or any((w in direct and w not in comp_set) for w in g.strong.get(v, ())):
                med.add(v)
        names = sorted(g.byid[v].qual for v in comp)
        rep = g.byid[sorted(comp, key=lambda v: g.key[v])[0]]
        if not med:
            ctx.site(rid, "scc:%s" % "+".join(names)[:150], rep.file, rep.line, {"members": names, "class": "structural descent (no rule lookup on the cycle)"})
            continue
        # remove guarded functions and look for remaining cycles through lookup-mediated functions: a function is
        # offending if, inside the remaining cycle, it passes a lookup-derived argument to a member of that cycle
        rest = {v: {w for w in g.strong.get(v, ()) if w in comp_set and w not in guarded} for v in comp if v not in guarded}
        lookup_names = {g.byid[w].name for w in direct}
        bad = []
        for c2 in g.sccs(rest):
            names2 = {g.byid[w].name for w in c2}
            for v in c2:
                if v in med and lookup_tainted_calls(g.byid[v], lookup_names, names2):
                    bad.append(v)
        cls = "lookup-mediated, guarded by %s" % sorted(g.byid[v].qual for v in comp if v in guarded) if not bad else "lookup-mediated, UNGUARDED"
        ctx.site(rid, "scc:%s" % "+".join(names)[:150], rep.file, rep.line, {"members": names, "class": cls})
        for v in sorted(bad, key=lambda v: g.key[v]):
            fi = g.byid[v]
            ctx.violation(rid, "%s|%s" % (fi.file.split("/")[-1], fi.qual), fi.file, fi.line,
                          "%s recurses through a rule-name lookup with no visited set on the cycle: a cyclic rule reference "
                          "(a = b, b = a) does not terminate (stack overflow)" % fi.qual)


PANIC_MACROS = {"panic", "unreachable", "todo", "unimplemented", "assert", "assert_eq", "assert_ne"}
UNWRAPS = {"unwrap", "expect", "unwrap_err", "expect_err", "unwrap_unchecked"}


def walk_with_parents(n, parents=()):
    if isinstance(n, dict):
        if "k" in n:
            yield n, parents
            parents = parents + (n,)
        for v in n.values():
            if isinstance(v, (dict, list)):
                yield from walk_with_parents(v, parents)
    elif isinstance(n, list):
        for v in n:
            yield from walk_with_parents(v, parents)


def ctrl_unwrap_proved(node, parents):
    """`self.state.ctrl.unwrap()` inside a non-first arm of a match on (&)self.state.ctrl whose earlier arms
    contain an unguarded `None` pattern: the scrutinee is Some here."""
    if vf.src(node.get("r")) != "self.state.ctrl":
        return False
    for i in range(len(parents) - 1, -1, -1):
        p = parents[i]
        if p["k"] == "arm":
            # find the match owning this arm
            for j in range(i - 1, -1, -1):
                m = parents[j]
                if m["k"] == "match" and any(a is p for a in m["arms"]):
                    if vf.src(m["e"]) in ("&self.state.ctrl", "self.state.ctrl"):
                        alts = vf.pat_alternatives(p["pat"])
                        if alts and all((vf.pat_path(x) or "").split("::")[-1] == "Some" for x in alts):
                            return True
                        for a in m["arms"]:
                            if a is p:
                                break
                            if a.get("guard") is None and any(vf.pat_path(x) == "None" for x in vf.pat_alternatives(a["pat"])):
                                return True
                    break
    return False


PANIC_SOURCES = {"get", "get_mut", "first", "last", "find", "position", "rposition", "next", "pop", "parse", "try_into", "try_from", "from_str_radix",
                 "from_u32", "from_utf8", "to_digit", "checked_add", "checked_sub", "checked_mul", "strip_prefix", "strip_suffix", "split_once", "nth",
                 "max", "min", "decode", "lock", "remove", "binary_search", "to_str", "as_u64", "as_i64", "as_f64", "as_str", "as_array", "as_object"}


def r_panic(ctx):
    rid = "C05.panic"
    ctx.rule(rid, "every unwrap/expect/panic!/unreachable!/todo!/unimplemented!/assert! site in non-test code of the cddl crate is "
                  "either locally proved (ctrl.unwrap() in a match arm after the None arm) or listed in spec/c05_panic_reviewed.json "
                  "with the reason it cannot fire; debug_assert! is compiled out of release builds and listed separately", floor=15)
    reviewed = json.load(open(os.path.join(vf.VERIF, "spec", "c05_panic_reviewed.json")))["sites"]
    f = ctx.facts
    for file in sorted(f.files):
        if not file.startswith("src/") or file == "src/parser_tests.rs":
            continue
        counts = {}
        for fi in f.fns(file):
            if fi.in_test:
                continue
            for n, parents in walk_with_parents(fi.node):
                kind = None
                if n["k"] == "mcall" and n["m"] in UNWRAPS:
                    kind = n["m"]
                    what = vf.src(n)[:90]
                elif n["k"] == "macro" and n["name"].split("::")[-1] in PANIC_MACROS:
                    kind = n["name"].split("::")[-1] + "!"
                    what = kind
                if not kind:
                    continue
                arms = [vf.src(p["pat"])[:40] for p in parents if p["k"] == "arm"][-2:]
                base = "%s|%s|%s|in %s" % (file, fi.qual, what, " > ".join(arms) or "-")
                i = counts.get(base, 0)
                counts[base] = i + 1
                key = "%s#%d" % (base, i)
                proved = n["k"] == "mcall" and ctrl_unwrap_proved(n, parents)
                ctx.site(rid, key, file, n["l"], {"kind": kind, "proved": "ctrl-after-None-arm" if proved else ("reviewed" if key in reviewed else None)})
                if proved or key in reviewed:
                    continue
                # the same reviewed expression elsewhere in this file: that code after a move
                if any(k.split("|")[0] == file and k.split("|")[2] == what for k in reviewed):
                    continue
                fallible = kind in UNWRAPS and n["k"] == "mcall" and any(
                    (x["k"] == "mcall" and x["m"] in PANIC_SOURCES) or (x["k"] == "call" and vf.src(x["f"]).split("::")[-1] in PANIC_SOURCES)
                    for x in vf.walk(n["r"]))
                if fallible or kind in ("panic!", "unreachable!", "todo!", "unimplemented!"):
                    ctx.violation(rid, key, file, n["l"], "%s in %s is not covered by a local proof or the reviewed table and %s: a panic site "
                                  "reachable from a public entry point" % (what, fi.qual, "unwraps the result of a lookup / conversion that can fail"
                                                                           if fallible else "panics unconditionally when reached"))
                else:
                    ctx.incomplete_msg(rid, "%s: %s is not in the reviewed table; whether it can fire cannot be decided from the expression — review it and "
                                            "add it to spec/c05_panic_reviewed.json" % (key, what))


def _norm_site(what):
    """expression text with receiver paths reduced to their last segment (a hoisted local or an extracted helper keeps it)"""
    w = re.sub(r"\b(?:self|\w+)(?:\.\w+)*\.(\w+)(?=[\[.])", r"\1", what)
    # local names are not part of a site's identity: `buf[start..]` and `payload[filled..]` are the same site after a rename
    names = {}
    out = []
    toks = re.findall(r"[A-Za-z_][A-Za-z0-9_]*|\.\.=?|::|\s+|.", w)
    for i, t in enumerate(toks):
        if t.isspace():
            continue
        if re.fullmatch(r"[a-z_][a-z0-9_]*", t) and t not in ("as", "mut", "ref", "self", "true", "false") \
                and not re.fullmatch(r"[iuf](8|16|32|64|128|size)", t):
            prev = next((x for x in reversed(toks[:i]) if not x.isspace()), "")
            nxt = next((x for x in toks[i + 1:] if not x.isspace()), "")
            if prev not in (".", "::") and nxt not in ("(", "::", "!") and not (prev and prev[-1].isdigit() and False):
                t = names.setdefault(t, "$%d" % (len(names) + 1))
        out.append(t)
    w = "".join(out)
    return re.sub(r"\bas\b", " as ", w)


def _suspicious_index(what):
    """why a new index site can be driven out of range, judged from its own text; None when that cannot be told"""
    m = re.search(r"\[(.*)\]$", what)
    inner = m.group(1) if m else ""
    if what.endswith((".drain(..)", ".split_off(..)", ".split_at(..)", ".remove(..)", ".swap_remove(..)")):
        return "an argument of a positional Vec/slice operation"
    if ".." in inner and re.search(r"[A-Za-z_]", inner):
        return "a range with computed bounds"
    if re.search(r"[-+*]", inner) and re.search(r"[A-Za-z_]", inner):
        return "computed by arithmetic"
    return None


def r_index(ctx):
    rid = "C05.index"
    ctx.rule(rid, "every index/slice expression `x[i]`, `&s[a..b]` and Vec::{remove,swap_remove,insert,split_off,drain} call in non-test code is in the "
                  "frozen reviewed baseline spec/c05_index_baseline.json (count per function and indexed expression), or is that code after a move "
                  "within its file; a new site whose position is computed (arithmetic, a range with computed bounds, a positional Vec "
                  "operation) is reported, any other new site is left undecided (needs review)", floor=90)
    base = json.load(open(os.path.join(vf.VERIF, "spec", "c05_index_baseline.json")))["sites"]
    f = ctx.facts
    cur = {}
    lines = {}
    for file in sorted(f.files):
        if not file.startswith("src/") or file == "src/parser_tests.rs":
            continue
        for fi in f.fns(file):
            if fi.in_test:
                continue
            for n in vf.walk(fi.node):
                what = None
                if n["k"] == "index":
                    what = "%s[%s]" % (vf.src(n["e"])[:50], vf.src(n["i"])[:50])
                elif n["k"] == "mcall" and n["m"] in ("remove", "swap_remove", "insert", "split_off", "drain", "split_at", "copy_from_slice") \
                        and not vf.src(n["r"]).startswith(("self.validated", "seen", "map")) and vf.src(n["r"]) != "self":
                    what = "%s.%s(..)" % (vf.src(n["r"])[:50], n["m"])
                if what:
                    k = "%s|%s|%s" % (file, fi.qual, what)
                    cur[k] = cur.get(k, 0) + 1
                    lines.setdefault(k, n["l"])
    # reviewed sites that are no longer where they were: an equal expression that shows up elsewhere in the same file is the same
    # code after a move (extracted helper, hoisted local); those are accepted
    spare = {}
    for k, c in base.items():
        if cur.get(k, 0) < c:
            file, _, what = k.split("|", 2)
            spare[(file, _norm_site(what))] = spare.get((file, _norm_site(what)), 0) + c - cur.get(k, 0)
    for k, c in sorted(cur.items()):
        ctx.site(rid, k, k.split("|")[0], lines[k], {"count": c, "baseline": base.get(k, 0)})
        extra = c - base.get(k, 0)
        if extra <= 0:
            continue
        file, fn, what = k.split("|", 2)
        nk = (file, _norm_site(what))
        moved = min(extra, spare.get(nk, 0))
        if moved:
            spare[nk] -= moved
            extra -= moved
        if extra <= 0:
            continue
        # a genuinely new site: decide what can be decided from its shape
        sus = _suspicious_index(what)
        if sus:
            ctx.violation(rid, k, file, lines[k], "new index/slice site whose position is %s (%d now, %d reviewed): it panics when the position is out of "
                          "range or not on a character boundary" % (sus, c, base.get(k, 0)))
        else:
            ctx.incomplete_msg(rid, "%s: index/slice site not in the reviewed baseline; its bound cannot be decided from the expression — review it and "
                                    "add it to spec/c05_index_baseline.json" % k)


RENDER_MACROS = {"write", "writeln", "format", "print", "println"}
REND_CONFIGS = {"default": lambda f: True, "no-ast-comments": lambda f: f != "ast-comments"}


class RenderCount:
    """max number of renderings of one AST child on any single path of a fmt body (path-sensitive: if/match arms are
    alternatives, return/continue/break end the path, cfg-inactive statements are absent, each loop body is one iteration)"""

    def __init__(self, cfg):
        self.cfg = cfg
        self.found = {}   # key -> [lines]

    def active(self, n):
        import absint
        return all(absint.eval_cfg(c, self.cfg) for c in (n.get("cfg") or []))

    # each analysis returns dict key -> (set of counts on continuing paths, max count on terminated paths or None)
    def events(self, e, env, out):
        """collect render events in expression e (no control flow inside) into out: list of (key, line)"""
        if isinstance(e, list):
            for x in e:
                self.events(x, env, out)
            return
        if not isinstance(e, dict):
            return
        k = e.get("k")
        if k in ("if", "match", "for", "while", "loop", "block", "eblock", "closure"):
            return  # handled by flow
        if k == "mcall" and e["m"] == "to_string":
            self.note(e["r"], e, env, out)
        if k == "macro" and e["name"].split("::")[-1] in RENDER_MACROS:
            args = e.get("args") or []
            start = 1 if e["name"].split("::")[-1] in ("write", "writeln") else 0
            for a in args[start + 1:]:
                self.note(a, e, env, out)
        for key, v in e.items():
            if key in ("k", "l", "s"):
                continue
            if isinstance(v, (dict, list)):
                self.events(v, env, out)

    def note(self, expr, node, env, out):
        e = expr
        while e is not None and e["k"] in ("field", "ref", "un", "try") or (e is not None and e["k"] == "mcall" and e["m"] in ("as_ref", "clone")):
            e = e.get("e") or e.get("r")
        if e is None or e["k"] != "path" or "::" in e["p"]:
            return
        r = e["p"]
        if r not in env:
            return
        if expr["k"] == "mcall" and expr["m"] not in ("as_ref", "clone"):
            return
        out.append(((env[r], vf.src(expr).lstrip("&")), node["l"]))


def flow_counts(rc, node, env):
    """returns (cont, term): cont = dict key->set(counts) is represented as list of dicts (one per continuing path
    class) — to stay small we track per key independently: {key: set(counts)}, and term = {key: max}"""
    raise NotImplementedError


def analyse_fmt(fi, cfgname):
    import absint
    feat = REND_CONFIGS[cfgname]
    cfg = lambda c: absint.eval_cfg(c, feat)
    keys = {}

    def active(n):
        return all(cfg(c) for c in (n.get("cfg") or []))
    rc = RenderCount(feat)

    # For one key at a time the state is small: set of counts on live paths + max on ended paths.
    # First collect all keys with their events via a generic walk that tracks binder scopes.
    def binders(pat, bid, env):
        env = dict(env)
        for n in vf.pat_bindings(pat):
            env[n] = bid
        return env

    def seq(stmts, env, key):
        live = {0}
        ended = -1
        for s in stmts:
            if not live:
                break
            if s["k"] == "local":
                if not active(s):
                    continue
                l2, e2 = expr(s.get("init"), env, key)
                live, ended = combine(live, ended, l2, e2)
                if s.get("els") is not None:
                    pass
                # a local string shadows nothing we track
                if s["pat"].get("k") == "pid" and s["pat"]["n"] in env:
                    env = dict(env)
                    env.pop(s["pat"]["n"], None)
            elif s["k"] == "sexpr":
                if not active(s["e"]):
                    continue
                l2, e2 = expr(s["e"], env, key)
                live, ended = combine(live, ended, l2, e2)
        return live, ended

    def combine(live, ended, l2, e2):
        nl = {a + b for a in live for b in l2}
        ne = ended
        if e2 >= 0:
            ne = max(ne, max(live) + e2)
        return nl, ne

    def alt(branches):
        live, ended = set(), -1
        for l, e in branches:
            live |= l
            ended = max(ended, e)
        return live, ended

    def count_events(e, env, key):
        out = []
        rc.events(e, env, out)
        for k2, line in out:
            keys.setdefault(k2, set()).add(line)
        return sum(1 for k2, _ in out if k2 == key)

    def expr(e, env, key):
        """(live counts, ended max) for evaluating expression e"""
        if e is None:
            return {0}, -1
        if isinstance(e, list):
            live, ended = {0}, -1
            for x in e:
                l2, e2 = expr(x, env, key)
                live, ended = combine(live, ended, l2, e2)
                if not live:
                    break
            return live, ended
        k = e["k"]
        if k in ("block",):
            return seq(e["stmts"], env, key)
        if k in ("eblock", "unsafe"):
            return seq(e["b"]["stmts"], env, key)
        if k == "if":
            env2 = env
            c = e["c"]
            cl, ce = expr_flat(c, env, key)
            if c["k"] == "let":
                env2 = binders(c["pat"], id(e), env)
            tl, te = seq(e["t"]["stmts"], env2, key)
            if e.get("e") is not None:
                el, ee = expr(e["e"], env, key)
            else:
                el, ee = {0}, -1
            bl, be = alt([(tl, te), (el, ee)])
            return combine(cl, ce, bl, be)
        if k == "match":
            sl, se = expr_flat(e["e"], env, key)
            brs = []
            for a in e["arms"]:
                if not active(a):
                    continue
                env2 = binders(a["pat"], id(a), env)
                gl, ge = expr_flat(a.get("guard"), env2, key)
                bl, be = expr(a["body"], env2, key)
                brs.append(combine(gl, ge, bl, be))
            bl, be = alt(brs) if brs else ({0}, -1)
            return combine(sl, se, bl, be)
        if k in ("for", "while", "loop"):
            env2 = env
            hl, he = ({0}, -1)
            if k == "for":
                hl, he = expr_flat(e["e"], env, key)
                env2 = binders(e["pat"], id(e), env)
            elif k == "while":
                hl, he = expr_flat(e["c"], env, key)
            bl, be = seq(e["b"]["stmts"], env2, key)
            # one iteration: continue/break end the iteration, not the function: fold ended into live for per-iteration max
            it_max = max(list(bl) + [be])
            # a child bound by this loop is a fresh child per iteration: report the per-iteration maximum
            return combine(hl, he, {it_max if it_max > 0 else 0}, -1)
        if k in ("ret",):
            l, en = expr_flat(e.get("e"), env, key)
            return set(), max(en, max(l) if l else -1)
        if k in ("break", "continue"):
            return set(), 0
        if k == "try":
            l, en = expr(e["e"], env, key)
            return l, en
        if k == "closure":
            env2 = env
            for p in e["params"]:
                env2 = binders(p, id(e), env2)
            return expr(e["body"], env2, key)
        # plain expression: events inside (sub-expressions with control flow handled recursively)
        n = count_events(e, env, key)
        live, ended = {n}, -1
        for key2, v in e.items():
            if key2 in ("k", "l", "s"):
                continue
            for sub in (v if isinstance(v, list) else [v]):
                if isinstance(sub, dict) and sub.get("k") in ("if", "match", "for", "while", "loop", "block", "eblock", "closure"):
                    l2, e2 = expr(sub, env, key)
                    live, ended = combine(live, ended, l2, e2)
                elif isinstance(sub, dict):
                    for d in vf.walk(sub):
                        if d is not sub and d.get("k") in ("if", "match", "for", "while", "loop", "eblock", "closure") and False:
                            pass
        return live, ended

    def expr_flat(e, env, key):
        return expr(e, env, key) if e is not None else ({0}, -1)

    # discover keys with a dummy pass
    env0 = {"self": 0}
    expr(fi.node["body"], env0, None)
    res = {}
    for key in list(keys):
        live, ended = expr(fi.node["body"], env0, key)
        res[key] = max(list(live) + [ended])
    return res, keys


def r_rerender(ctx):
    rid = "C05.rerender"
    ctx.rule(rid, "in every Display::fmt body of src/ast/mod.rs and src/token.rs no child expression (rooted at `self` or at a "
                  "pattern/loop binding) is rendered (to_string()/write!/format!) more than once on any single path, in the default "
                  "and in the no-ast-comments configuration: two renderings of a nested node per level make formatting O(2^depth)", floor=20)
    f = ctx.facts
    for file in ("src/ast/mod.rs", "src/token.rs"):
        for fi in f.fns(file):
            if fi.in_test or fi.impl_trait != "Display" or fi.name != "fmt":
                continue
            worst = {}
            lines = {}
            for cfgname in REND_CONFIGS:
                res, keys = analyse_fmt(fi, cfgname)
                for (bid, s), c in res.items():
                    if c > worst.get(s, 0):
                        worst[s] = c
                        lines[s] = sorted(keys[(bid, s)])
            ctx.site(rid, "%s|%s" % (file, fi.qual), file, fi.line, {"max_renderings_per_path": worst})
            for s, c in sorted(worst.items()):
                if c >= 2:
                    ctx.violation(rid, "%s|%s|%s" % (file, fi.qual, s), file, lines[s][-1],
                                  "%s renders `%s` %d times on one path (lines %s): printing cost multiplies per nesting level"
                                  % (fi.qual, s, c, lines[s]))


def r_alloc(ctx):
    import c11
    rid = "C05.alloc"
    ctx.rule(rid, "a length announced in a CBOR head never sizes an allocation in the decoder (taint over abstract runs of "
                  "decode_value/read_bytes/read_text/decode_array/decode_map on header sequences up to length 2)", floor=1)
    f = ctx.facts
    allocs = {}
    n = 0
    import itertools
    for seq in itertools.chain(c11.sequences(2), c11.TARGETED):
        got, model = c11.classify(f, list(seq))
        n += 1
        if model is not None:
            for a in model.alloc_from_wire:
                allocs[a] = allocs.get(a, 0) + 1
    fi = f.fn(c11.F, "decode_value")
    ctx.site(rid, "taint-runs", c11.F, fi.line, {"sequences": n, "alloc_sites_fed_by_wire_length": sorted("%s@line%d" % k for k in allocs)})
    seen = set()
    for (what, line), cnt in sorted(allocs.items()):
        fn = None
        for g in f.fns(c11.F):
            if g.node["l"] <= line <= g.node.get("le", 10**9) and not g.in_test:
                fn = g.name
        if (fn, what) in seen:
            continue
        seen.add((fn, what))
        ctx.violation(rid, "%s|%s" % (fn, what), c11.F, line, "%s in %s is sized by the length announced in the CBOR head" % (what, fn))
    # any other caller-sized allocation in the crate must be in the reviewed list
    reviewed = json.load(open(os.path.join(vf.VERIF, "spec", "c05_alloc_reviewed.json")))["sites"]
    reviewed_findings = json.load(open(os.path.join(vf.VERIF, "spec", "c05_alloc_reviewed.json"))).get("findings", {})
    for file in sorted(f.files):
        if not file.startswith("src/"):
            continue
        for fi2 in f.fns(file):
            if fi2.in_test:
                continue
            for x in vf.walk(fi2.node):
                what = None
                if x["k"] == "call" and vf.src(x["f"]).endswith("with_capacity"):
                    what = "%s(%s)" % (vf.src(x["f"]), vf.src(x["a"][0])[:40] if x["a"] else "")
                elif x["k"] == "macro" and x["name"] == "vec" and "repeat" in x:
                    what = "vec![_; %s]" % vf.src(x["repeat"][1])[:40]
                elif x["k"] == "mcall" and x["m"] in ("reserve", "reserve_exact", "resize", "repeat"):
                    what = "%s.%s(%s)" % (vf.src(x["r"])[:30], x["m"], vf.src(x["a"][0])[:40] if x["a"] else "")
                if what and file != c11.F:
                    key = "%s|%s|%s" % (file, fi2.qual, what)
                    ctx.site(rid, key, file, x["l"], {"alloc": what, "reviewed": key in reviewed})
                    if key not in reviewed:
                        # the same allocation expression reviewed elsewhere in this file is that code after a move
                        moved = any(k.split("|")[0] == file and k.split("|", 2)[2] == what for k in reviewed)
                        vs = arith_value_sources_cache(f)
                        tainted = any(k.startswith("%s|%s|" % (file, fi2.qual)) for k in vs) and any(nm in what for nm in vs_names(vs, file, fi2.qual))
                        if moved:
                            continue
                        if key in reviewed_findings:
                            ctx.violation(rid, key, file, x["l"], "caller-sized allocation %s: %s" % (what, reviewed_findings[key]))
                            continue
                        if tainted:
                            ctx.violation(rid, key, file, x["l"], "caller-sized allocation %s takes its size from a document or schema number" % what)
                        else:
                            ctx.incomplete_msg(rid, "%s: caller-sized allocation not in the reviewed table; whether its size is bounded cannot be decided "
                                                    "from the expression — review it and add it to spec/c05_alloc_reviewed.json" % key)


def r_progress(ctx):
    import valtables as vt
    rid = "C05.progress"
    ctx.rule(rid, "seq_match_entry (both validators): when an iteration matches without consuming an element the loop ends after that "
                  "single iteration whatever the lower bound is — otherwise `[n* ()]` costs n iterations (a 25-byte schema hangs)", floor=20)
    for w in ("json", "cbor"):
        for r in vt.seq_entry_table(ctx.facts, w):
            if r["iterations_available"] != "Z":
                continue
            key = "%s|%s" % (w, r["occur"])
            ctx.site(rid, key, r["file"], r["line"], {"verdict": r["verdict"]})
            if r["verdict"].startswith("unknown") and "step limit" not in r["verdict"]:
                ctx.incomplete_msg(rid, "%s: the run could not be evaluated (%s)" % (key, r["verdict"]))
            elif r["verdict"].startswith("unknown"):
                ctx.violation(rid, key, r["file"], r["line"], "%s seq_match_entry with occurrence %s on a zero-width entry: the abstract run does not "
                              "terminate within 40 iterations (%s)" % (w, r["occur"], r["verdict"]))
            elif r["verdict"] != r["expected"]:
                ctx.violation(rid, key, r["file"], r["line"], "%s seq_match_entry with occurrence %s on a zero-width entry: %s, expected %s"
                              % (w, r["occur"], r["verdict"], r["expected"]))


ARITH_OPS = ("+", "-", "*", "<<", "+=", "-=", "*=", "<<=")


ARITH_TOP = {}


def arith_sites(f):
    out = {}
    where = {}
    for file in sorted(f.files):
        if not file.startswith("src/") or file in ("src/parser_tests.rs",):
            continue
        for fi in f.fns(file):
            if fi.in_test:
                continue
            for x in vf.walk(fi.node):
                if x["k"] == "bin" and x["op"] in ARITH_OPS and not (x["a"]["k"] == "lit" and x["b"]["k"] == "lit"):
                    key = "%s|%s|%s" % (file, fi.qual, vf.src(x)[:90])
                    out[key] = out.get(key, 0) + 1
                    where.setdefault(key, (file, x["l"]))
                    ARITH_TOP[key] = (x["op"], vf.src(x["b"]))
    return out, where


VALUE_PATTERNS = ("Type2::UintValue", "Type2::IntValue", "Type2::FloatValue", "Value::Integer", "Value::Float", "Value::Number", "token::Value::UINT",
                  "token::Value::INT", "token::Value::FLOAT", "Value::UINT", "Value::INT", "Value::FLOAT", "Header::Positive", "Header::Negative",
                  "Occur::Exact", "TagConstraint::Literal")
VALUE_CALLS = ("as_i64", "as_u64", "as_f64", "parse", "from_str_radix", "as_literal")


def arith_value_sources(f):
    """key -> description, for arithmetic sites one of whose operands names a variable bound to a document / schema number"""
    out = {}
    for file in sorted(f.files):
        if not file.startswith("src/") or file in ("src/parser_tests.rs",):
            continue
        for fi in f.fns(file):
            if fi.in_test:
                continue
            tainted = {}
            for x in vf.walk(fi.node):
                pats = []
                if x["k"] == "arm":
                    pats.append(x["pat"])
                elif x["k"] == "let":
                    pats.append(x["pat"])
                    if any((c["k"] == "mcall" and c["m"] in VALUE_CALLS) for c in vf.walk(x["e"])):
                        for n in vf.pat_bindings(x["pat"]):
                            tainted[n] = "bound from `%s`" % vf.src(x["e"])[:40]
                elif x["k"] == "local" and x.get("init") is not None:
                    if any((c["k"] == "mcall" and c["m"] in VALUE_CALLS) or (c["k"] == "call" and vf.src(c["f"]) in ("i128::from", "i64::from", "u64::from"))
                           for c in vf.walk(x["init"])):
                        for n in vf.pat_bindings(x["pat"]):
                            tainted[n] = "bound from `%s`" % vf.src(x["init"])[:40]
                for p in pats:
                    for y in vf.walk(p):
                        pp = y.get("p")
                        if y["k"] in ("pts", "pstruct") and isinstance(pp, str) and pp.endswith(VALUE_PATTERNS):
                            for n in vf.pat_bindings(y):
                                tainted[n] = "bound by pattern %s" % pp
            if not tainted:
                continue
            for x in vf.walk(fi.node):
                if x["k"] == "bin" and x["op"] in ARITH_OPS and not (x["a"]["k"] == "lit" and x["b"]["k"] == "lit"):
                    names = {y["p"] for side in (x["a"], x["b"]) for y in vf.walk(side) if y["k"] == "path" and "::" not in y["p"]}
                    hit = sorted(n for n in names if n in tainted)
                    if hit:
                        key = "%s|%s|%s" % (file, fi.qual, vf.src(x)[:90])
                        out[key] = "`%s` %s" % (hit[0], tainted[hit[0]])
    return out


_AVS = {}


def arith_value_sources_cache(f):
    if id(f) not in _AVS:
        _AVS[id(f)] = arith_value_sources(f)
    return _AVS[id(f)]


def vs_names(vs, file, qual):
    out = set()
    for k, v in vs.items():
        if k.startswith("%s|%s|" % (file, qual)):
            m = re.match(r"`(\w+)`", v)
            if m:
                out.add(m.group(1))
    return out


def _widened_operands(key):
    """`a + b` / `a - b` whose operands are i128 conversions of narrower integers (`i128::from(x)`, `x as i128`) or i128 literals"""
    op, rhs = ARITH_TOP.get(key, ("", ""))
    if op not in ("+", "-"):
        return False
    expr = key.split("|", 2)[2]
    if expr.endswith("(" + rhs + ")"):
        rhs = "(" + rhs + ")"
    if len(expr) >= 90 or not expr.endswith(rhs):
        return False
    lhs = expr[:len(expr) - len(rhs)].rstrip()
    if not lhs.endswith(op):
        return False
    lhs = lhs[:-len(op)].strip()

    def wide(t):
        t = t.strip()
        while t.startswith("(") and t.endswith(")"):
            t = t[1:-1].strip()
        return bool(re.fullmatch(r"-?\d+_?i128", t) or re.fullmatch(r"i128::from\([^()]*\)", t) or re.fullmatch(r"\*?[\w.]+\s+as\s+i128", t))
    return wide(lhs) and wide(rhs)


def _dominating_conds(fn_node, target_pred):
    """conditions that hold at a node: conjuncts of the conditions of enclosing `if` (then-branch) / `while` and of enclosing match-arm
    guards. Returns a list (one entry per matching target node) of lists of comparison nodes."""
    found = []

    def conj(c, out):
        if isinstance(c, dict) and c.get("k") == "bin" and c.get("op") == "&&":
            conj(c["a"], out)
            conj(c["b"], out)
        elif isinstance(c, dict) and c.get("k") == "paren":
            conj(c["e"], out)
        elif isinstance(c, dict):
            out.append(c)

    def rec(n, conds):
        if isinstance(n, list):
            for v in n:
                rec(v, conds)
            return
        if not isinstance(n, dict):
            return
        if target_pred(n):
            found.append(list(conds))
        k = n.get("k")
        if k == "if":
            rec(n.get("c"), conds)
            extra = []
            conj(n.get("c"), extra)
            rec(n.get("t"), conds + extra)
            rec(n.get("e"), conds)
            return
        if k == "while":
            extra = []
            conj(n.get("c"), extra)
            rec(n.get("c"), conds)
            rec(n.get("b"), conds + extra)
            return
        if k == "arm":
            extra = []
            if n.get("guard") is not None:
                conj(n["guard"], extra)
                rec(n["guard"], conds)
            rec(n.get("pat"), conds)
            rec(n.get("body"), conds + extra)
            return
        if k == "closure":
            # a closure body runs later: the enclosing conditions still held when it was created only if it is called in place; keep them
            pass
        for kk, v in n.items():
            if isinstance(v, (dict, list)):
                rec(v, conds)
    rec(fn_node, [])
    return found


def _sub_guarded(a_src, b_src, conds):
    """does one of the conditions say a >= b (for unsigned operands)?"""
    a, b = a_src.replace(" ", ""), b_src.replace(" ", "")
    for c in conds:
        if c.get("k") != "bin":
            continue
        l, r, op = vf.src(c["a"]).replace(" ", ""), vf.src(c["b"]).replace(" ", ""), c["op"]
        if (op in (">", ">=") and l == a and r == b) or (op in ("<", "<=") and l == b and r == a):
            return True
        if b in ("1", "1usize") and ((op == ">" and l == a) or (op == "<" and r == a) or (op == ">=" and l == a and r not in ("0", "0usize")) or (op == "!=" and l == a and r in ("0", "0usize"))):
            return True     # a > x (unsigned x) or a != 0 gives a >= 1
    return False


def r_arith(ctx):
    rid = "C05.arith"
    ctx.rule(rid, "every integer/float arithmetic expression (+ - * << and their assigning forms) in non-test code of the cddl crate is in the "
                  "reviewed table spec/c05_arith_reviewed.json, classified as structural (counters, lengths and positions bounded by the "
                  "size of data already in memory), widened/bounded (operands range-checked or widened first), float (cannot panic) or "
                  "value arithmetic on document/schema numbers; unchecked value arithmetic panics in overflow-checked builds and wraps "
                  "otherwise, so a site of that class is reported; a site the table does not list is decided by provenance: reported when an operand is "
                  "bound to a document or schema number (pattern on a numeric Value / literal node, as_i64/as_u64/as_f64, i128::from), accepted as "
                  "structural otherwise", floor=80)
    rv = json.load(open(os.path.join(vf.VERIF, "spec", "c05_arith_reviewed.json")))
    sites, where = arith_sites(ctx.facts)
    value_sources = arith_value_sources(ctx.facts)
    for key, n in sorted(sites.items()):
        file, line = where[key]
        ent = rv["sites"].get(key)
        ctx.site(rid, key, file, line, {"count": n, "class": ent["class"] if ent else None})
        if ent is None:
            # a site the table does not know (new code, or a reviewed expression whose text changed): decide it by provenance —
            # only arithmetic on numbers taken from the document or from schema literals can be driven to overflow by an input
            src = value_sources.get(key)
            if src and _widened_operands(key):
                ctx.site(rid, key + "|auto-widened", file, line, {"note": "both operands are 128-bit conversions of narrower integers or literals: + and - cannot leave the i128 range"})
            elif src:
                ctx.violation(rid, key, file, line, "unreviewed arithmetic on a number that comes from the document or the schema (%s): it must be "
                              "checked_*, saturating_* or widened — plain operators panic in overflow-checked builds and wrap otherwise" % src)
            elif ARITH_TOP.get(key, ("", ""))[0] in ("-", "-="):
                # an unreviewed subtraction: lengths and counters are unsigned, `a - b` panics (or wraps) when b > a
                expr = key.split("|", 2)[2]
                rhs = ARITH_TOP[key][1]
                moved = any(k.split("|")[0] == file and _norm_site(k.split("|", 2)[2]) == _norm_site(expr) and sites.get(k, 0) < rv["sites"][k].get("count", 1)
                            for k in rv["sites"])
                if moved:
                    ctx.site(rid, key + "|moved", file, line, {"note": "the reviewed expression, moved within its file"})
                elif re.search(r"\.(len|count)\(\)", rhs) and re.search(r"\.(len|count)\(\)", expr[:len(expr) - len(rhs)]):
                    ctx.violation(rid, key, file, line, "unreviewed subtraction of one length from another: unsigned `a.len() - b.len()` underflows when the "
                                  "second is larger; it needs saturating_sub / checked_sub or a review entry naming the guard that makes it safe")
                else:
                    ctx.incomplete_msg(rid, "%s: unreviewed subtraction; whether the left operand is always at least as large as the right one cannot be "
                                            "decided from the expression — review it and add it to spec/c05_arith_reviewed.json" % key)
            else:
                ctx.site(rid, key + "|auto-structural", file, line, {"note": "not in the reviewed table; operands are lengths, counters or positions"})
        elif n > ent.get("count", 1) and (key in value_sources or ent["class"] != "structural"):
            ctx.violation(rid, key + "|count", file, line, "%d occurrences of this expression, %d reviewed (class %s)" % (n, ent.get("count", 1), ent["class"]))
        elif ent["class"] == "unchecked-value":
            ctx.violation(rid, key, file, line, "unchecked arithmetic on a document/schema number: %s" % ent["why"])
        elif ent.get("guard") == "comparison" and ARITH_TOP.get(key, ("", ""))[0] == "-":
            # reviewed as safe because a comparison of the two operands dominates the subtraction: the comparison has to be there still
            fq = key.split("|")[1]
            expr = key.split("|", 2)[2]
            ok, seen_site = False, False
            for fi in ctx.facts.fns(file):
                if fi.qual != fq or fi.in_test:
                    continue
                for conds in _dominating_conds(fi.node, lambda n: n.get("k") == "bin" and n.get("op") == "-" and vf.src(n)[:90] == expr):
                    seen_site = True
                    rhs = ARITH_TOP[key][1]
                    lhs = expr[:len(expr) - len(rhs) - 1]
                    ok = _sub_guarded(lhs, rhs, conds)
                    if not ok:
                        break
            if seen_site and not ok:
                ctx.violation(rid, key + "|guard", file, line, "the unsigned subtraction `%s` was reviewed as safe because a comparison of its operands "
                              "dominates it (%s); no enclosing if / match-arm guard compares them that way any more, so it underflows (panic in "
                              "overflow-checked builds, a huge repeat count otherwise) when the right operand is larger" % (expr, ent["why"]))



# ------------------------------------------------------------------ cyclic schemas through the alias-following helpers
CYC_FILES = ("src/validator/mod.rs", "src/validator/control.rs")


def _cyc_ast():
    """constructors of abstract AST values (the fields the helpers read; positions and comments are opaque)"""
    from absint import MutList, OPAQUE

    def ident(n):
        return ("enum", "Identifier", {"ident": ("str", n), "socket": ("None",), "span": OPAQUE})

    def t2name(n):
        return ("enum", "Type2::Typename", {"ident": ident(n), "generic_args": ("None",), "span": OPAQUE})

    def t2text(v):
        return ("enum", "Type2::TextValue", {"value": ("str", v), "span": OPAQUE})

    def t2uint(v):
        return ("enum", "Type2::UintValue", {"value": v, "span": OPAQUE})

    def t2paren(*t2s):
        return ("enum", "Type2::ParenthesizedType", {"pt": ty(*t2s), "span": OPAQUE, "comments_before_type": ("None",), "comments_after_type": ("None",)})

    def t2array(*ges):
        return ("enum", "Type2::Array", {"group": group(gchoice(*ges)), "span": OPAQUE, "comments_before_group": ("None",), "comments_after_group": ("None",)})

    def ge_value(t2):
        return ("enum", "GroupEntry::ValueMemberKey", {"ge": ("enum", "ValueMemberKeyEntry", {"occur": ("None",), "member_key": ("None",), "entry_type": ty(t2)}), "span": OPAQUE})

    def ty(*t2s):
        return ("enum", "Type", {"type_choices": MutList([("enum", "TypeChoice", {"type1": ("enum", "Type1", {"type2": t, "operator": ("None",), "span": OPAQUE,
                                 "comments_after_type": ("None",)}), "comments_before_type": ("None",), "comments_after_type": ("None",)}) for t in t2s]), "span": OPAQUE})

    def trule(name, *t2s):
        return ("enum", "Rule::Type", {"rule": ("enum", "TypeRule", {"name": ident(name), "generic_params": ("None",), "is_type_choice_alternate": False,
                                                                      "value": ty(*t2s)}), "span": OPAQUE})

    def ge_name(n):
        return ("enum", "GroupEntry::TypeGroupname", {"ge": ("enum", "TypeGroupnameEntry", {"occur": ("None",), "name": ident(n), "generic_args": ("None",)}), "span": OPAQUE})

    def ge_member(key, t2):
        return ("enum", "GroupEntry::ValueMemberKey", {"ge": ("enum", "ValueMemberKeyEntry", {"occur": ("None",), "member_key": ("Some", ("enum", "MemberKey::Bareword", {"ident": ident(key)})),
                                                                                             "entry_type": ty(t2)}), "span": OPAQUE})

    def gchoice(*ges):
        return ("enum", "GroupChoice", {"group_entries": MutList([("tuple", [g, ("enum", "OptionalComma", {"optional_comma": False})]) for g in ges]), "span": OPAQUE})

    def group(*gcs):
        return ("enum", "Group", {"group_choices": MutList(list(gcs)), "span": OPAQUE})

    def ge_inline(*ges):
        return ("enum", "GroupEntry::InlineGroup", {"occur": ("None",), "group": group(gchoice(*ges)), "span": OPAQUE})

    def grule(name, entry, alt=False):
        return ("enum", "Rule::Group", {"rule": ("enum", "GroupRule", {"name": ident(name), "generic_params": ("None",), "is_group_choice_alternate": alt, "entry": entry}),
                                        "span": OPAQUE})

    def cddl(*rules):
        return ("enum", "CDDL", {"rules": MutList(list(rules))})
    return locals()


def r_cyclic(ctx):
    import absint
    from absint import Interp, MutList, Return, Unknown, OPAQUE
    rid = "C05.cyclic"
    ctx.rule(rid, "the helpers of src/validator/{mod,control}.rs that follow rule names outside the visitors (literal collection for .cat/.plus, "
                  "text_value_from_ident, unwrap_rule_from_ident, type_choices_from_group_choice, entry_counts_from_group, and the prelude "
                  "classification predicates) return on cyclic schemas: each is interpreted from its source on a = a; a = b, b = a; a = b, b = c, "
                  "c = a; a diamond; and the group cycles g = (x: 1, h), h = (y: 2, g), with every crate function it calls interpreted too; "
                  "a run that exceeds the call-depth or step bound is reported as non-termination", floor=30)
    f = ctx.facts
    A = _cyc_ast()
    ident, t2name, t2text, t2uint, trule, grule, ge_name, ge_member, ge_inline, gchoice, group, cddl = (A[k] for k in (
        "ident", "t2name", "t2text", "t2uint", "trule", "grule", "ge_name", "ge_member", "ge_inline", "gchoice", "group", "cddl"))
    t2paren, t2array, ge_value = A["t2paren"], A["t2array"], A["ge_value"]
    cfg = absint.default_cfg
    free = {}
    for file in CYC_FILES:
        for fi in f.fns(file):
            if fi.impl_self is None and not fi.in_test and all(cfg(c) for c in fi.cfg):
                free.setdefault(fi.name, fi)
    type_schemas = {
        "a = a": cddl(trule("a", t2name("a"))),
        "a = b, b = a": cddl(trule("a", t2name("b")), trule("b", t2name("a"))),
        "a = b, b = c, c = a": cddl(trule("a", t2name("b")), trule("b", t2name("c")), trule("c", t2name("a"))),
        "a = b / \"x\", b = a / 1": cddl(trule("a", t2name("b"), t2text("x")), trule("b", t2name("a"), t2uint(1))),
        # the cycle closes through a parenthesised type / a two-element array (the shapes text_value_from_type2 looks into)
        "a = (b), b = (a)": cddl(trule("a", t2paren(t2name("b"))), trule("b", t2paren(t2name("a")))),
        "a = b, b = (c), c = (b)": cddl(trule("a", t2name("b")), trule("b", t2paren(t2name("c"))), trule("c", t2paren(t2name("b")))),
        "a = [b, 1], b = [a, 1]": cddl(trule("a", t2array(ge_value(t2name("b")), ge_value(t2uint(1)))), trule("b", t2array(ge_value(t2name("a")), ge_value(t2uint(1))))),
        "a = b / c, b = d, c = d, d = \"x\" (acyclic diamond)": cddl(trule("a", t2name("b"), t2name("c")), trule("b", t2name("d")), trule("c", t2name("d")),
                                                                  trule("d", t2text("x"))),
    }
    group_schemas = {
        "g = (x: 1, h), h = (y: 2, g)": cddl(grule("g", ge_inline(ge_member("x", t2uint(1)), ge_name("h"))), grule("h", ge_inline(ge_member("y", t2uint(2)), ge_name("g")))),
        "g = (g)": cddl(grule("g", ge_inline(ge_name("g")))),
        # groups that exist only as `//=` alternatives, or whose cycle closes through an alternative (no base rule to find)
        "g //= (x: 1, g)": cddl(grule("g", ge_inline(ge_member("x", t2uint(1)), ge_name("g")), True)),
        "g //= (x: 1, h), h //= (y: 2, g)": cddl(grule("g", ge_inline(ge_member("x", t2uint(1)), ge_name("h")), True),
                                                 grule("h", ge_inline(ge_member("y", t2uint(2)), ge_name("g")), True)),
        "g = (x: 1), g //= (y: 2, g)": cddl(grule("g", ge_inline(ge_member("x", t2uint(1)))), grule("g", ge_inline(ge_member("y", t2uint(2)), ge_name("g")), True)),
        "g = (x: 1, h), h = (y: 2) (acyclic)": cddl(grule("g", ge_inline(ge_member("x", t2uint(1)), ge_name("h"))), grule("h", ge_inline(ge_member("y", t2uint(2))))),
    }
    # entry points: name -> (argument builder, schemas)
    by_ident = lambda c: [c, ident("a")]
    entries = []
    for name in ("string_literals_from_ident", "numeric_values_from_ident", "text_value_from_ident", "unwrap_rule_from_ident"):
        entries.append((name, by_ident, type_schemas))
    for name in sorted(free):
        if name.startswith("is_ident_") and len([i for i in free[name].node["sig"]["inputs"]]) == 2:
            entries.append((name, by_ident, type_schemas))
    entries.append(("cat_operation", lambda c: [c, t2text("x"), t2name("a"), False], type_schemas))
    entries.append(("cat_operation", lambda c: [c, t2name("a"), t2text("x"), False], type_schemas))
    entries.append(("plus_operation", lambda c: [c, t2uint(1), t2name("a")], type_schemas))
    entries.append(("plus_operation", lambda c: [c, t2name("a"), t2uint(1)], type_schemas))
    entries.append(("type_choices_from_group_choice", lambda c: [c, gchoice(ge_name("g"))], group_schemas))
    entries.append(("entry_counts_from_group", lambda c: [c, group(gchoice(ge_name("g")))], group_schemas))

    depth = [0]

    def on_call(kind, nm, node, args, recv):
        if kind == "fn" and nm:
            base = nm.split("::")[-1]
            if nm in ("GroupChoice::new",) and args:
                lst = args[0][1] if isinstance(args[0], tuple) and args[0][:1] == ("list",) else list(args[0])
                return gchoice(*lst)
            if base in free and (len(nm.split("::")) == 1 or nm.split("::")[0] in ("crate", "super", "self", "validator", "control")):
                depth[0] += 1
                try:
                    if depth[0] > 40:
                        raise Unknown("call depth 40 exceeded in %s" % base)
                    return (absint.CURRENT or it_holder[0]).call_fn_node(free[base].node, args)
                finally:
                    depth[0] -= 1
            if base == "lookup_ident":
                return ("enum", "Token::IDENT", [args[0] if args else OPAQUE])
        if kind == "method":
            if nm == "into" and isinstance(recv, tuple) and len(recv) == 3 and isinstance(recv[1], str) and recv[1].startswith("GroupEntry::"):
                return group(gchoice(recv))
        return NotImplemented
    it_holder = [None]
    n = 0
    for name, mkargs, schemas in entries:
        fi = free.get(name)
        if fi is None:
            ctx.incomplete_msg(rid, "%s not found in %s" % (name, "/".join(CYC_FILES)))
            continue
        for label, c in schemas.items():
            it = Interp(env={}, cfg=cfg, on_call=on_call, max_steps=60000)
            it._inline_depth = 0
            it.fn_items = lambda nm: nm in free
            it_holder[0] = it
            depth[0] = 0
            args = mkargs(c)
            key = "%s(%s)|%s" % (name, ",".join(a[1].split("::")[-1] for a in args[1:] if isinstance(a, tuple) and a[:1] == ("enum",)), label)
            try:
                res = it.call_fn_node(fi.node, args)
                verdict = "returns"
            except Unknown as e:
                msg = str(e)
                if "depth" in msg or "step limit" in msg:
                    verdict = "does not return: %s" % msg
                else:
                    verdict = None
                    ctx.incomplete_msg(rid, "%s: %s" % (key, msg))
            except RecursionError:
                verdict = "does not return: recursion without bound"
            n += 1
            ctx.site(rid, key, fi.file, fi.line, {"verdict": verdict})
            if verdict and verdict != "returns":
                ctx.violation(rid, "%s|%s" % (name, "cyclic" if "acyclic" not in label else "acyclic"), fi.file, fi.line,
                              "%s on the schema `%s` %s — a cyclic rule reference overflows the stack or hangs" % (name, label, verdict))
    ctx.extra["evaluations"] = ctx.extra.get("evaluations", 0) + n
    ctx.extra["distinct_nontrivial"] = ctx.extra.get("distinct_nontrivial", 0) + n



def run(ctx):
    ctx.guarded("C05.cyclic", r_cyclic)
    ctx.guarded("C05.arith", r_arith)
    ctx.guarded("C05.progress", r_progress)
    ctx.guarded("C05.alloc", r_alloc)
    ctx.guarded("C05.recursion", r_recursion)
    ctx.guarded("C05.panic", r_panic)
    ctx.guarded("C05.index", r_index)
    ctx.guarded("C05.rerender", r_rerender)
