"""A small abstract interpreter over the syntax trees dumped by srcfacts.

It evaluates *extracted source* (never compiled code) on representative points of a finite abstract domain:
values that a predicate only touches through comparisons are represented by concrete numbers chosen per
order type, everything the rule does not model is OPAQUE, and branching on an OPAQUE value raises Unknown
(the instance is then reported as not analysable — fail closed — never as a pass).

Value model
  int / float / bool           numbers and truth values
  ("Some", v) / ("None",)      Option
  ("Ok", v) / ("Err", v)       Result
  ("enum", path, fields)       enum/struct value: fields is a dict (named) or list (tuple)
  ("tuple", [..])              tuple
  ("str", s)                   known string
  OPAQUE                       anything else
"""

OPAQUE = ("opaque",)


class Unknown(Exception):
    pass


class MutList(list):
    """a mutable Vec / String under construction (identity matters: push mutates)"""
    kind = "vec"

    def __repr__(self):
        return "%s%s" % (self.kind, list.__repr__(self))


class PyIter(MutList):
    """a consuming iterator: next() removes the front element, a `for` loop sees what is left"""
    kind = "iter"


class PyMap(dict):
    """HashMap / BTreeMap / HashSet (values None) model; keys must be hashable model values"""
    kind = "map"


def hkey(v):
    if isinstance(v, tuple):
        return tuple(hkey(x) for x in v)
    if isinstance(v, list):
        return ("list",) + tuple(hkey(x) for x in v)
    if isinstance(v, dict):
        return ("dict",) + tuple(sorted((k, hkey(x)) for k, x in v.items()))
    return v


class Wire(int):
    """an integer that came from untrusted input (e.g. a CBOR head length)"""
    def __repr__(self):
        return "wire(%d)" % int(self)


class Return(Exception):
    def __init__(self, v):
        self.v = v


class Break(Exception):
    def __init__(self, label=None, v=None):
        self.label = label
        self.v = v


class Continue(Exception):
    def __init__(self, label=None):
        self.label = label


def default_cfg(c):
    """default configuration: every cargo feature on, not wasm32, not test"""
    return eval_cfg(c, lambda f: f not in ("lsp", "_build-parser"))


def default_cfg_all(node):
    """is a node with cfg attributes active in the default configuration?"""
    return all(default_cfg(c) for c in (node.get("cfg") or []))


def eval_cfg(c, feat):
    c = c.strip()
    # tiny recursive parser for cfg predicates (normalised: no spaces around punctuation)
    def parse(s, i):
        if s.startswith("not(", i):
            v, j = parse(s, i + 4)
            assert s[j] == ")", s
            return (not v), j + 1
        for kw, comb in (("all(", all), ("any(", any)):
            if s.startswith(kw, i):
                j = i + len(kw)
                vals = []
                while s[j] != ")":
                    v, j = parse(s, j)
                    vals.append(v)
                    if s[j] == ",":
                        j += 1
                return comb(vals), j + 1
        # key="value" or bare word
        j = i
        while j < len(s) and s[j] not in ",)":
            if s[j] == '"':
                j = s.index('"', j + 1)
            j += 1
        atom = s[i:j]
        if atom.startswith("feature="):
            return bool(feat(atom.split("=", 1)[1].strip('"'))), j
        if atom.startswith("target_arch="):
            return atom.split("=", 1)[1].strip('"') != "wasm32", j
        if atom == "test":
            return False, j
        if atom == "debug_assertions":
            return True, j
        return True, j
    v, _ = parse(c, 0)
    return v


def vf_src(n):
    import vf
    return vf.src(n)


MUTATING_OPTION_METHODS = {"get_or_insert", "get_or_insert_with", "insert", "replace", "take", "as_mut", "take_if", "get_or_insert_default", "zip", "xor"}
PURE_CONTAINER_METHODS = {"as_ref", "as_slice", "as_str", "borrow", "to_vec", "to_owned", "clone", "join", "concat", "capacity", "hash", "eq", "ne",
                          "to_string", "as_mut", "as_bytes", "deref", "first", "last", "get", "contains_key", "binary_search", "starts_with", "ends_with"}


CURRENT = None

VALUE_KIND_PREDICATES = {
    "is_array": ("Array",), "is_object": ("Object",), "is_string": ("String",), "is_number": ("Number",), "is_boolean": ("Bool",),
    "is_null": ("Null",), "is_map": ("Map",), "is_text": ("Text",), "is_bytes": ("Bytes",), "is_bool": ("Bool",), "is_integer": ("Integer",),
    "is_float": ("Float",), "is_tag": ("Tag",),
}


def has_opaque(v, depth=0):
    """does an abstract value contain a part that could not be evaluated?"""
    if v is OPAQUE or v == ("opaque",):
        return True
    if depth > 12:
        return False
    if isinstance(v, dict):
        return any(has_opaque(x, depth + 1) for k, x in v.items() if not (isinstance(k, str) and k.startswith("_")) and k != "k") if v.get("k") != "closure" else False
    if isinstance(v, (list, tuple)):
        return any(has_opaque(x, depth + 1) for x in v)
    return False


class Interp:
    def __init__(self, env=None, src_env=None, cfg=default_cfg, on_call=None, max_steps=200000):
        self.scopes = [dict(env or {})]
        self.src_env = src_env or {}
        self.cfg = cfg
        self.on_call = on_call  # fn(kind, name, node, args, recv) -> value or NotImplemented
        self.effects = []
        self.steps = 0
        self.max_steps = max_steps
        self.consts = {}

    # ---- environment ----
    def lookup(self, name):
        for s in reversed(self.scopes):
            if name in s:
                return s[name]
        return None

    def bind(self, name, v):
        self.scopes[-1][name] = v

    def assign(self, name, v):
        for s in reversed(self.scopes):
            if name in s:
                s[name] = v
                return
        self.scopes[-1][name] = v

    def active(self, node):
        for c in node.get("cfg") or []:
            if not self.cfg(c):
                return False
        return True

    # ---- patterns ----
    def match(self, v, p):
        """returns dict of bindings or None (no match); raises Unknown if undecidable"""
        k = p["k"]
        if k == "pwild" or k == "prest":
            return {}
        if k == "pid":
            n = p["n"]
            if n[:1].isupper() and not p.get("sub"):
                return self._match_path(v, n, None, p)
            b = {n: v}
            if p.get("sub"):
                m = self.match(v, p["sub"])
                if m is None:
                    return None
                b.update(m)
            return b
        if k == "pref":
            return self.match(v, p["pat"])
        if k == "ptype":
            return self.match(v, p["pat"])
        if k == "por":
            for c in p["c"]:
                m = self.match(v, c)
                if m is not None:
                    return m
            return None
        if k == "plit":
            lv = self.eval(p["e"])
            if v is OPAQUE:
                raise Unknown("literal pattern against opaque value")
            if isinstance(v, tuple) and v[0] == "str" and isinstance(lv, tuple) and lv[0] == "str":
                return {} if v[1] == lv[1] else None
            return {} if v == lv else None
        if k == "ptuple":
            if v is OPAQUE:
                raise Unknown("tuple pattern against opaque value")
            if not (isinstance(v, tuple) and v[0] == "tuple"):
                raise Unknown("tuple pattern against %r" % (v,))
            b = {}
            for x, q in zip(v[1], p["e"]):
                m = self.match(x, q)
                if m is None:
                    return None
                b.update(m)
            return b
        if k == "pslice":
            if v is OPAQUE:
                raise Unknown("slice pattern against opaque value")
            if isinstance(v, tuple) and v[:1] == ("list",):
                items = list(v[1])
            elif isinstance(v, MutList):
                items = list(v)
            elif isinstance(v, tuple) and v[:1] == ("bytesof",):
                items = list(v[1])
            else:
                raise Unknown("slice pattern against %r" % (v,))
            pats = p["e"]
            rest = [i for i, q in enumerate(pats) if q["k"] == "prest" or (q["k"] == "pid" and q.get("sub", {}).get("k") == "prest")]
            b = {}
            if not rest:
                if len(items) != len(pats):
                    return None
                pairs = zip(items, pats)
            else:
                ri = rest[0]
                head, tail = pats[:ri], pats[ri + 1:]
                if len(items) < len(head) + len(tail):
                    return None
                if pats[ri]["k"] == "pid":
                    b[pats[ri]["n"]] = ("list", items[len(head):len(items) - len(tail)])
                pairs = list(zip(items[:len(head)], head)) + list(zip(items[len(items) - len(tail):], tail)) if tail else list(zip(items[:len(head)], head))
            for x, q in pairs:
                m = self.match(x, q)
                if m is None:
                    return None
                b.update(m)
            return b
        if k == "ppath":
            return self._match_path(v, p["p"], None, p)
        if k == "pts":
            return self._match_path(v, p["p"], p["e"], p)
        if k == "pstruct":
            return self._match_path(v, p["p"], p["f"], p)
        raise Unknown("pattern kind %s" % k)

    def _match_path(self, v, path, sub, p):
        last = path.split("::")[-1]
        if path in self.consts and sub is None:
            if v is OPAQUE:
                raise Unknown("constant pattern %s against opaque value" % path)
            return {} if v == self.consts[path] else None
        if v is OPAQUE:
            raise Unknown("pattern %s against opaque value" % path)
        if path.split("::")[-2:-1] == ["Cow"] and last in ("Borrowed", "Owned") and sub and len(sub) == 1 \
                and not (isinstance(v, tuple) and v[:1] == ("enum",) and "Cow" in v[1]):
            # strings are modelled without the Cow wrapper: Borrowed / Owned is not observable, the payload is
            return self.match(v, sub[0])
        if last in ("Some", "None") and isinstance(v, tuple) and v[0] in ("Some", "None"):
            if v[0] != last:
                return None
            if last == "Some" and sub:
                return self.match(v[1], sub[0])
            return {}
        if last in ("Ok", "Err") and isinstance(v, tuple) and v[0] in ("Ok", "Err"):
            if v[0] != last:
                return None
            if sub:
                return self.match(v[1], sub[0])
            return {}
        if isinstance(v, tuple) and v[0] == "enum":
            vp = v[1]
            # compare by the last two path segments when both have them, else the last
            a, b = vp.split("::"), path.split("::")
            n = min(len(a), len(b), 2)
            if a[-n:] != b[-n:]:
                return None
            if sub is None:
                return {}
            binds = {}
            if p["k"] == "pts":
                fields = v[2] if isinstance(v[2], list) else list(v[2].values())
                for x, q in zip(fields, sub):
                    if q["k"] == "prest":
                        break
                    m = self.match(x, q)
                    if m is None:
                        return None
                    binds.update(m)
                return binds
            for f in sub:
                fv = v[2].get(f["n"], OPAQUE) if isinstance(v[2], dict) else OPAQUE
                m = self.match(fv, f["pat"])
                if m is None:
                    return None
                binds.update(m)
            return binds
        if isinstance(v, bool) and last in ("true", "false"):
            return {} if v == (last == "true") else None
        raise Unknown("pattern %s against %r" % (path, v))

    # ---- expressions ----
    def truth(self, v):
        if isinstance(v, bool):
            return v
        raise Unknown("branch on non-boolean %r" % (v,))

    def eval(self, e):
        self.steps += 1
        if self.steps > self.max_steps:
            raise Unknown("step limit")
        if e is None:
            return ("tuple", [])
        s = e.get("s")
        if s is not None and s in self.src_env:
            v = self.src_env[s]
            return v(self, e) if callable(v) else v
        k = e["k"]
        m = getattr(self, "e_" + k, None)
        if m is None:
            return OPAQUE
        return m(e)

    def e_lit(self, e):
        t = e["t"]
        if t == "int":
            return int(e["v"])
        if t == "float":
            return float(e["v"])
        if t == "bool":
            return bool(e["v"])
        if t in ("str", "char"):
            return ("str", e["v"])
        if t == "byte":
            return int(e["v"])
        if t == "bytestr":
            return ("bytesof", e["v"].encode())
        return OPAQUE

    def e_path(self, e):
        p = e["p"]
        if "::" not in p:
            v = self.lookup(p)
            if v is not None:
                return v
            if p in self.consts:
                return self.consts[p]
            if p == "None":
                return ("None",)
            if p in ("true", "false"):
                return p == "true"
            fn_items = getattr(self, "fn_items", None)
            if fn_items is not None and fn_items(p):
                return ("fnitem", p)        # a function used as a value (`&is_string_literal` passed as `&dyn Fn`)
            return OPAQUE
        last = p.split("::")[-1]
        if p in self.consts:
            return self.consts[p]
        if p in ("f64::EPSILON", "std::f64::EPSILON", "core::f64::EPSILON"):
            return 2.220446049250313e-16
        if p in ("f64::INFINITY",):
            return float("inf")
        if p in ("u64::MAX", "usize::MAX"):
            return 2**64 - 1
        if p in ("i64::MAX",):
            return 2**63 - 1
        if p in ("i64::MIN",):
            return -2**63
        if last[:1].isupper():
            return ("enum", p, [])
        segs = p.split("::")
        if len(segs) >= 2 and segs[-2] == "Rule":
            return ("enum", p, [])      # pest's generated Rule enum has lower-case variants
        return OPAQUE

    def e_ref(self, e):
        return self.eval(e["e"])

    def e_un(self, e):
        v = self.eval(e["e"])
        op = e["op"]
        if op == "*":
            if isinstance(v, tuple) and v[:1] == ("slotref",):
                return v[1][v[2]]          # a `&mut V` into a map slot (entry().or_insert(..))
            return v
        if op == "!":
            if isinstance(v, bool):
                return not v
            if v is OPAQUE:
                return OPAQUE
            raise Unknown("! on %r" % (v,))
        if op == "-":
            if isinstance(v, (int, float)) and not isinstance(v, bool):
                return -v
            return OPAQUE
        return OPAQUE

    def e_cast(self, e):
        v = self.eval(e["e"])
        ty = e["ty"]
        if isinstance(v, bool):
            return int(v)
        if isinstance(v, float) and ty in ("i64", "u64", "i128", "u128", "usize", "isize", "i32", "u32", "u8", "u16", "i16", "i8"):
            import math
            if math.isnan(v):
                return 0
            return int(v)
        if isinstance(v, int) and ty in ("f64", "f32"):
            return float(v)
        bits = {"i8": (8, True), "u8": (8, False), "i16": (16, True), "u16": (16, False), "i32": (32, True), "u32": (32, False),
                "i64": (64, True), "u64": (64, False), "isize": (64, True), "usize": (64, False), "i128": (128, True), "u128": (128, False)}.get(ty)
        if bits and isinstance(v, int):
            n, signed = bits
            w = v % (1 << n)          # `as` between integer types truncates / reinterprets (two's complement)
            if signed and w >= (1 << (n - 1)):
                w -= (1 << n)
            return Wire(w) if isinstance(v, Wire) else w
        return v

    def e_bin(self, e):
        op = e["op"]
        if op == "&&":
            a = self.eval(e["a"])
            if a is False:
                return False
            b = self.eval(e["b"])
            if a is True:
                return b
            if b is False:
                return False
            return OPAQUE
        if op == "||":
            a = self.eval(e["a"])
            if a is True:
                return True
            b = self.eval(e["b"])
            if a is False:
                return b
            if b is True:
                return True
            return OPAQUE
        if op in ("+=", "-=", "*=", "|=", "&="):
            a = self.eval(e["a"])
            b = self.eval(e["b"])
            r = self._arith(op[0], a, b)
            self._store(e["a"], r)
            return ("tuple", [])
        a = self.eval(e["a"])
        b = self.eval(e["b"])
        if op in ("<", "<=", ">", ">=", "==", "!="):
            if a is OPAQUE or b is OPAQUE:
                return OPAQUE
            sa, sb = _strval(a), _strval(b)
            if sa is not None and sb is not None and op in ("==", "!="):
                return (sa == sb) if op == "==" else (sa != sb)
            if sa is not None and sb is not None:
                ea, eb = sa.encode(), sb.encode()          # str ordering in Rust is byte-wise
                return {"<": ea < eb, "<=": ea <= eb, ">": ea > eb, ">=": ea >= eb}[op]
            try:
                if isinstance(a, tuple) and isinstance(b, tuple) and a[:1] == ("enum",) and b[:1] == ("enum",):
                    a, b = a[:3], b[:3]
                if op == "==":
                    return a == b
                if op == "!=":
                    return a != b
                if isinstance(a, tuple) or isinstance(b, tuple):
                    return OPAQUE
                return {"<": a < b, "<=": a <= b, ">": a > b, ">=": a >= b}[op]
            except TypeError:
                return OPAQUE
        return self._arith(op, a, b)

    def _arith(self, op, a, b):
        num = lambda x: isinstance(x, (int, float)) and not isinstance(x, bool)
        if not (num(a) and num(b)):
            if op in ("|", "&") and isinstance(a, bool) and isinstance(b, bool):
                return (a or b) if op == "|" else (a and b)
            return OPAQUE
        tainted = isinstance(a, Wire) or isinstance(b, Wire)
        try:
            if op == "+":
                return Wire(a + b) if tainted else a + b
            if op == "-":
                return a - b
            if op == "*":
                return a * b
            if op == "/":
                return a // b if isinstance(a, int) and isinstance(b, int) else a / b
            if op == "%":
                return a % b
            if op == "<<":
                return a << b
            if op == ">>":
                return a >> b
            if op in ("&", "|", "^") and isinstance(a, int) and isinstance(b, int):
                return {"&": a & b, "|": a | b, "^": a ^ b}[op]
        except Exception:
            return OPAQUE
        return OPAQUE

    def _store(self, target, v):
        if target["k"] == "path" and "::" not in target["p"]:
            self.assign(target["p"], v)
            return
        if target["k"] == "un" and target["op"] == "*":
            cur = self.eval(target["e"])
            if isinstance(cur, tuple) and cur[:1] == ("slotref",):
                cur[1][cur[2]] = v
                return
            return self._store(target["e"], v)
        if target["k"] == "field":
            s = target.get("s")
            if s is not None and s in self.src_env and not callable(self.src_env[s]):
                self.src_env[s] = v
                return
            base = self.eval(target["e"])
            if isinstance(base, tuple) and base[0] == "enum" and isinstance(base[2], dict):
                base[2][target["f"]] = v
                return
        if target["k"] == "index":
            base = self.eval(target["e"])
            i = self.eval(target["i"])
            if isinstance(base, MutList) and isinstance(i, int) and 0 <= i < len(base):
                base[i] = v
                return
        self.effects.append(("store", target.get("s") or "?", v))

    def e_assign(self, e):
        v = self.eval(e["b"])
        self._store(e["a"], v)
        return ("tuple", [])

    def e_field(self, e):
        v = self.eval(e["e"])
        if isinstance(v, tuple) and v[0] == "enum" and isinstance(v[2], dict):
            return v[2].get(e["f"], OPAQUE)
        if isinstance(v, tuple) and v[0] == "tuple" and e["f"].isdigit() and int(e["f"]) < len(v[1]):
            return v[1][int(e["f"])]
        if isinstance(v, tuple) and v[0] == "enum" and isinstance(v[2], list) and e["f"].isdigit() and int(e["f"]) < len(v[2]):
            return v[2][int(e["f"])]
        return OPAQUE

    def e_tuple(self, e):
        return ("tuple", [self.eval(x) for x in e["e"]])

    def e_array(self, e):
        return ("list", [self.eval(x) for x in e["e"]])

    def e_struct(self, e):
        fields = {f["n"]: self.eval(f["e"]) for f in e["fields"] if self.active(f)}
        if e.get("rest") is not None:
            # struct update syntax `S { a: x, ..base }`: the remaining fields come from base
            base = self.eval(e["rest"])
            if isinstance(base, tuple) and base[:1] == ("enum",) and len(base) > 2 and isinstance(base[2], dict):
                for k, v in base[2].items():
                    fields.setdefault(k, v)
            else:
                raise Unknown("struct update from a base that could not be evaluated (%s)" % (e["rest"].get("s") or "")[:40])
        return ("enum", e["p"], fields)

    def e_try(self, e):
        v = self.eval(e["e"])
        if isinstance(v, tuple) and v[0] in ("Ok", "Some"):
            return v[1]
        if isinstance(v, tuple) and v[0] == "Err":
            raise Return(v)
        if isinstance(v, tuple) and v[0] == "None":
            raise Return(v)
        if getattr(self, "strict_try", False):
            raise Unknown("`?` applied to a value that could not be evaluated (%s)" % (e["e"].get("s") or "")[:60])
        return OPAQUE

    def e_ret(self, e):
        raise Return(self.eval(e["e"]) if e.get("e") else ("tuple", []))

    def e_break(self, e):
        raise Break(e.get("label"), self.eval(e["e"]) if e.get("e") else None)

    def e_continue(self, e):
        raise Continue(e.get("label"))

    def e_eblock(self, e):
        return self.block(e["b"])

    def e_unsafe(self, e):
        return self.block(e["b"])

    def e_let(self, e):
        v = self.eval(e["e"])
        m = self.match(v, e["pat"])
        if m is None:
            return False
        for n, x in m.items():
            self.bind(n, x)
        return True

    def e_if(self, e):
        self.scopes.append({})
        try:
            c = self.eval(e["c"])
            if self.truth(c):
                return self.block(e["t"], new_scope=False)
        finally:
            self.scopes.pop()
        if e.get("e") is not None:
            return self.eval(e["e"])
        return ("tuple", [])

    def e_match(self, e):
        v = self.eval(e["e"])
        for arm in e["arms"]:
            if not self.active(arm):
                continue
            m = self.match(v, arm["pat"])
            if m is None:
                continue
            self.scopes.append(dict(m))
            try:
                if arm.get("guard") is not None:
                    g = self.eval(arm["guard"])
                    if not self.truth(g):
                        continue
                return self.eval(arm["body"])
            finally:
                self.scopes.pop()
        raise Unknown("no arm matched %r" % (v,))

    def e_macro(self, e):
        name = e["name"].split("::")[-1]
        if name == "matches" and "pat" in e:
            v = self.eval(e["e"])
            m = self.match(v, e["pat"])
            if m is None:
                return False
            if e.get("guard") is not None:
                self.scopes.append(dict(m))
                try:
                    return self.truth(self.eval(e["guard"]))
                finally:
                    self.scopes.pop()
            return True
        if getattr(self, "string_places", False) and name in ("format", "write", "writeln"):
            r = self._format_macro(name, e)
            if r is not NotImplemented:
                return r
        if self.on_call:
            args = [self.eval(a) for a in e.get("args") or []] if name not in ("format", "write", "writeln", "println", "eprintln", "debug_assert", "debug_assert_eq") else []
            r = self.on_call("macro", name, e, args, None)
            if r is not NotImplemented:
                return r
        if name == "vec":
            m = MutList()
            if "repeat" not in e:
                for a in e.get("args") or []:
                    m.append(self.eval(a))
            else:
                import copy
                el = self.eval(e["repeat"][0])
                n = self.eval(e["repeat"][1])
                if isinstance(n, int) and not isinstance(n, bool) and n <= 4096:
                    for _ in range(n):
                        m.append(copy.deepcopy(el))
            return m
        return OPAQUE

    def _format_macro(self, name, e):
        """format!/write!/writeln! with a literal format string of plain `{}` placeholders and string / integer arguments"""
        a = list(e.get("args") or [])
        dest = a.pop(0) if name in ("write", "writeln") and a else None
        if not a or a[0].get("k") != "lit" or a[0].get("t") != "str":
            return NotImplemented
        fmt = a[0]["v"]
        vals = []
        for x in a[1:]:
            v = self.eval(x)
            sv = _strval(v)
            if sv is None and isinstance(v, int) and not isinstance(v, bool):
                sv = str(v)
            if sv is None and isinstance(v, MutList) and getattr(v, "kind", "") == "str":
                sv = "".join(c[1] if isinstance(c, tuple) else str(c) for c in v)
            if sv is None:
                return NotImplemented
            vals.append(sv)
        parts = fmt.replace("{{", "\x00").replace("}}", "\x01").split("{}")
        if len(parts) - 1 != len(vals) or "{" in "".join(parts):
            return NotImplemented
        out = parts[0]
        for p_, v_ in zip(parts[1:], vals):
            out += v_ + p_
        out = out.replace("\x00", "{").replace("\x01", "}") + ("\n" if name == "writeln" else "")
        if dest is None:
            return ("str", out)
        cur = self.eval(dest)
        if isinstance(cur, MutList) and getattr(cur, "kind", "") == "str":
            cur.append(("str", out))
            return ("Ok", ("tuple", []))
        if _strval(cur) is not None:
            tgt = dest
            while tgt["k"] in ("ref", "paren"):
                tgt = tgt["e"]
            self._store(tgt, ("str", _strval(cur) + out))
            return ("Ok", ("tuple", []))
        return NotImplemented

    def e_call(self, e):
        global CURRENT
        f = e["f"]
        fname = f.get("p") if f["k"] == "path" else None
        args = [self.eval(a) for a in e["a"]]
        if fname and "::" not in fname:
            lv = self.lookup(fname)
            if isinstance(lv, dict) and lv.get("k") == "closure":
                return self.call_closure(lv, args)
            if isinstance(lv, tuple) and lv[:1] == ("nestedfn",):
                return self.call_fn_node(lv[1], args)
            if isinstance(lv, tuple) and lv[:1] == ("fnitem",):
                CURRENT = self
                r = self.on_call("fn", lv[1], e, args, None) if self.on_call else NotImplemented
                CURRENT = self
                if r is not NotImplemented:
                    return r
                raise Unknown("call of function value %s" % lv[1])
        if fname and "::" not in fname and getattr(self, "nested_fns", False) and fname in getattr(self, "nested_table", {}) and self.lookup(fname) is None:
            return self.call_fn_node(self.nested_table[fname], args)      # a sibling nested function (recursion)
        if fname in ("Some", "Ok", "Err"):
            return (fname, args[0] if args else ("tuple", []))
        if self.on_call:
            CURRENT = self
            r = self.on_call("fn", fname or f.get("s"), e, args, None)
            CURRENT = self
            if r is not NotImplemented:
                return r
        if fname and fname.endswith("::try_from") and len(args) == 1:
            ty = fname.split("::")[-2]
            rng = {"i64": (-2**63, 2**63 - 1), "u64": (0, 2**64 - 1), "i32": (-2**31, 2**31 - 1), "u32": (0, 2**32 - 1),
                   "u8": (0, 255), "u16": (0, 65535), "usize": (0, 2**64 - 1), "isize": (-2**63, 2**63 - 1),
                   "i128": (-2**127, 2**127 - 1), "u128": (0, 2**128 - 1), "Integer": (-2**64, 2**64 - 1)}.get(ty)
            a = args[0]
            if rng and isinstance(a, int) and not isinstance(a, bool):
                return ("Ok", a) if rng[0] <= a <= rng[1] else ("Err", OPAQUE)
            return OPAQUE
        if fname and fname.split("::")[-1] in ("new", "default", "with_capacity") and fname.split("::")[0] in ("HashMap", "HashSet", "BTreeMap", "BTreeSet") \
                or (fname or "").replace("std::collections::", "") in ("HashMap::new", "HashSet::new", "BTreeMap::new", "BTreeSet::new"):
            return PyMap()
        if fname in ("Vec::new", "String::new", "Vec::with_capacity", "String::with_capacity"):
            m = MutList()
            m.kind = "str" if fname.startswith("String") else "vec"
            return m
        if fname and fname.split("::")[-1] in ("from", "into") and len(args) == 1:
            return args[0]
        if fname == "Box::new" and len(args) == 1:
            return args[0]
        if fname in ("std::mem::take", "mem::take", "core::mem::take") and len(e["a"]) == 1:
            tgt = e["a"][0]
            while tgt["k"] == "ref":
                tgt = tgt["e"]
            old = self.eval(tgt)
            new = MutList() if isinstance(old, MutList) else (("None",) if isinstance(old, tuple) and old[0] in ("Some", "None") else OPAQUE)
            self._store(tgt, new)
            return old
        if fname in ("std::mem::replace", "mem::replace", "core::mem::replace") and len(e["a"]) == 2:
            tgt = e["a"][0]
            while tgt["k"] == "ref":
                tgt = tgt["e"]
            old = self.eval(tgt)
            self._store(tgt, args[1])
            return old
        if fname and fname.split("::")[-1][:1].isupper():
            return ("enum", fname, args)
        # a function of the analysed crate that the rule neither scripted nor knows: interpret it (so that extracting a helper
        # function does not change what the rule sees); without a resolver the call stays opaque
        resolver = getattr(self, "resolve_fn", None)
        if resolver is not None and fname:
            fnode = resolver(fname)
            if fnode is not None:
                return self.call_fn_node(fnode, args)
        return OPAQUE

    def call_fn_node(self, fnode, args):
        depth = getattr(self, "_inline_depth", 0)
        if depth > 30:
            raise Unknown("inlining depth")
        names = [inp["pat"]["n"] if "pat" in inp and inp["pat"]["k"] == "pid" else None for inp in fnode["sig"]["inputs"] if "self" not in inp]
        sub = Interp(env={n: a for n, a in zip(names, args) if n}, src_env=self.src_env, cfg=self.cfg, on_call=self.on_call, max_steps=self.max_steps)
        sub.consts = self.consts
        sub.resolve_fn = getattr(self, "resolve_fn", None)
        sub.strict_try = getattr(self, "strict_try", False)
        sub.fn_items = getattr(self, "fn_items", None)
        sub.string_places = getattr(self, "string_places", False)
        sub.nested_fns = getattr(self, "nested_fns", False)
        if hasattr(self, "nested_table"):
            sub.nested_table = self.nested_table
        sub._inline_depth = depth + 1
        try:
            return sub.block(fnode["body"])
        except Return as r:
            return r.v

    def e_mcall(self, e):
        global CURRENT
        recv = self.eval(e["r"])
        m = e["m"]
        if self.on_call:
            args = None
            CURRENT = self          # the interpreter evaluating this call (a scripted callee may need to evaluate an argument place)
            r = self.on_call("method", m, e, args, recv)
            CURRENT = self
            if r is not NotImplemented:
                return r
        # closures in arguments are not evaluated
        args = [self.eval(a) if a["k"] != "closure" else a for a in e["a"]]
        num = isinstance(recv, (int, float)) and not isinstance(recv, bool)
        if m in ("get_or_insert", "get_or_insert_with", "insert", "replace") and isinstance(recv, tuple) and recv[0] in ("Some", "None") and len(recv) <= 2 \
                and e["r"]["k"] in ("field", "path", "index"):
            # Option methods that write through the place they are called on
            if m in ("get_or_insert", "get_or_insert_with"):
                if recv[0] == "Some":
                    return recv[1]
                v = self.call_closure(args[0], []) if (m == "get_or_insert_with" and isinstance(args[0], dict)) else args[0]
                self._store(e["r"], ("Some", v))
                return v
            self._store(e["r"], ("Some", args[0]))
            return args[0] if m == "insert" else recv
        if m == "take" and isinstance(recv, tuple) and recv[0] in ("Some", "None") and e["r"]["k"] in ("field", "path"):
            self._store(e["r"], ("None",))
            return recv
        if m == "clone" and (isinstance(recv, MutList) or (isinstance(recv, tuple) and recv[:1] == ("enum",))):
            import copy
            return copy.deepcopy(recv)
        if isinstance(recv, PyMap):
            if m == "insert" and len(args) == 1:
                new = hkey(args[0]) not in recv
                recv[hkey(args[0])] = None
                return new
            if m == "insert" and len(args) == 2:
                old = recv.get(hkey(args[0]))
                had = hkey(args[0]) in recv
                recv[hkey(args[0])] = args[1]
                return ("Some", old) if had else ("None",)
            if m in ("contains", "contains_key") and args:
                if args[0] is OPAQUE:
                    return OPAQUE
                return hkey(args[0]) in recv
            if m == "get" and args:
                k = hkey(args[0])
                return ("Some", recv[k]) if k in recv else ("None",)
            if m == "remove" and args:
                k = hkey(args[0])
                if k in recv:
                    v = recv.pop(k)
                    return ("Some", v) if v is not None else True
                return ("None",)
            if m == "is_empty":
                return len(recv) == 0
            if m == "len":
                return len(recv)
            if m == "entry" and args:
                return ("entry", recv, hkey(args[0]))
            if m in ("iter", "iter_mut", "into_iter") and getattr(recv, "is_map", False):
                return ("list", [("tuple", [k, v]) for k, v in recv.items()])      # a map yields (key, value) pairs
            if m in ("iter", "keys"):
                return ("list", list(recv.keys()))
            if m == "values":
                return ("list", list(recv.values()))
            if m == "extend" and args:
                src = args[0]
                items = src[1] if isinstance(src, tuple) and src[:1] == ("list",) else (list(src) if isinstance(src, MutList) else None)
                if items is None:
                    raise Unknown("extend of a map/set model with %r" % (src,))
                for x in items:
                    if isinstance(x, tuple) and x[:1] == ("tuple",) and len(x[1]) == 2 and getattr(recv, "is_map", False):
                        recv[hkey(x[1][0])] = x[1][1]
                    else:
                        recv[hkey(x)] = None
                return ("tuple", [])
        if isinstance(recv, tuple) and recv[:1] == ("entry",):
            if m == "or_insert" and args:
                if recv[2] not in recv[1]:
                    recv[1][recv[2]] = args[0]
                cur = recv[1][recv[2]]
                if isinstance(cur, int) and not isinstance(cur, bool):
                    return ("slotref", recv[1], recv[2])     # a counter updated through the reference (`*count += 1`)
                return cur
            if m == "or_default":
                return recv[1].setdefault(recv[2], OPAQUE)
        if m in ("iter", "into_iter", "iter_mut") and isinstance(recv, tuple) and recv[0] in ("Some", "None") and len(recv) <= 2 and not e["a"]:
            return ("list", [recv[1]] if recv[0] == "Some" else [])       # an Option iterates over zero or one item
        if isinstance(recv, bool) and m == "then_some" and len(args) == 1:
            return ("Some", args[0]) if recv else ("None",)
        if isinstance(recv, bool) and m == "then" and len(args) == 1 and isinstance(args[0], dict):
            return ("Some", self.call_closure(args[0], [])) if recv else ("None",)
        if isinstance(recv, tuple) and recv[:1] == ("list",):
            recv_list = recv[1]
        elif isinstance(recv, MutList):
            recv_list = recv
        elif isinstance(recv, tuple) and recv[:1] == ("bytesof",) and m not in ("len", "get", "is_empty"):
            recv_list = list(recv[1] if isinstance(recv[1], bytes) else recv[1].encode())
        else:
            recv_list = None
        if recv_list is not None and m == "flatten" and not e["a"]:
            out = []
            for x in recv_list:
                if isinstance(x, tuple) and x[:1] == ("list",):
                    out.extend(x[1])
                elif isinstance(x, (list, MutList)) and getattr(x, "kind", "vec") != "str":
                    out.extend(x)
                elif isinstance(x, tuple) and x and x[0] in ("Some", "Ok") and len(x) == 2:
                    out.append(x[1])
                elif isinstance(x, tuple) and x and x[0] in ("None", "Err"):
                    pass
                else:
                    raise Unknown("flatten over %r" % (x,))
            return ("list", out)
        if recv_list is not None and m in ("map", "filter_map", "any", "all", "filter") and e["a"] and e["a"][0].get("k") == "path" and "::" in e["a"][0]["p"]:
            # a function item instead of a closure
            fp = e["a"][0]["p"]
            last = fp.split("::")[-1]
            res = []
            for x in list(recv_list):
                r = self.on_call("fn", fp, e["a"][0], [x], None) if self.on_call is not None else NotImplemented
                if r is NotImplemented:
                    if last in ("as_str", "as_ref", "clone", "to_owned", "to_string", "from", "into", "as_slice", "as_bytes", "deref", "borrow") and m == "map":
                        r = x
                    else:
                        raise Unknown("iterator adaptor .%s(%s)" % (m, fp))
                res.append((x, r))
            if m == "map":
                return ("list", [r for _, r in res])
            if m == "filter_map":
                return ("list", [r[1] for _, r in res if isinstance(r, tuple) and r[0] == "Some"])
            if m == "filter":
                return ("list", [x for x, r in res if self.truth(r)])
            return (any if m == "any" else all)(self.truth(r) for _, r in res)
        if recv_list is not None and args and isinstance(args[0], dict) and args[0].get("k") == "closure":
            cl = args[0]
            if m in ("max_by", "min_by"):
                items = list(recv_list)
                if not items:
                    return ("None",)
                best = items[0]
                for x in items[1:]:
                    o = self.call_closure(cl, [best, x])
                    if not (isinstance(o, tuple) and o[:1] == ("ord",)):
                        raise Unknown("%s comparator result %r" % (m, o))
                    # Iterator::max_by returns the last maximum, min_by the first minimum
                    if m == "max_by" and o[1] <= 0:
                        best = x
                    if m == "min_by" and o[1] > 0:
                        best = x
                return ("Some", best)
            if m in ("rposition", "rfind") and recv_list is not None:
                lst = list(recv_list)
                for idx in range(len(lst) - 1, -1, -1):
                    if self.truth(self.call_closure(cl, [lst[idx]])):
                        return ("Some", idx if m == "rposition" else lst[idx])
                return ("None",)
            if m in ("position", "any", "all", "find", "find_map", "filter", "map", "retain", "filter_map", "for_each", "flat_map", "take_while", "skip_while", "max_by_key", "min_by_key"):
                res = []
                for idx, x in enumerate(list(recv_list)):
                    r = self.call_closure(cl, [x])
                    res.append((idx, x, r))
                if m in ("max_by_key", "min_by_key"):
                    if not res:
                        return ("None",)
                    best = None
                    for idx, x, r in res:
                        if isinstance(r, tuple) or r is OPAQUE:
                            raise Unknown("%s key %r" % (m, r))
                        if best is None or (r >= best[0] if m == "max_by_key" else r < best[0]):
                            best = (r, x)
                    return ("Some", best[1])
                if m == "take_while":
                    out = []
                    consumed = 0
                    for idx, x, r in res:
                        consumed += 1
                        if not self.truth(r):
                            break
                        out.append(x)
                    if isinstance(recv, PyIter):
                        del recv[:consumed]        # a consuming iterator also loses the first rejected element
                    return ("list", out)
                if m == "skip_while":
                    out, skipping = [], True
                    for idx, x, r in res:
                        if skipping and self.truth(r):
                            continue
                        skipping = False
                        out.append(x)
                    return ("list", out)
                # on a consuming iterator the short-circuiting searches take every element up to and including the one that decides
                def _consume(n_taken):
                    if isinstance(recv, PyIter):
                        del recv[:n_taken]
                if m == "position":
                    for idx, x, r in res:
                        if self.truth(r):
                            _consume(idx + 1)
                            return ("Some", idx)
                    _consume(len(res))
                    return ("None",)
                if m == "any":
                    for idx, x, r in res:
                        if self.truth(r):
                            _consume(idx + 1)
                            return True
                    _consume(len(res))
                    return False
                if m == "all":
                    for idx, x, r in res:
                        if not self.truth(r):
                            _consume(idx + 1)
                            return False
                    _consume(len(res))
                    return True
                if m == "find":
                    for idx, x, r in res:
                        if self.truth(r):
                            _consume(idx + 1)
                            return ("Some", x)
                    _consume(len(res))
                    return ("None",)
                if m == "find_map":
                    for idx, x, r in res:
                        if isinstance(r, tuple) and r[0] == "Some":
                            return r
                        if not (isinstance(r, tuple) and r[0] == "None"):
                            raise Unknown("find_map closure result %r" % (r,))
                    return ("None",)
                if m == "filter":
                    return ("list", [x for _, x, r in res if self.truth(r)])
                if m == "map":
                    return ("list", [r for _, _, r in res])
                if m == "flat_map":
                    out = []
                    for _, _, r in res:
                        if isinstance(r, tuple) and r[:1] == ("list",):
                            out.extend(r[1])
                        elif isinstance(r, (list, MutList)) and getattr(r, "kind", "vec") != "str":
                            out.extend(r)
                        elif isinstance(r, tuple) and r and r[0] in ("Some", "Ok") and len(r) == 2:
                            out.append(r[1])
                        elif isinstance(r, tuple) and r and r[0] in ("None", "Err"):
                            pass
                        else:
                            raise Unknown("flat_map closure result %r" % (r,))
                    return ("list", out)
                if m == "filter_map":
                    return ("list", [r[1] for _, _, r in res if isinstance(r, tuple) and r[0] == "Some"])
                if m == "retain":
                    keep = [x for _, x, r in res if self.truth(r)]
                    if isinstance(recv, MutList):
                        recv[:] = keep
                    return ("tuple", [])
                if m == "for_each":
                    return ("tuple", [])
        if recv_list is not None and m == "fold" and len(args) == 2 and isinstance(args[1], dict):
            acc = args[0]
            for x in list(recv_list):
                acc = self.call_closure(args[1], [acc, x])
            if isinstance(recv, PyIter):
                del recv[:]
            return acc
        if recv_list is not None:
            if m in ("iter", "iter_mut", "into_iter", "cloned", "copied", "by_ref", "as_slice"):
                return recv
            if m == "clone" and isinstance(recv, PyIter):
                return PyIter(list(recv))
            if m == "enumerate":
                return ("list", [("tuple", [i, x]) for i, x in enumerate(recv_list)])
            if m == "rev":
                return ("list", list(reversed(recv_list)))
            if m in ("collect", "to_vec", "to_owned"):
                tf = (e.get("tf") or "").replace(" ", "")
                if m == "collect" and ("Result<" in tf or "Option<" in tf) and not tf.startswith("::<Vec<"):
                    # collecting into Result<_, E> / Option<_>: the first failure wins, otherwise the payloads are collected
                    out = []
                    for x in recv_list:
                        if isinstance(x, tuple) and x[0] in ("Err", "None"):
                            return x
                        if not (isinstance(x, tuple) and x[0] in ("Ok", "Some") and len(x) == 2):
                            raise Unknown("collect%s of %r" % (tf, x))
                        out.append(x[1])
                    return ("Ok" if "Result<" in tf else "Some", MutList(out))
                if m == "collect" and not tf and recv_list and all(isinstance(x, tuple) and x and x[0] in ("Ok", "Err") for x in recv_list):
                    raise Unknown("collect of Results whose target type is not visible at the call")
                ml = MutList(recv_list)
                return ml
            if m == "len" or m == "count":
                return len(recv_list)
            if m == "is_empty":
                return len(recv_list) == 0
            if m == "contains" and args:
                return args[0] in recv_list
            if m == "next" and isinstance(recv, PyIter):
                return ("Some", recv.pop(0)) if recv else ("None",)
            if m in ("first", "last", "next"):
                if not recv_list:
                    return ("None",)
                return ("Some", recv_list[0] if m != "last" else recv_list[-1])
            if m in ("get", "get_mut") and args and isinstance(args[0], int):
                return ("Some", recv_list[args[0]]) if 0 <= args[0] < len(recv_list) else ("None",)
            if m == "zip" and len(args) == 1:
                other = args[0][1] if isinstance(args[0], tuple) and args[0][:1] == ("list",) else (list(args[0]) if isinstance(args[0], (list, MutList)) else None)
                if other is None:
                    raise Unknown("zip with %r" % (args[0],))
                return ("list", [("tuple", [a, b]) for a, b in zip(list(recv_list), other)])
            if m == "nth" and args and isinstance(args[0], int) and not isinstance(args[0], bool):
                lst = list(recv_list)
                if isinstance(recv, PyIter):
                    del recv[:args[0] + 1]
                return ("Some", lst[args[0]]) if 0 <= args[0] < len(lst) else ("None",)
            if m == "skip" and args and isinstance(args[0], int):
                if isinstance(recv, PyIter):
                    del recv[:args[0]]          # a consuming iterator: the skipped items are gone for later reads as well
                    return recv
                return ("list", list(recv_list)[args[0]:])
            if m == "as_str" and isinstance(recv, PyIter) and all(isinstance(x, tuple) and x[:1] == ("str",) for x in recv):
                return ("str", "".join(x[1] for x in recv))          # Chars::as_str: the rest of the string
            if m == "take" and args and isinstance(args[0], int):
                out = list(recv_list)[:args[0]]
                if isinstance(recv, PyIter):
                    del recv[:args[0]]
                return ("list", out)
        if isinstance(recv, MutList):
            if m == "remove" and args and isinstance(args[0], int):
                if not (0 <= args[0] < len(recv)):
                    self.effects.append(("panic", "remove out of range"))
                    raise Unknown("Vec::remove index out of range (panic)")
                return recv.pop(args[0])
            if m == "pop":
                return ("Some", recv.pop()) if recv else ("None",)
            if m == "resize" and len(args) == 2 and isinstance(args[0], int):
                if isinstance(args[0], Wire):
                    self.effects.append(("alloc-from-wire", "resize"))
                if args[0] > 65536:
                    raise Unknown("resize to %d" % args[0])
                while len(recv) < args[0]:
                    recv.append(args[1])
                del recv[args[0]:]
                return ("tuple", [])
            if m == "truncate" and args and isinstance(args[0], int):
                del recv[args[0]:]
                return ("tuple", [])
            if m == "clear":
                del recv[:]
                return ("tuple", [])
            if m == "insert" and len(args) == 2 and isinstance(args[0], int):
                recv.insert(args[0], args[1])
                return ("tuple", [])
            if m == "drain":
                out = list(recv)
                del recv[:]
                return ("list", out)
            if m == "push":
                recv.append(args[0])
                return ("tuple", [])
            if m in ("extend_from_slice", "push_str", "extend", "append"):
                a0 = args[0]
                if isinstance(a0, tuple) and a0[:1] == ("list",):
                    a0 = a0[1]
                if isinstance(a0, list):
                    recv.extend(a0)
                    if m == "append" and isinstance(a0, MutList):
                        del a0[:]
                elif a0 is OPAQUE and m in ("extend", "append", "extend_from_slice"):
                    raise Unknown(".%s() of a value that could not be evaluated" % m)
                else:
                    recv.append(a0)
                return ("tuple", [])
            if m == "len":
                return len(recv)
            if m == "is_empty":
                return len(recv) == 0
            if m in ("iter", "as_slice", "as_str", "as_bytes", "into_iter"):
                return recv
        if m == "map_err" and isinstance(recv, tuple) and recv[0] in ("Ok", "Err"):
            if recv[0] == "Ok":
                return recv
            if args and isinstance(args[0], dict):
                return ("Err", self.call_closure(args[0], [recv[1]]))
            if e["a"] and e["a"][0].get("k") == "path" and e["a"][0]["p"].split("::")[-1] not in ("from", "into"):
                # a function item / tuple-variant constructor, e.g. .map_err(Error::CDDLParsing)
                r = self.on_call("fn", e["a"][0]["p"], e["a"][0], [recv[1]], None) if self.on_call is not None else NotImplemented
                return ("Err", ("enum", e["a"][0]["p"], [recv[1]]) if r is NotImplemented else r)
            return ("Err", OPAQUE)
        if m == "ok_or_else" and isinstance(recv, tuple) and recv[0] in ("Some", "None"):
            if recv[0] == "Some":
                return ("Ok", recv[1])
            if args and isinstance(args[0], dict):
                return ("Err", self.call_closure(args[0], []))
            return ("Err", OPAQUE)
        if m == "ok" and isinstance(recv, tuple) and recv[0] in ("Ok", "Err"):
            return ("Some", recv[1]) if recv[0] == "Ok" else ("None",)
        if m == "err" and isinstance(recv, tuple) and recv[0] in ("Ok", "Err"):
            return ("Some", recv[1]) if recv[0] == "Err" else ("None",)
        if m in ("clone", "as_ref", "as_mut", "borrow", "to_owned", "into", "as_deref", "by_ref", "iter", "copied", "cloned"):
            return recv
        if m == "abs" and num:
            return abs(recv)
        if m in ("cmp", "partial_cmp") and args and not isinstance(recv, tuple) and not isinstance(args[0], tuple) and recv is not OPAQUE:
            try:
                r = (recv > args[0]) - (recv < args[0])
                return ("ord", r) if m == "cmp" else ("Some", ("ord", r))
            except TypeError:
                return OPAQUE
        if isinstance(recv, tuple) and recv[:1] == ("ord",):
            if m == "then_with" and args and isinstance(args[0], dict):
                return recv if recv[1] != 0 else self.call_closure(args[0], [])
            if m == "then" and args and isinstance(args[0], tuple) and args[0][:1] == ("ord",):
                return recv if recv[1] != 0 else args[0]
            if m == "reverse":
                return ("ord", -recv[1])
            if m in ("is_lt", "is_le", "is_gt", "is_ge", "is_eq", "is_ne"):
                return {"is_lt": recv[1] < 0, "is_le": recv[1] <= 0, "is_gt": recv[1] > 0, "is_ge": recv[1] >= 0, "is_eq": recv[1] == 0, "is_ne": recv[1] != 0}[m]
        if m == "then_some" and isinstance(recv, bool) and args:
            return ("Some", args[0]) if recv else ("None",)
        if m == "then" and isinstance(recv, bool) and args and isinstance(args[0], dict):
            return ("Some", self.call_closure(args[0], [])) if recv else ("None",)
        if m == "checked_neg" and num and isinstance(recv, int):
            return ("None",) if recv == -2**63 else ("Some", -recv)   # 64-bit signed receiver assumed
        if m == "checked_abs" and num and isinstance(recv, int):
            return ("None",) if recv == -2**63 else ("Some", abs(recv))
        if m in ("checked_pow", "checked_shl") and num and isinstance(recv, int) and args and isinstance(args[0], int):
            # the receiver's integer type comes from the literal's suffix (e.g. 256i128, 1u32); anything else is not modelled
            rn = e["r"]
            suf = None
            if rn.get("k") == "lit":
                import re as _re
                mm = _re.search(r"([iu])(8|16|32|64|128|size)$", str(rn.get("s") or vf_src(rn)))
                if mm:
                    suf = (mm.group(1) == "i", 64 if mm.group(2) == "size" else int(mm.group(2)))
            if suf is None:
                raise Unknown("%s on a receiver of unknown integer type" % m)
            signed, bits = suf
            lo, hi = (-(1 << (bits - 1)), (1 << (bits - 1)) - 1) if signed else (0, (1 << bits) - 1)
            if m == "checked_shl":
                if args[0] >= bits:
                    return ("None",)
                r = (int(recv) << args[0]) & ((1 << bits) - 1)
                if signed and r > hi:
                    r -= 1 << bits
                return ("Some", r)
            if args[0] > 4096:
                return ("None",)
            r = int(recv) ** args[0]
            return ("Some", r) if lo <= r <= hi else ("None",)
        if m in ("checked_add", "checked_sub", "checked_mul") and num and args and isinstance(args[0], int):
            r = {"checked_add": recv + args[0], "checked_sub": recv - args[0], "checked_mul": recv * args[0]}[m]
            return ("Some", r) if -2**63 <= r < 2**64 else ("None",)
        if m in ("strip_prefix", "strip_suffix") and isinstance(recv, tuple) and recv[:1] == ("str",) and args and isinstance(args[0], tuple) and args[0][:1] == ("str",):
            pre = args[0][1]
            if m == "strip_prefix":
                return ("Some", ("str", recv[1][len(pre):])) if recv[1].startswith(pre) else ("None",)
            return ("Some", ("str", recv[1][:-len(pre)])) if recv[1].endswith(pre) else ("None",)
        if m in ("starts_with", "ends_with", "contains") and isinstance(recv, tuple) and recv[:1] == ("str",) and args and isinstance(args[0], tuple) and args[0][:1] == ("str",):
            return {"starts_with": recv[1].startswith(args[0][1]), "ends_with": recv[1].endswith(args[0][1]), "contains": args[0][1] in recv[1]}[m]
        if isinstance(recv, tuple) and recv[:1] == ("str",):
            t = recv[1]
            if m in ("contains", "starts_with", "ends_with") and args:
                # a pattern that is an array / slice of chars: any of them
                pat = args[0]
                if isinstance(pat, MutList):
                    pat = ("list", list(pat))
                if isinstance(pat, tuple) and pat[:1] == ("list",) and pat[1] and all(_strval(c) is not None and len(_strval(c)) == 1 for c in pat[1]):
                    cs = [_strval(c) for c in pat[1]]
                    if m == "contains":
                        return any(c in t for c in cs)
                    return any(t.startswith(c) if m == "starts_with" else t.endswith(c) for c in cs)
            if m in ("replace", "replacen") and len(args) >= 2 and _strval(args[0]) is not None and _strval(args[1]) is not None and _strval(args[0]) != "":
                if m == "replacen":
                    if isinstance(args[2], int) and not isinstance(args[2], bool):
                        return ("str", t.replace(_strval(args[0]), _strval(args[1]), args[2]))
                else:
                    return ("str", t.replace(_strval(args[0]), _strval(args[1])))
            if m == "as_bytes":
                return ("bytesof", t.encode())
            if m == "len":
                return len(t.encode())
            if m == "chars":
                return ("list", [("str", c) for c in t])
            if m == "char_indices":
                out, pos = [], 0
                for c in t:
                    out.append(("tuple", [pos, ("str", c)]))
                    pos += len(c.encode())
                return ("list", out)
            if m == "bytes":
                return ("list", list(t.encode()))
            if m in ("matches", "rmatches", "match_indices") and args and _strval(args[0]):
                pat, out, k = _strval(args[0]), [], 0
                while True:
                    k = t.find(pat, k)
                    if k < 0:
                        break
                    out.append(("str", pat) if m != "match_indices" else ("tuple", [len(t[:k].encode()), ("str", pat)]))
                    k += len(pat)
                return ("list", out[::-1] if m == "rmatches" else out)
            if m in ("find", "rfind") and args and _strval(args[0]) is not None:
                raw, pat = t.encode(), _strval(args[0]).encode()
                k = raw.find(pat) if m == "find" else raw.rfind(pat)
                return ("Some", k) if k >= 0 else ("None",)
            if m == "is_char_boundary" and args and isinstance(args[0], int):
                raw = t.encode()
                if args[0] > len(raw):
                    return False
                try:
                    raw[:args[0]].decode()
                    return True
                except UnicodeDecodeError:
                    return False
            if m in ("is_ascii_whitespace", "is_whitespace") and len(t) == 1:
                return t in " \t\n\r\x0c" if m == "is_ascii_whitespace" else t.isspace()
            if m in ("is_ascii_alphanumeric", "is_alphanumeric", "is_ascii_digit", "is_ascii_alphabetic") and len(t) == 1:
                asc = ord(t) < 128
                return {"is_ascii_alphanumeric": asc and t.isalnum(), "is_alphanumeric": t.isalnum(), "is_ascii_digit": asc and t.isdigit(),
                        "is_ascii_alphabetic": asc and t.isalpha()}[m]
            if m in ("is_ascii_lowercase", "is_ascii_uppercase", "is_ascii_hexdigit", "is_lowercase", "is_uppercase") and len(t) == 1:
                asc = ord(t) < 128
                return {"is_ascii_lowercase": asc and t.islower(), "is_ascii_uppercase": asc and t.isupper(),
                        "is_ascii_hexdigit": asc and t in "0123456789abcdefABCDEF", "is_lowercase": t.islower(), "is_uppercase": t.isupper()}[m]
            if m == "len_utf8" and len(t) == 1:
                return len(t.encode())
        if isinstance(recv, tuple) and recv[:1] == ("bytesof",):
            raw = recv[1]
            if m == "len":
                return len(raw)
            if m in ("iter", "to_vec", "as_ref"):
                return ("list", list(raw))
            if m in ("get", "get_mut") and args and isinstance(args[0], int):
                return ("Some", raw[args[0]]) if 0 <= args[0] < len(raw) else ("None",)
            if m == "is_empty":
                return len(raw) == 0
        if isinstance(recv, int) and not isinstance(recv, bool) and m.startswith("is_ascii"):
            c = chr(recv) if 0 <= recv < 256 else None
            if c is not None:
                asc = recv < 128
                if m == "is_ascii_whitespace":
                    return c in " \t\n\r\x0c"
                if m == "is_ascii_alphanumeric":
                    return asc and c.isalnum()
                if m == "is_ascii_digit":
                    return asc and c.isdigit()
                if m == "is_ascii_alphabetic":
                    return asc and c.isalpha()
                if m == "is_ascii":
                    return asc
                if m == "is_ascii_punctuation":
                    import string
                    return c in string.punctuation
        if m in ("to_string", "to_owned", "into", "as_str", "as_ref", "clone") and isinstance(recv, tuple) and recv[:1] == ("str",):
            return recv
        if m == "is_empty" and isinstance(recv, tuple) and recv[:1] == ("str",):
            return recv[1] == ""
        if m in ("split", "splitn", "rsplit") and isinstance(recv, tuple) and recv[:1] == ("str",) and args \
                and isinstance(args[-1], tuple) and args[-1][:1] == ("str",) and args[-1][1]:
            parts = recv[1].split(args[-1][1]) if m != "splitn" else (recv[1].split(args[-1][1], args[0] - 1) if isinstance(args[0], int) else None)
            if parts is not None:
                if m == "rsplit":
                    parts = parts[::-1]
                return ("list", [("str", x) for x in parts])
        if m in ("trim_end_matches", "trim_start_matches", "trim_matches") and isinstance(recv, tuple) and recv[:1] == ("str",) \
                and args and isinstance(args[0], tuple) and args[0][:1] == ("str",) and args[0][1]:
            t, pat = recv[1], args[0][1]
            if m in ("trim_end_matches", "trim_matches"):
                while t.endswith(pat):
                    t = t[:-len(pat)]
            if m in ("trim_start_matches", "trim_matches"):
                while t.startswith(pat):
                    t = t[len(pat):]
            return ("str", t)
        if m in ("trim", "trim_start", "trim_end") and isinstance(recv, tuple) and recv[:1] == ("str",):
            return ("str", {"trim": recv[1].strip(), "trim_start": recv[1].lstrip(), "trim_end": recv[1].rstrip()}[m])
        if m == "is_negative" and num:
            return recv < 0
        if m == "is_positive" and num:
            return recv > 0
        if m == "is_some" and isinstance(recv, tuple) and recv[0] in ("Some", "None"):
            return recv[0] == "Some"
        if m == "is_none" and isinstance(recv, tuple) and recv[0] in ("Some", "None"):
            return recv[0] == "None"
        if m == "is_ok" and isinstance(recv, tuple) and recv[0] in ("Ok", "Err"):
            return recv[0] == "Ok"
        if m == "is_err" and isinstance(recv, tuple) and recv[0] in ("Ok", "Err"):
            return recv[0] == "Err"
        if m == "unwrap_or" and isinstance(recv, tuple) and recv[0] in ("Some", "None"):
            return recv[1] if recv[0] == "Some" else args[0]
        if m == "unwrap_or_else" and isinstance(recv, tuple) and recv[0] in ("Some", "None", "Ok", "Err") and args and isinstance(args[0], dict):
            if recv[0] in ("Some", "Ok"):
                return recv[1]
            return self.call_closure(args[0], [] if recv[0] == "None" else [recv[1]])
        if m == "map_or" and isinstance(recv, tuple) and recv[0] in ("Some", "None") and len(args) == 2 and isinstance(args[1], dict):
            return args[0] if recv[0] == "None" else self.call_closure(args[1], [recv[1]])
        if m in ("unwrap", "expect") and isinstance(recv, tuple) and recv[0] in ("Some", "Ok"):
            return recv[1]
        if m == "is_finite" and num:
            import math
            return math.isfinite(recv)
        if m == "is_nan" and num:
            import math
            return isinstance(recv, float) and math.isnan(recv)
        if m in ("max", "min") and num and args and isinstance(args[0], (int, float)):
            r = max(recv, args[0]) if m == "max" else min(recv, args[0])
            # min with a trusted bound is itself bounded: the untrusted-length taint does not survive
            if m == "min" and isinstance(r, Wire) and (not isinstance(recv, Wire) or not isinstance(args[0], Wire)):
                r = int(r)
            return r
        if m in ("is_none_or", "is_some_and", "map", "and_then", "filter") and isinstance(recv, tuple) and recv[0] in ("Some", "None") and e["a"] \
                and e["a"][0].get("k") == "path" and self.on_call is not None and recv[0] == "Some" \
                and e["a"][0]["p"].split("::")[-1] not in ("from", "into", "clone", "to_owned"):
            # a function item passed instead of a closure: resolved through the rule's call table
            r = self.on_call("fn", e["a"][0]["p"], e["a"][0], [recv[1]], None)
            if r is not NotImplemented:
                if m in ("is_none_or", "is_some_and"):
                    return r
                if m == "map":
                    return ("Some", r)
                if m == "and_then":
                    return r
                if m == "filter" and isinstance(r, bool):
                    return recv if r else ("None",)
        if m in ("map_err", "map", "and_then", "or_else") and isinstance(recv, tuple) and recv[0] in ("Ok", "Err") and len(recv) == 2 and e["a"] \
                and e["a"][0].get("k") == "path" and self.on_call is not None \
                and e["a"][0]["p"].split("::")[-1] not in ("from", "into", "clone", "to_owned"):
            # Result adaptors taking a function item (e.g. .map_err(Error::CDDLParsing))
            hit = (m in ("map_err", "or_else") and recv[0] == "Err") or (m in ("map", "and_then") and recv[0] == "Ok")
            if not hit:
                return recv
            r = self.on_call("fn", e["a"][0]["p"], e["a"][0], [recv[1]], None)
            if r is NotImplemented:
                r = ("enum", e["a"][0]["p"], [recv[1]])     # a tuple-variant constructor
            if m == "map_err":
                return ("Err", r)
            if m == "map":
                return ("Ok", r)
            return r
        if m == "try_into" and not args and isinstance(recv, int) and not isinstance(recv, bool):
            # the target type is not visible at the call; it is taken from the typed parameter of the closure that consumes the result
            return ("tryinto", recv)
        if isinstance(recv, tuple) and recv[:1] == ("tryinto",):
            ty = None
            if args and isinstance(args[0], dict) and args[0].get("k") == "closure" and args[0].get("params") and args[0]["params"][0].get("k") == "ptype":
                ty = "".join(args[0]["params"][0].get("ty") or []) if isinstance(args[0]["params"][0].get("ty"), list) else args[0]["params"][0].get("ty")
            rng = {"i64": (-2**63, 2**63 - 1), "u64": (0, 2**64 - 1), "i32": (-2**31, 2**31 - 1), "u32": (0, 2**32 - 1), "u8": (0, 255), "u16": (0, 65535),
                   "i8": (-128, 127), "i16": (-32768, 32767), "usize": (0, 2**64 - 1), "isize": (-2**63, 2**63 - 1), "i128": (-2**127, 2**127 - 1),
                   "u128": (0, 2**128 - 1)}.get((ty or "").replace(" ", "").lstrip("&"))
            if rng is None:
                raise Unknown("try_into() whose target type is not visible to the interpreter")
            recv = ("Ok", recv[1]) if rng[0] <= recv[1] <= rng[1] else ("Err", OPAQUE)
        if m in ("is_ok_and", "is_err_and") and isinstance(recv, tuple) and recv[0] in ("Ok", "Err") and len(recv) == 2 and args and isinstance(args[0], dict) \
                and args[0].get("k") == "closure":
            if (m == "is_ok_and") != (recv[0] == "Ok"):
                return False
            return self.call_closure(args[0], [recv[1]])
        if m in ("map", "and_then", "or_else") and isinstance(recv, tuple) and recv[0] in ("Ok", "Err") and len(recv) == 2 and args and isinstance(args[0], dict) \
                and args[0].get("k") == "closure":
            hit = (m == "or_else" and recv[0] == "Err") or (m in ("map", "and_then") and recv[0] == "Ok")
            if not hit:
                return recv
            r = self.call_closure(args[0], [recv[1]])
            return ("Ok", r) if m == "map" else r
        if m in ("is_none_or", "is_some_and") and isinstance(recv, tuple) and recv[0] in ("Some", "None") and e["a"] and e["a"][0].get("k") == "path" \
                and recv[0] == "None":
            return m == "is_none_or"
        if m in ("is_none_or", "is_some_and") and isinstance(recv, tuple) and recv[0] in ("Some", "None") and args and isinstance(args[0], dict):
            if recv[0] == "None":
                return m == "is_none_or"
            return self.call_closure(args[0], [recv[1]])
        if m == "map" and isinstance(recv, tuple) and recv[0] in ("Some", "None", "Ok", "Err") and e["a"] and e["a"][0].get("k") == "path" \
                and e["a"][0]["p"].split("::")[-1] in ("from", "into", "clone", "to_owned"):
            return recv          # conversion functions are value-preserving in the model
        if m == "filter" and isinstance(recv, tuple) and recv[0] in ("Some", "None") and len(recv) <= 2 and args and isinstance(args[0], dict) and args[0].get("k") == "closure":
            if recv[0] == "None":
                return recv
            r = self.call_closure(args[0], [recv[1]])
            if isinstance(r, bool):
                return recv if r else ("None",)
            raise Unknown("Option::filter predicate not decidable")
        if m == "or_else" and isinstance(recv, tuple) and recv[0] in ("Some", "None") and args and isinstance(args[0], dict):
            return recv if recv[0] == "Some" else self.call_closure(args[0], [])
        if m == "or" and isinstance(recv, tuple) and recv[0] in ("Some", "None") and args:
            return recv if recv[0] == "Some" else args[0]
        if m in ("map", "and_then") and isinstance(recv, tuple) and recv[0] in ("Some", "None") and args and isinstance(args[0], dict):
            if recv[0] == "None":
                return recv
            r = self.call_closure(args[0], [recv[1]])
            return ("Some", r) if m == "map" else r
        if isinstance(recv, tuple) and len(recv) == 3 and recv[0] == "enum" and isinstance(recv[1], str) and m in VALUE_KIND_PREDICATES \
                and recv[1].split("::")[-2:-1] == ["Value"] and not e["a"]:
            # serde_json::Value / the crate's CBOR Value: kind predicates
            return recv[1].split("::")[-1] in VALUE_KIND_PREDICATES[m]
        if getattr(self, "string_places", False) and m in ("push_str", "push") and isinstance(recv, tuple) and recv[:1] == ("str",) and len(args) == 1 \
                and _strval(args[0]) is not None and e["r"]["k"] in ("field", "path"):
            self._store(e["r"], ("str", recv[1] + _strval(args[0])))
            return ("tuple", [])
        if isinstance(recv, tuple) and recv and recv[0] in ("Some", "None", "Ok", "Err") and m in MUTATING_OPTION_METHODS:
            raise Unknown("method .%s() writes through an Option/Result place and is not modelled here" % m)
        if isinstance(recv, (MutList, PyMap)) and m not in PURE_CONTAINER_METHODS:
            # an unmodelled method of a modelled mutable container may change it: ignoring the call would make the
            # rest of the run wrong instead of incomplete
            raise Unknown("method .%s() on a modelled %s is not modelled" % (m, "list" if isinstance(recv, MutList) else "map/set"))
        return OPAQUE

    def call_closure(self, c, args):
        # variables captured where the closure was written (needed when it is called from another interpreter, e.g. as an
        # `impl Fn` argument of an inlined helper); the live scopes still take precedence for names they define
        cap = c.get("_env")
        self.scopes.append({k: v for k, v in cap.items() if self.lookup(k) is None} if cap else {})
        try:
            for p, a in zip(c["params"], args):
                m = self.match(a, p)
                if m:
                    for n, x in m.items():
                        self.bind(n, x)
            try:
                return self.eval(c["body"])
            except Return as r:
                # `return` and `?` inside a closure leave the closure, not the enclosing function
                return r.v
        finally:
            self.scopes.pop()

    def e_closure(self, e):
        env = {}
        for sc in self.scopes:
            env.update(sc)
        c = dict(e)
        c["_env"] = env
        return c

    def e_range(self, e):
        a = self.eval(e["a"]) if e.get("a") else None
        b = self.eval(e["b"]) if e.get("b") else None
        if isinstance(a, int) and isinstance(b, int) and not isinstance(a, bool):
            hi = b + 1 if e.get("incl") else b
            if hi - a > 4096:
                raise Unknown("range too long")
            return ("list", list(range(a, hi)))
        if (a is None or isinstance(a, int)) and (b is None or isinstance(b, int)):
            return ("range", a, (b + 1) if (b is not None and e.get("incl")) else b)
        return OPAQUE

    def e_index(self, e):
        b = self.eval(e["e"])
        i = self.eval(e["i"])
        sv = _strval(b)
        if isinstance(i, tuple) and i[:1] == ("list",) and i[1] == list(range(i[1][0], i[1][-1] + 1)) if (isinstance(i, tuple) and i[:1] == ("list",) and i[1]) else False:
            i = ("range", i[1][0], i[1][-1] + 1)
        elif isinstance(i, tuple) and i[:1] == ("list",) and not i[1]:
            i = ("range", 0, 0)
        if isinstance(i, tuple) and i[:1] == ("range",) and (sv is not None or (isinstance(b, tuple) and b[:1] == ("bytesof",))):
            raw = (sv if sv is not None else b[1]).encode() if not isinstance((sv if sv is not None else b[1]), bytes) else (sv if sv is not None else b[1])
            lo = 0 if i[1] is None else i[1]
            hi = len(raw) if i[2] is None else i[2]
            if lo > hi or hi > len(raw):
                raise Unknown("panic: slice index out of range (%d..%d of %d)" % (lo, hi, len(raw)))
            if sv is not None:
                try:
                    raw[:lo].decode()
                    return ("str", raw[lo:hi].decode())
                except UnicodeDecodeError:
                    raise Unknown("panic: slice index is not a char boundary (%d..%d)" % (lo, hi))
            return ("bytesof", raw[lo:hi])
        if isinstance(b, tuple) and b[:1] == ("bytesof",) and isinstance(i, int) and not isinstance(i, bool):
            raw = b[1] if isinstance(b[1], bytes) else b[1].encode()
            if 0 <= i < len(raw):
                return raw[i]
            raise Unknown("panic: index out of bounds (%d of %d)" % (i, len(raw)))
        if isinstance(b, tuple) and b[:1] == ("list",):
            b = b[1]
        if isinstance(b, list) and isinstance(i, tuple) and i[:1] == ("range",):
            # a sub-slice of a vector / slice
            lo = 0 if i[1] is None else i[1]
            hi = len(b) if i[2] is None else i[2]
            if isinstance(lo, int) and isinstance(hi, int) and not isinstance(lo, bool) and not isinstance(hi, bool):
                if lo > hi or hi > len(b):
                    raise Unknown("panic: slice index out of range (%d..%d of %d)" % (lo, hi, len(b)))
                return ("list", list(b[lo:hi]))
        if isinstance(b, list) and isinstance(i, int) and not isinstance(i, bool):
            if 0 <= i < len(b):
                return b[i]
            raise Unknown("index out of range (panic)")
        return OPAQUE

    def e_while(self, e):
        for _ in range(64):
            self.scopes.append({})
            try:
                c = self.eval(e["c"])
                if not self.truth(c):
                    return ("tuple", [])
                try:
                    self.block(e["b"], new_scope=False)
                except Continue:
                    pass
            except Break:
                return ("tuple", [])
            finally:
                self.scopes.pop()
        raise Unknown("loop bound")

    def e_loop(self, e):
        for _ in range(64):
            try:
                self.block(e["b"])
            except Continue:
                continue
            except Break as b:
                return b.v if b.v is not None else ("tuple", [])
        raise Unknown("loop bound")

    def e_for(self, e):
        it = self.eval(e["e"])
        if isinstance(it, PyIter):
            # a consuming iterator (e.g. `for c in chars.by_ref()`): each element is removed when the loop takes it, so what a `break`
            # leaves behind is still there for the code after the loop
            while len(it):
                x = it.pop(0)
                self.scopes.append({})
                try:
                    m = self.match(x, e["pat"])
                    for n, v in (m or {}).items():
                        self.bind(n, v)
                    try:
                        self.block(e["b"], new_scope=False)
                    except Continue:
                        pass
                except Break:
                    break
                finally:
                    self.scopes.pop()
            return ("tuple", [])
        if isinstance(it, MutList):
            it = ("list", list(it))
        if isinstance(it, tuple) and it[:1] == ("bytesof",):
            raw = it[1] if isinstance(it[1], bytes) else it[1].encode()
            it = ("list", list(raw))
        if isinstance(it, tuple) and it[0] == "list":
            for x in it[1]:
                self.scopes.append({})
                try:
                    m = self.match(x, e["pat"])
                    for n, v in (m or {}).items():
                        self.bind(n, v)
                    try:
                        self.block(e["b"], new_scope=False)
                    except Continue:
                        pass
                except Break:
                    break
                finally:
                    self.scopes.pop()
            return ("tuple", [])
        raise Unknown("for over non-list")

    # ---- statements ----
    def block(self, b, new_scope=True):
        if new_scope:
            self.scopes.append({})
        try:
            last = ("tuple", [])
            stmts = b["stmts"]
            # items declared in the block are in scope for the whole block: constants are bound to their value, nested
            # functions become callable by name
            for s in stmts:
                if s["k"] == "sitem" and isinstance(s.get("item"), dict):
                    item = s["item"]
                    if item.get("k") == "const" and item.get("e") is not None and item.get("name"):
                        try:
                            cv = self.eval(item["e"])
                        except Unknown:
                            cv = OPAQUE
                        self.bind(item["name"], cv)
                        if cv is not OPAQUE and getattr(self, "nested_fns", False):
                            self.consts[item["name"]] = cv          # visible to the nested functions of this block as well
                    elif item.get("k") == "fn" and item.get("name") and "sig" in item and getattr(self, "nested_fns", False):
                        self.bind(item["name"], ("nestedfn", item))
                        if not hasattr(self, "nested_table"):
                            self.nested_table = {}
                        self.nested_table[item["name"]] = item
            for i, s in enumerate(stmts):
                k = s["k"]
                if k == "local":
                    if not self.active(s):
                        continue
                    if s.get("init") is None:
                        for n in _names(s["pat"]):
                            self.bind(n, OPAQUE)
                        continue
                    v = self.eval(s["init"])
                    m = self.match(v, s["pat"]) if v is not OPAQUE or s["pat"]["k"] in ("pid", "pwild", "ptype") else None
                    if v is OPAQUE and m is None:
                        for n in _names(s["pat"]):
                            self.bind(n, OPAQUE)
                        continue
                    if m is None:
                        if s.get("els") is not None:
                            self.eval(s["els"])
                            raise Unknown("let-else fell through")
                        raise Unknown("irrefutable let did not match")
                    for n, x in m.items():
                        self.bind(n, x)
                    last = ("tuple", [])
                elif k == "sexpr":
                    if not self.active(s["e"]):
                        continue
                    v = self.eval(s["e"])
                    last = ("tuple", []) if s.get("semi") else v
                elif k == "sitem":
                    continue
            return last
        finally:
            if new_scope:
                self.scopes.pop()


def _strval(v):
    if isinstance(v, tuple) and v[:1] == ("str",):
        return v[1]
    s = getattr(v, "s", None)
    return s if isinstance(s, str) else None


def _names(p):
    out = []
    k = p["k"]
    if k == "pid":
        out.append(p["n"])
    elif k in ("ptuple", "pts", "pslice"):
        for x in p["e"]:
            out.extend(_names(x))
    elif k == "pstruct":
        for f in p["f"]:
            out.extend(_names(f["pat"]))
    elif k in ("pref", "ptype"):
        out.extend(_names(p["pat"]))
    return out
