"""Grammar facts over pest_meta's AST (as dumped by srcfacts)."""

BUILTIN_ZERO_WIDTH = {"SOI", "EOI"}
BUILTIN = {"ANY", "SOI", "EOI", "ASCII_DIGIT", "ASCII_NONZERO_DIGIT", "ASCII_BIN_DIGIT", "ASCII_OCT_DIGIT",
           "ASCII_HEX_DIGIT", "ASCII_ALPHA_LOWER", "ASCII_ALPHA_UPPER", "ASCII_ALPHA", "ASCII_ALPHANUMERIC",
           "ASCII", "NEWLINE", "PEEK", "POP", "DROP", "PEEK_ALL", "POP_ALL", "PUSH"}


class G:
    def __init__(self, rules):
        self.rules = rules  # name -> {name, ty, expr, l}

    def is_silent(self, name):
        r = self.rules.get(name)
        return r is not None and r["ty"] == "Silent"

    # ---- pure literal value of an expression (None if not a fixed string) ----
    def literal(self, e, depth=0):
        if depth > 12:
            return None
        k = e["k"]
        if k == "str":
            return e["v"]
        if k == "insens":
            return e["v"].lower()
        if k == "ident":
            r = self.rules.get(e["v"])
            if r is None:
                return None
            return self.literal(r["expr"], depth + 1)
        if k == "seq":
            out = ""
            for x in e["e"]:
                s = self.literal(x, depth + 1)
                if s is None:
                    return None
                out += s
            return out
        return None

    def choices(self):
        """every ordered choice in the grammar: (rule, ordinal, [alternatives])"""
        out = []
        for name, r in self.rules.items():
            n = [0]

            def rec(e):
                if not isinstance(e, dict):
                    return
                if e["k"] == "choice":
                    out.append((name, n[0], e["e"]))
                    n[0] += 1
                for v in e.values():
                    if isinstance(v, dict):
                        rec(v)
                    elif isinstance(v, list):
                        for x in v:
                            rec(x)
            rec(r["expr"])
        return out

    # ---- child pairs a rule can produce (silent rules looked through) ----
    def children(self, name, _seen=None):
        r = self.rules[name]
        out = set()

        def rec(e, seen):
            k = e["k"]
            if k == "ident":
                v = e["v"]
                if v in self.rules:
                    if self.rules[v]["ty"] == "Silent":
                        if v not in seen:
                            rec(self.rules[v]["expr"], seen | {v})
                    else:
                        out.add(v)
                elif v == "EOI":
                    out.add("EOI")
                return
            if k in ("pos", "neg"):
                return  # lookaheads produce no pairs
            for key in ("e",):
                v = e.get(key)
                if isinstance(v, dict):
                    rec(v, seen)
                elif isinstance(v, list):
                    for x in v:
                        rec(x, seen)
        rec(r["expr"], {name})
        return out

    # ---- atomicity context ----
    def skipping_rules(self, start="cddl"):
        """rules that can be entered in a NonAtomic state from `start`"""
        skip = set()
        stack = [(start, False)]
        seen = set()
        while stack:
            name, atomic = stack.pop()
            if (name, atomic) in seen or name not in self.rules:
                continue
            seen.add((name, atomic))
            r = self.rules[name]
            ty = r["ty"]
            if name in ("WHITESPACE", "COMMENT"):
                a = True
            elif ty in ("Atomic", "CompoundAtomic"):
                a = True
            elif ty == "NonAtomic":
                a = False
            else:
                a = atomic
            if not a:
                skip.add(name)
            for x in self.idents(r["expr"]):
                stack.append((x, a))
        return skip

    def idents(self, e):
        out = []

        def rec(e):
            if isinstance(e, dict):
                if e.get("k") == "ident":
                    out.append(e["v"])
                for v in e.values():
                    rec(v)
            elif isinstance(e, list):
                for x in e:
                    rec(x)
        rec(e)
        return out

    # ---- does an expression begin / end with the explicit S rule? ----
    def _is_S(self, e, sname="S"):
        return e["k"] == "ident" and e["v"] == sname

    def zero_width(self, e):
        k = e["k"]
        if k in ("pos", "neg"):
            return True
        if k == "ident" and e["v"] in BUILTIN_ZERO_WIDTH:
            return True
        return False

    def starts_with_S(self, e, depth=0):
        """True if every way of matching e starts by matching S (so whitespace is explicit there)"""
        if depth > 10:
            return False
        k = e["k"]
        if self._is_S(e):
            return True
        if k == "seq":
            for x in e["e"]:
                if self.zero_width(x):
                    continue
                return self.starts_with_S(x, depth + 1)
            return False
        if k == "choice":
            return all(self.starts_with_S(x, depth + 1) for x in e["e"])
        if k in ("opt", "rep", "rep1", "repn", "push"):
            return self.starts_with_S(e["e"], depth + 1)
        if k == "ident" and e["v"] in self.rules and self.rules[e["v"]]["ty"] == "Silent":
            return self.starts_with_S(self.rules[e["v"]]["expr"], depth + 1)
        return False

    def ends_with_S(self, e, depth=0):
        if depth > 10:
            return False
        k = e["k"]
        if self._is_S(e):
            return True
        if k == "seq":
            for x in reversed(e["e"]):
                if self.zero_width(x):
                    continue
                return self.ends_with_S(x, depth + 1)
            return False
        if k == "choice":
            return all(self.ends_with_S(x, depth + 1) for x in e["e"])
        if k in ("rep1", "push"):
            return self.ends_with_S(e["e"], depth + 1)
        # opt / rep may match empty: then whatever preceded decides; handled by caller
        if k == "ident" and e["v"] in self.rules and self.rules[e["v"]]["ty"] == "Silent":
            return self.ends_with_S(self.rules[e["v"]]["expr"], depth + 1)
        return False

    def show(self, e):
        k = e["k"]
        if k == "str":
            return '"%s"' % e["v"]
        if k == "insens":
            return '^"%s"' % e["v"]
        if k == "ident":
            return e["v"]
        if k == "range":
            return "'%s'..'%s'" % (e["a"], e["b"])
        if k == "seq":
            return "(" + " ~ ".join(self.show(x) for x in e["e"]) + ")"
        if k == "choice":
            return "(" + " | ".join(self.show(x) for x in e["e"]) + ")"
        if k == "opt":
            return self.show(e["e"]) + "?"
        if k == "rep":
            return self.show(e["e"]) + "*"
        if k == "rep1":
            return self.show(e["e"]) + "+"
        if k == "repn":
            return self.show(e["e"]) + "{%s,%s}" % (e["min"], e["max"])
        if k == "pos":
            return "&" + self.show(e["e"])
        if k == "neg":
            return "!" + self.show(e["e"])
        return "<%s>" % k

    def _left_S(self, els, j, ctxS):
        """does the input position just after els[j] always follow an explicit S?"""
        while j >= 0:
            x = els[j]
            if self.zero_width(x):
                j -= 1
                continue
            k = x["k"]
            if k in ("opt", "rep") or (k == "repn" and not x.get("min")):
                # non-empty match must end in S, and the empty match defers to what is further left
                return self.ends_with_S(x["e"]) and self._left_S(els, j - 1, ctxS)
            return self.ends_with_S(x)
        return ctxS

    def _right_S(self, els, j, folS):
        """is the input position just before els[j] always followed by an explicit S (or end of input)?"""
        while j < len(els):
            x = els[j]
            if self.zero_width(x):
                if x["k"] == "ident" and x["v"] == "EOI":
                    return True
                j += 1
                continue
            k = x["k"]
            if k in ("opt", "rep") or (k == "repn" and not x.get("min")):
                return self.starts_with_S(x["e"]) and self._right_S(els, j + 1, folS)
            return self.starts_with_S(x)
        return folS

    def follow_S(self):
        """greatest fixpoint: follow[r] = every use of rule r (in a skipping context) is followed by explicit S / EOI"""
        skip = self.skipping_rules()
        fol = {n: True for n in self.rules}
        fol["cddl"] = True
        for _ in range(50):
            new = {n: True for n in self.rules}

            def rec(e, f, owner):
                k = e["k"]
                if k == "ident":
                    v = e["v"]
                    if v in self.rules and v != "S":
                        if not f:
                            new[v] = False
                    return
                if k == "seq":
                    els = e["e"]
                    for i, x in enumerate(els):
                        rec(x, self._right_S(els, i + 1, f), owner)
                    return
                if k in ("rep", "rep1", "repn"):
                    rec(e["e"], f and self.starts_with_S(e["e"]), owner)
                    return
                if k in ("pos", "neg"):
                    return  # inside a lookahead nothing is consumed
                v = e.get("e")
                if isinstance(v, dict):
                    rec(v, f, owner)
                elif isinstance(v, list):
                    for x in v:
                        rec(x, f, owner)
            for n, r in self.rules.items():
                if n in skip and n not in ("WHITESPACE", "COMMENT", "S"):
                    rec(r["expr"], fol[n], n)
            if new == fol:
                break
            fol = new
        return fol


    # ---- FIRST / LAST symbol sets (terminals as written, non-silent rule names; silent rules are looked through)
    def _sym_sets(self, e, which, depth=0):
        """(symbols, nullable) of expression e; `which` is 'first' or 'last'"""
        if depth > 40:
            return set(), False
        k = e["k"]
        if k == "str":
            return ({'"%s"' % e["v"]}, e["v"] == "")
        if k == "insens":
            return ({'^"%s"' % e["v"]}, e["v"] == "")
        if k == "range":
            return ({"'%s'..'%s'" % (e["a"], e["b"])}, False)
        if k == "ident":
            n = e["v"]
            if n in self.rules and self.rules[n]["ty"] == "Silent" and n not in ("S", "WHITESPACE", "COMMENT"):
                return self._sym_sets(self.rules[n]["expr"], which, depth + 1)
            if n in ("SOI", "EOI"):
                return (set(), True)
            if n in self.rules:
                # a non-silent rule is one symbol; it is nullable when its expression is
                return ({n}, self._sym_sets(self.rules[n]["expr"], which, depth + 1)[1])
            return ({n}, False)
        if k == "seq":
            els = e["e"] if which == "first" else list(reversed(e["e"]))
            out = set()
            for x in els:
                if self._is_S(x):
                    return out, False          # an explicit S is a barrier: nothing beyond it is adjacent without S
                s, nul = self._sym_sets(x, which, depth + 1)
                out |= s
                if not nul:
                    return out, False
            return out, True
        if k == "choice":
            out, nul = set(), False
            for x in e["e"]:
                s, n2 = self._sym_sets(x, which, depth + 1)
                out |= s
                nul = nul or n2
            return out, nul
        if k in ("opt", "rep"):
            return (self._sym_sets(e["e"], which, depth + 1)[0], True)
        if k in ("rep1",):
            return self._sym_sets(e["e"], which, depth + 1)
        if k == "repn":
            s, nul = self._sym_sets(e["e"], which, depth + 1)
            return (s, nul or e.get("min", 0) == 0)
        if k in ("neg", "pos"):
            return (set(), True)
        return (set(), False)

    def juncture_pairs(self, els, i):
        """symbol pairs (x, y) that can be adjacent across the juncture between els[i] and els[i+1], looking through nullable
        neighbours up to an explicit S"""
        left, _ = self._sym_sets({"k": "seq", "e": els[:i + 1]}, "last")
        right, _ = self._sym_sets({"k": "seq", "e": els[i + 1:]}, "first")
        return sorted((a, b) for a in left for b in right)

    def junctures(self):
        """All places in rules that can run non-atomically where pest's implicit WHITESPACE/COMMENT skip can
        consume input although no explicit S sits on either side (looking through optional parts and, at the
        end of a rule, at every use of the rule).  Returns list of (rule, key, left_text, right_text)."""
        skip = self.skipping_rules()
        fol = self.follow_S()
        out = []
        for name in self.rules:
            if name not in skip:
                continue
            r = self.rules[name]
            if r["ty"] in ("Atomic", "CompoundAtomic") or name in ("WHITESPACE", "COMMENT", "S"):
                continue

            def rec(e, ctxS, folS, in_look):
                k = e["k"]
                if k == "seq":
                    els = e["e"]
                    for i in range(len(els) - 1):
                        a, b = els[i], els[i + 1]
                        if in_look and all(self.zero_width(x) for x in els[i + 1:]):
                            continue
                        if not (self._left_S(els, i, ctxS) or self._right_S(els, i + 1, folS)):
                            pairs = self.juncture_pairs(els, i)
                            out.append((name, "%s ~ %s" % (self.show(a), self.show(b)), self.show(a), self.show(b), pairs))
                    for i, x in enumerate(els):
                        rec(x, self._left_S(els, i - 1, ctxS), self._right_S(els, i + 1, folS), in_look)
                    return
                if k in ("rep", "rep1", "repn"):
                    inner = e["e"]
                    if not (self.starts_with_S(inner) or self.ends_with_S(inner)):
                        l_, _ = self._sym_sets(inner, "last")
                        f_, _ = self._sym_sets(inner, "first")
                        out.append((name, "%s{iter}" % self.show(inner), self.show(inner), self.show(inner), sorted((a, b) for a in l_ for b in f_)))
                    rec(inner, ctxS and self.ends_with_S(inner), folS and self.starts_with_S(inner), in_look)
                    return
                if k in ("pos", "neg"):
                    # inside a lookahead the final skip is rewound with the lookahead itself
                    rec(e["e"], ctxS, True, True)
                    return
                v = e.get("e")
                if isinstance(v, dict):
                    rec(v, ctxS, folS, in_look)
                elif isinstance(v, list):
                    for x in v:
                        rec(x, ctxS, folS, in_look)
            rec(r["expr"], False, fol[name], False)
        return out


# --------------------------------------------------------------------------
# PEG matcher for lexical (atomic) rules: no implicit whitespace between sequence items
# --------------------------------------------------------------------------
BUILTINS = {
    "ANY": lambda c: True,
    "ASCII_DIGIT": lambda c: "0" <= c <= "9",
    "ASCII_NONZERO_DIGIT": lambda c: "1" <= c <= "9",
    "ASCII_BIN_DIGIT": lambda c: c in "01",
    "ASCII_OCT_DIGIT": lambda c: "0" <= c <= "7",
    "ASCII_HEX_DIGIT": lambda c: c in "0123456789abcdefABCDEF",
    "ASCII_ALPHA_LOWER": lambda c: "a" <= c <= "z",
    "ASCII_ALPHA_UPPER": lambda c: "A" <= c <= "Z",
    "ASCII_ALPHA": lambda c: ("a" <= c <= "z") or ("A" <= c <= "Z"),
    "ASCII_ALPHANUMERIC": lambda c: ("a" <= c <= "z") or ("A" <= c <= "Z") or ("0" <= c <= "9"),
    "ASCII": lambda c: ord(c) < 128,
}


class Unsupported(Exception):
    pass


class Matcher:
    """PEG semantics (ordered choice, greedy possessive repetition, predicates) of the grammar's expressions, for rules used
    atomically. `match(rule, s)` is True when the rule consumes the whole of s."""

    def __init__(self, rules):
        self.rules = rules

    def match(self, rule, s):
        return self.run({"k": "ident", "v": rule}, s, 0, 0) == len(s)

    def prefix(self, rule, s):
        """length of the prefix the rule consumes, or None"""
        return self.run({"k": "ident", "v": rule}, s, 0, 0)

    def run(self, e, s, i, depth):
        if depth > 200:
            raise Unsupported("expression nesting")
        k = e["k"]
        if k == "str":
            return i + len(e["v"]) if s.startswith(e["v"], i) else None
        if k == "insens":
            v = e["v"]
            return i + len(v) if s[i:i + len(v)].lower() == v.lower() else None
        if k == "range":
            return i + 1 if i < len(s) and e["a"] <= s[i] <= e["b"] else None
        if k == "ident":
            n = e["v"]
            if n in self.rules:
                return self.run(self.rules[n]["expr"], s, i, depth + 1)
            if n in BUILTINS:
                return i + 1 if i < len(s) and BUILTINS[n](s[i]) else None
            if n == "SOI":
                return i if i == 0 else None
            if n == "EOI":
                return i if i == len(s) else None
            if n == "NEWLINE":
                for nl in ("\r\n", "\n", "\r"):
                    if s.startswith(nl, i):
                        return i + len(nl)
                return None
            raise Unsupported("rule %s" % n)
        if k == "seq":
            for x in e["e"]:
                i = self.run(x, s, i, depth + 1)
                if i is None:
                    return None
            return i
        if k == "choice":
            for x in e["e"]:
                r = self.run(x, s, i, depth + 1)
                if r is not None:
                    return r
            return None
        if k == "opt":
            r = self.run(e["e"], s, i, depth + 1)
            return i if r is None else r
        if k in ("rep", "rep1", "repn"):
            lo = 1 if k == "rep1" else (e.get("min", 0) if k == "repn" else 0)
            hi = e.get("max") if k == "repn" else None
            n = 0
            while hi is None or n < hi:
                r = self.run(e["e"], s, i, depth + 1)
                if r is None or (r == i and n >= lo):
                    break
                i = r
                n += 1
                if r == i and n > len(s) + 1:
                    break
            return i if n >= lo else None
        if k == "neg":
            return i if self.run(e["e"], s, i, depth + 1) is None else None
        if k == "pos":
            return i if self.run(e["e"], s, i, depth + 1) is not None else None
        raise Unsupported("expression kind %s" % k)
