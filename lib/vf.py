"""Rule-layer core (E5): fact loading, site/violation bookkeeping, floors,
known findings, evidence.  Standard library only."""
import hashlib
import json
import os
import subprocess
import sys
import time
import fcntl

VERIF = os.path.dirname(os.path.dirname(os.path.abspath(__file__)))
REPO = os.environ.get("VERIF_REPO", "/repo")
CACHE = os.path.join(VERIF, ".cache")
WORK = os.path.join(VERIF, ".work")
SRCFACTS = os.path.join(VERIF, "engine/srcfacts/target/debug/srcfacts")
MIRFACTS = os.path.join(VERIF, "engine/mirfacts/target/debug/mirfacts")


class Incomplete(Exception):
    """An anchor the rule needs was not found: the analysis cannot decide.
    Reported as ANALYSIS-INCOMPLETE (exit 2), never as a pass."""


# --------------------------------------------------------------------------
# inputs and cache
# --------------------------------------------------------------------------

def input_files(repo=None):
    repo = repo or REPO
    out = []
    for sub in ("src", "cddl-derive/src"):
        for dp, dn, fn in os.walk(os.path.join(repo, sub)):
            dn.sort()
            for f in sorted(fn):
                if f.endswith(".rs"):
                    out.append(os.path.join(dp, f))
    for f in ("build.rs", "cddl.pest", "Cargo.toml", "Cargo.lock", "README.md",
              "cddl-derive/Cargo.toml", "cddl-derive/README.md"):
        p = os.path.join(repo, f)
        if os.path.exists(p):
            out.append(p)
    return out


def tree_hash(repo=None):
    repo = repo or REPO
    h = hashlib.sha256()
    for p in input_files(repo):
        h.update(os.path.relpath(p, repo).encode())
        h.update(b"\0")
        with open(p, "rb") as fh:
            h.update(hashlib.sha256(fh.read()).digest())
    # engine identity: a rebuilt engine invalidates cached facts
    for e in (SRCFACTS, MIRFACTS):
        if os.path.exists(e):
            st = os.stat(e)
            h.update(("%s:%d:%d" % (e, st.st_size, int(st.st_mtime))).encode())
    return h.hexdigest()[:24]


def cache_dir(repo=None):
    d = os.path.join(CACHE, tree_hash(repo))
    os.makedirs(d, exist_ok=True)
    return d


class Lock:
    def __init__(self, path):
        self.path = path

    def __enter__(self):
        self.fh = open(self.path, "w")
        fcntl.flock(self.fh, fcntl.LOCK_EX)
        return self

    def __exit__(self, *a):
        fcntl.flock(self.fh, fcntl.LOCK_UN)
        self.fh.close()


def load_ast(repo=None):
    repo = repo or REPO
    d = cache_dir(repo)
    out = os.path.join(d, "ast.json")
    nocache = os.environ.get("VERIF_NOCACHE") == "1"
    with Lock(os.path.join(d, "ast.lock")):
        if nocache or not os.path.exists(out):
            if not os.path.exists(SRCFACTS):
                raise Incomplete("engine srcfacts not built (run setup.sh)")
            rs = [p for p in input_files(repo) if p.endswith(".rs")]
            tmp = out + ".tmp%d" % os.getpid()
            cmd = [SRCFACTS, tmp, "--root", repo, "--pest", os.path.join(repo, "cddl.pest")] + rs
            r = subprocess.run(cmd, capture_output=True, text=True)
            if r.returncode != 0:
                raise Incomplete("srcfacts failed: " + r.stderr[-2000:])
            os.replace(tmp, out)
    with open(out) as fh:
        return json.load(fh)


# --------------------------------------------------------------------------
# AST helpers
# --------------------------------------------------------------------------

def walk(n):
    """pre-order over every dict node that has a kind"""
    stack = [n]
    while stack:
        x = stack.pop()
        if isinstance(x, dict):
            if "k" in x:
                yield x
            for v in reversed(list(x.values())):
                if isinstance(v, (dict, list)):
                    stack.append(v)
        elif isinstance(x, list):
            for v in reversed(x):
                if isinstance(v, (dict, list)):
                    stack.append(v)


def walk_no_closure_items(n):
    """like walk, but does not descend into nested fn items"""
    stack = [n]
    first = True
    while stack:
        x = stack.pop()
        if isinstance(x, dict):
            if "k" in x:
                if not first and x["k"] in ("fn", "sitem"):
                    continue
                yield x
            first = False
            for v in reversed(list(x.values())):
                if isinstance(v, (dict, list)):
                    stack.append(v)
        elif isinstance(x, list):
            for v in reversed(x):
                if isinstance(v, (dict, list)):
                    stack.append(v)


def find(n, k, **kw):
    for x in walk(n):
        if x["k"] == k and all(x.get(a) == b for a, b in kw.items()):
            yield x


def src(n):
    """token string of an expression/pattern node (short form from the engine,
    else a reconstruction good enough for messages and keys)"""
    if n is None:
        return ""
    if isinstance(n, dict) and "s" in n:
        return n["s"]
    return render(n)


def render(n):
    if n is None:
        return ""
    if isinstance(n, list):
        return ",".join(render(x) for x in n)
    k = n.get("k")
    if "s" in n:
        return n["s"]
    if k == "lit":
        return json.dumps(n["v"]) if n["t"] == "str" else str(n["v"])
    if k == "path":
        return n["p"]
    if k == "call":
        return "%s(%s)" % (render(n["f"]), render(n["a"]))
    if k == "mcall":
        return "%s.%s(%s)" % (render(n["r"]), n["m"], render(n["a"]))
    if k == "macro":
        return "%s!(%s)" % (n["name"], n.get("toks", "..."))
    if k == "bin":
        return "%s%s%s" % (render(n["a"]), n["op"], render(n["b"]))
    if k == "un":
        return "%s%s" % (n["op"], render(n["e"]))
    if k == "field":
        return "%s.%s" % (render(n["e"]), n["f"])
    if k == "index":
        return "%s[%s]" % (render(n["e"]), render(n["i"]))
    if k == "ref":
        return "&%s%s" % ("mut " if n.get("mut") else "", render(n["e"]))
    if k == "try":
        return render(n["e"]) + "?"
    if k == "cast":
        return "%s as %s" % (render(n["e"]), n["ty"])
    if k == "match":
        return "match %s{..}" % render(n["e"])
    if k == "if":
        return "if %s{..}" % render(n["c"])
    if k == "let":
        return "let %s=%s" % (render(n["pat"]), render(n["e"]))
    if k == "closure":
        return "|..|%s" % render(n["body"])
    if k == "struct":
        return "%s{..}" % n["p"]
    if k == "tuple":
        return "(%s)" % render(n["e"])
    if k == "ret":
        return "return %s" % render(n.get("e"))
    if k in ("block", "eblock"):
        return "{..}"
    if k in ("pid",):
        return n["n"]
    if k in ("ppath", "pts", "pstruct"):
        return n["p"]
    return "<%s>" % k


class FnInfo:
    __slots__ = ("file", "name", "qual", "node", "impl_self", "impl_trait", "cfg", "in_test")

    def __init__(self, file, name, qual, node, impl_self, impl_trait, cfg, in_test):
        self.file = file
        self.name = name
        self.qual = qual
        self.node = node
        self.impl_self = impl_self
        self.impl_trait = impl_trait
        self.cfg = cfg
        self.in_test = in_test

    @property
    def line(self):
        return self.node.get("nl", self.node["l"])

    def __repr__(self):
        return "<fn %s:%s>" % (self.file, self.qual)


def _is_test_cfg(cfgs):
    for c in cfgs or []:
        if c == "test" or c.startswith("test") or "all(test" in c or c == "any(test)":
            if "not(test)" not in c:
                return True
    return False


def strip_generics(ty):
    """JSONValidator<'a> -> JSONValidator ; &'a Foo<'a> -> Foo"""
    out = []
    depth = 0
    for ch in ty:
        if ch == "<":
            depth += 1
        elif ch == ">":
            depth -= 1
        elif depth == 0:
            out.append(ch)
    s = "".join(out).strip()
    s = s.lstrip("&").strip()
    if s.startswith("'"):
        s = s.split(" ", 1)[-1]
    if s.startswith("mut "):
        s = s[4:]
    return s


class Facts:
    def __init__(self, repo=None):
        self.repo = repo or REPO
        d = load_ast(self.repo)
        self.files = d["files"]
        self.grammars = d["grammars"]
        for f, v in self.files.items():
            if "error" in v:
                raise Incomplete("syntax error in %s: %s" % (f, v["error"]))
        self._fns = {}
        self._mir = None

    # ---- functions ----
    def fns(self, file):
        if file in self._fns:
            return self._fns[file]
        if file not in self.files:
            raise Incomplete("file %s not found in working tree" % file)
        out = []

        def rec(items, prefix, cfg, in_test, impl_self, impl_trait):
            for it in items:
                k = it.get("k")
                c = cfg + (it.get("cfg") or [])
                t = in_test or _is_test_cfg(it.get("cfg")) or ("test" in (it.get("attrs") or []))
                if k == "fn":
                    out.append(FnInfo(file, it["name"], prefix + it["name"], it, impl_self, impl_trait, c, t))
                    # nested fn items
                    for s in walk(it.get("body") or {}):
                        if s["k"] == "sitem" and s["item"].get("k") == "fn":
                            rec([s["item"]], prefix + it["name"] + "::", c, t, None, None)
                elif k == "impl":
                    st = strip_generics(it["self_ty"])
                    tr = it.get("trait")
                    p = "%s::" % st if not tr else "<%s as %s>::" % (st, tr.split("::")[-1])
                    rec(it["items"], prefix + p, c, t, st, tr.split("::")[-1] if tr else None)
                elif k == "mod" and "items" in it:
                    rec(it["items"], prefix + it["name"] + "::", c, t, None, None)
                elif k == "trait":
                    rec(it["items"], prefix + it["name"] + "::", c, t, it["name"], None)

        rec(self.files[file]["items"], "", list(self.files[file].get("cfg") or []), False, None, None)
        self._fns[file] = out
        return out

    def fn_all(self, file, qual):
        """all cfg variants of a function by qualified name (e.g.
        '<JSONValidator as Visitor>::visit_value' or 'JSONValidator::seq_match_entry'
        or a bare free-function name)"""
        r = [f for f in self.fns(file) if f.qual == qual and not f.in_test]
        return r

    def fn(self, file, qual):
        r = self.fn_all(file, qual)
        if not r:
            raise Incomplete("function %s not found in %s" % (qual, file))
        return r[0]

    def items(self, file, kind=None, name=None):
        if file not in self.files:
            raise Incomplete("file %s not found in working tree" % file)
        out = []

        def rec(items, cfg):
            for it in items:
                c = cfg + (it.get("cfg") or [])
                if it.get("k") == "mod" and "items" in it:
                    if _is_test_cfg(it.get("cfg")):
                        continue
                    rec(it["items"], c)
                    continue
                if kind and it.get("k") != kind:
                    continue
                if name and it.get("name") != name:
                    continue
                out.append(it)

        rec(self.files[file]["items"], [])
        return out

    def item(self, file, kind, name):
        r = self.items(file, kind, name)
        if not r:
            raise Incomplete("%s %s not found in %s" % (kind, name, file))
        return r[0]

    def grammar(self, file="cddl.pest"):
        g = self.grammars.get(file)
        if not g or "error" in g:
            raise Incomplete("grammar %s unreadable: %s" % (file, g and g.get("error")))
        return {r["name"]: r for r in g["rules"]}

    def grammar_list(self, file="cddl.pest"):
        g = self.grammars.get(file)
        if not g or "error" in g:
            raise Incomplete("grammar %s unreadable: %s" % (file, g and g.get("error")))
        return g["rules"]


# --------------------------------------------------------------------------
# pattern helpers
# --------------------------------------------------------------------------

def pat_alternatives(p):
    """flatten a top-level or-pattern"""
    if p is None:
        return []
    if p["k"] == "por":
        out = []
        for c in p["c"]:
            out.extend(pat_alternatives(c))
        return out
    return [p]


def pat_path(p):
    """the enum path a pattern names at its head, or None"""
    if p is None:
        return None
    k = p["k"]
    if k in ("ppath", "pts", "pstruct"):
        return p["p"]
    if k == "pref":
        return pat_path(p["pat"])
    if k == "pid":
        if p.get("sub"):
            return pat_path(p["sub"])
        n = p["n"]
        # bare identifiers starting with an uppercase letter are unit variants/consts
        if n[:1].isupper():
            return n
        return None
    return None


def pat_is_catchall(p):
    k = p["k"]
    if k == "pwild":
        return True
    if k == "pid" and not p.get("sub") and not p["n"][:1].isupper():
        return True
    if k == "pref":
        return pat_is_catchall(p["pat"])
    return False


def variant_of(path, enum):
    """'ControlOperator::LT' / 'token::ControlOperator::LT' -> 'LT' if enum matches"""
    if path is None:
        return None
    parts = path.split("::")
    if len(parts) >= 2 and parts[-2] == enum:
        return parts[-1]
    return None


def pat_bindings(p, out=None):
    """names bound by a pattern"""
    out = out if out is not None else []
    if p is None:
        return out
    k = p["k"]
    if k == "pid":
        if not p["n"][:1].isupper() or p.get("sub"):
            out.append(p["n"])
        if p.get("sub"):
            pat_bindings(p["sub"], out)
    elif k in ("pts", "ptuple", "pslice"):
        for e in p["e"]:
            pat_bindings(e, out)
    elif k == "pstruct":
        for f in p["f"]:
            pat_bindings(f["pat"], out)
    elif k == "por":
        for c in p["c"][:1]:
            pat_bindings(c, out)
    elif k in ("pref", "ptype"):
        pat_bindings(p["pat"], out)
    return out


def cfg_features(cfgs):
    """('pos'|'neg', feature) atoms of a cfg chain — good enough to split twins"""
    import re
    pos, neg = set(), set()
    for c in cfgs or []:
        for m in re.finditer(r'(not\()?feature="([^"]+)"', c):
            (neg if m.group(1) else pos).add(m.group(2))
    return pos, neg


# --------------------------------------------------------------------------
# check context
# --------------------------------------------------------------------------

class Ctx:
    def __init__(self, prop, tier, facts):
        self.prop = prop
        self.tier = tier
        self.facts = facts
        self.sites = {}       # rule -> list of (key, file, line, detail)
        self.viol = []        # (rule, key, file, line, msg)
        self.incomplete = []  # messages
        self.rules = {}       # rule -> text
        self.notes = []
        self.obligations = 0
        self.discharged = 0
        self.extra = {}

    def rule(self, rid, text, floor=0):
        self.rules[rid] = {"text": text, "floor": floor}
        self.sites.setdefault(rid, [])

    def site(self, rid, key, file=None, line=None, detail=None):
        self.sites.setdefault(rid, []).append((key, file, line, detail))

    def violation(self, rid, key, file, line, msg):
        self.viol.append((rid, key, file, line, msg))

    def incomplete_msg(self, rid, msg):
        self.incomplete.append("%s: %s" % (rid, msg))

    def guarded(self, rid, fn):
        """run one rule; a missing anchor makes the *rule* incomplete"""
        try:
            fn(self)
        except Incomplete as e:
            self.incomplete_msg(rid, str(e))


def load_known():
    p = os.path.join(VERIF, "known_findings.json")
    if not os.path.exists(p):
        return {"known": [], "fixed": []}
    with open(p) as fh:
        return json.load(fh)


def run_check(prop, tier, rule_fn, meta):
    """meta: dict(level, explanation, assumptions, trusted_base)"""
    t0 = time.time()
    seed = int(os.environ.get("VERIF_SEED", "0") or 0)
    # runs against a scratch copy of the repository (VERIF_REPO: seed / refactor matrices) keep their evidence out of /verif/evidence
    evdir = os.environ.get("VERIF_EVIDENCE_DIR") or (os.path.join(VERIF, "evidence") if not os.environ.get("VERIF_REPO") else "/tmp/verif-scratch-evidence")
    ev_path = os.path.join(evdir, "%s.json" % prop)
    os.makedirs(os.path.dirname(ev_path), exist_ok=True)
    replay_dir = os.path.join(evdir, "replay")
    os.makedirs(replay_dir, exist_ok=True)
    ctx = None
    fatal = None
    try:
        facts = Facts()
        ctx = Ctx(prop, tier, facts)
        rule_fn(ctx)
    except Incomplete as e:
        fatal = str(e)
    if ctx is None:
        ctx = Ctx(prop, tier, None)
    if fatal:
        ctx.incomplete.append("fatal: " + fatal)

    # floors
    for rid, r in ctx.rules.items():
        n = len(ctx.sites.get(rid, []))
        if n < r["floor"]:
            ctx.incomplete.append(
                "%s: matched %d instance(s), floor is %d — an anchor moved out of the extractor's reach; the rule "
                "cannot pass vacuously" % (rid, n, r["floor"]))

    known = load_known()
    known_keys = {}
    for k in known.get("known", []):
        if k["property"] == prop:
            known_keys[k["key"]] = k
    new_viol = []
    known_hit = []
    seen = set()
    for (rid, key, file, line, msg) in ctx.viol:
        full = "%s|%s" % (rid, key)
        if full in seen:
            continue
        seen.add(full)
        if full in known_keys:
            known_hit.append((full, known_keys[full], file, line, msg))
        else:
            new_viol.append((full, rid, key, file, line, msg))

    for full, k, file, line, msg in known_hit:
        print("KNOWN-FINDING: property=%s %s [%s] (%s:%s)" % (prop, k["what"], full, file, line))
    stale = [k for k in known_keys if k not in seen]
    for s in stale:
        print("note: known finding no longer reported (repaired or moved?): %s" % s)

    rc = 0
    for i, (full, rid, key, file, line, msg) in enumerate(new_viol):
        rp = os.path.join(replay_dir, "%s-%d.json" % (prop, i))
        with open(rp, "w") as fh:
            json.dump({
                "property": prop, "rule": rid, "rule_text": ctx.rules.get(rid, {}).get("text"),
                "site_key": full, "file": file, "line": line, "message": msg,
                "tree_hash": tree_hash(), "how_to_replay": "./check %s --tier %s  (the same key is reported while the construct is present)" % (prop, tier),
            }, fh, indent=1)
        print("%s:%s: [%s] %s" % (file, line, full, msg))
        print("VIOLATION property=%s replay=%s" % (prop, rp))
        rc = 1
    shown = {}
    for m in ctx.incomplete:
        rid = m.split(":")[0]
        shown[rid] = shown.get(rid, 0) + 1
        if shown[rid] <= 4:
            print("ANALYSIS-INCOMPLETE property=%s %s" % (prop, m))
    for rid, n in shown.items():
        if n > 4:
            print("ANALYSIS-INCOMPLETE property=%s %s: ... and %d more" % (prop, rid, n - 4))
    if ctx.incomplete and rc == 0:
        rc = 2

    # evidence
    samples = []
    per_rule = {}
    total = 0
    distinct = set()
    for rid, lst in ctx.sites.items():
        total += len(lst)
        for (key, file, line, detail) in lst:
            distinct.add("%s|%s" % (rid, key))
        per_rule[rid] = {
            "rule": ctx.rules.get(rid, {}).get("text"),
            "floor": ctx.rules.get(rid, {}).get("floor"),
            "instances_analysed": len(lst),
            "violations": sum(1 for v in ctx.viol if v[0] == rid),
        }
        for (key, file, line, detail) in lst[:3]:
            samples.append({"rule": rid, "site": key, "at": "%s:%s" % (file, line), "extracted": detail})
    cov = {
        "explanation": meta["explanation"],
        "evaluations": total,
        "distinct_nontrivial": len(distinct),
        "rule": "one evaluation = one rule instance (function, match arm, call site, grammar juncture, table row or "
                "cfg configuration) extracted from /repo's current working tree and decided by the named rule; "
                "distinct = distinct site keys; every extracted instance is non-trivial by construction (it is a "
                "construct the rule quantifies over)",
        "samples": samples[:60] or [{"note": "no instance extracted"}],
        "rules": per_rule,
        "known_findings_present": [k for k, *_ in known_hit],
        "new_violations": [v[0] for v in new_viol],
        "incomplete": ctx.incomplete,
        "trusted_base": meta.get("trusted_base", []),
        "tree_hash": tree_hash() if os.path.isdir(REPO) else None,
        "exhaustive": True,
    }
    cov.update(ctx.extra)
    if meta["level"] == "proof":
        cov["obligations"] = ctx.obligations
        cov["discharged"] = ctx.discharged
        cov["checker_cmd"] = meta.get("checker_cmd", "")
    ev = {
        "property_id": prop, "tier": tier, "seed": seed, "level": meta["level"],
        "coverage": cov, "assumptions": meta.get("assumptions", []),
        "wall_s": round(time.time() - t0, 3), "violations": len(new_viol),
    }
    with open(ev_path, "w") as fh:
        json.dump(ev, fh, indent=1)
    print("%s: %d rule(s), %d instance(s) analysed, %d known finding(s), %d new violation(s)%s" % (
        prop, len(ctx.rules), total, len(known_hit), len(new_viol),
        ", INCOMPLETE" if ctx.incomplete else ""))
    return rc


# --------------------------------------------------------------------------
# resolver for helper functions that did not exist when the rules were written
# --------------------------------------------------------------------------

_KNOWN_FNS = None


def known_fns():
    global _KNOWN_FNS
    if _KNOWN_FNS is None:
        p = os.path.join(VERIF, "spec", "known_fns.json")
        _KNOWN_FNS = json.load(open(p))["files"] if os.path.exists(p) else {}
    return _KNOWN_FNS


def new_fn_resolver(facts, files, cfg=None, self_ty=None):
    """resolver(name) -> fn node for a *free function* of `files` that is not in spec/known_fns.json (a helper extracted after the
    rules were written); with `self_ty` also for a new associated function called as `Self::f(..)` / `<self_ty>::f(..)`; None for
    everything else"""
    table = {}
    assoc = {}
    for file in files:
        known = set(known_fns().get(file, []))
        for fi in facts.fns(file):
            if fi.in_test:
                continue
            if cfg is not None and not all(cfg(c) for c in fi.cfg):
                continue
            if fi.impl_self is None:
                if fi.name not in known:
                    table.setdefault(fi.name, fi.node)
            elif self_ty is not None and fi.impl_self == self_ty and ("%s::%s" % (self_ty, fi.name)) not in known \
                    and not any("self" in inp for inp in fi.node["sig"]["inputs"]):
                assoc.setdefault(fi.name, fi.node)

    def resolve(name):
        if not name:
            return None
        segs = name.split("::")
        if len(segs) == 2 and segs[0] in ("Self", self_ty) and segs[1] in assoc:
            return assoc[segs[1]]
        return table.get(segs[-1]) if (len(segs) == 1 or segs[0] not in ("Self", self_ty)) else None
    return resolve


def new_methods(facts, file, ty):
    """names of methods of `ty` in `file` that are not in spec/known_fns.json"""
    known = set(known_fns().get(file, []))
    return {fi.name for fi in facts.fns(file) if fi.impl_self == ty and not fi.in_test and ("%s::%s" % (ty, fi.name)) not in known}
