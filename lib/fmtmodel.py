"""Formatted-output model: abstract interpretation of `impl Display` bodies (and the inherent helper methods they
call) on abstract AST values, producing the text they would print.  Children can be *atoms* that print as a unique
token, so the printed text of one node kind can be compared with the RFC's concrete syntax for that node.

Strings are modelled exactly (PyStr); everything the model does not know raises absint.Unknown (fail closed)."""
import re

import absint
import vf
from absint import Interp, MutList, OPAQUE, Return, Unknown


class PyStr:
    """a mutable String / Formatter buffer"""

    def __init__(self, s=""):
        self.s = s

    def __repr__(self):
        return "PyStr(%r)" % self.s


def atom(tok):
    return ("atom", tok)


def S(v):
    """python str of a model string value or None"""
    if isinstance(v, PyStr):
        return v.s
    if isinstance(v, tuple) and v[:1] == ("str",):
        return v[1]
    return None


def rust_f64(x):
    if x != x:
        return "NaN"
    if x in (float("inf"), float("-inf")):
        return "inf" if x > 0 else "-inf"
    if x == int(x) and abs(x) < 1e16:
        return str(int(x))
    r = repr(x)
    if "e" in r or "E" in r:
        # Rust's Display for f64 never uses exponent notation
        from decimal import Decimal
        return format(Decimal(r), "f")
    return r


FMT_RE = re.compile(r"\{\{|\}\}|\{([^{}]*)\}")


class World:
    """function tables for Display / inherent methods of the modelled files"""

    def __init__(self, facts, files=("src/ast/mod.rs", "src/token.rs"), cfg=None):
        self.facts = facts
        self.cfg = cfg or absint.default_cfg
        self.display = {}
        self.methods = {}
        self.free = {}
        for file in files:
            for fi in facts.fns(file):
                if fi.in_test:
                    continue
                if not all(self.cfg(c) for c in fi.cfg):
                    continue
                if fi.impl_trait == "Display" and fi.name == "fmt":
                    self.display[fi.impl_self] = fi
                elif fi.impl_self and fi.impl_trait is None:
                    self.methods[(fi.impl_self, fi.name)] = fi
                elif fi.impl_self is None:
                    self.free[fi.name] = fi

    def type_of(self, v):
        if isinstance(v, tuple) and v[:1] == ("enum",):
            segs = v[1].split("::")
            if len(segs) >= 2 and segs[-2][:1].isupper() and segs[-2] not in ("ast", "token"):
                return segs[-2]
            return segs[-1]
        return None


class FmtInterp(Interp):
    def __init__(self, world, env=None, depth=0):
        super().__init__(env=env, cfg=world.cfg)
        self.w = world
        self.depth = depth
        if depth > 60:
            raise Unknown("render depth")

    # ---- rendering ----
    def render(self, v, spec=""):
        if isinstance(v, PyStr):
            return v.s
        if isinstance(v, bool):
            return "true" if v else "false"
        if isinstance(v, int):
            return str(v)
        if isinstance(v, float):
            if "?" in spec:
                # Debug for f64 always keeps a fraction or an exponent
                if v == v and v not in (float("inf"), float("-inf")) and v == int(v) and abs(v) < 1e16:
                    return "%d.0" % int(v)
                import re as _re
                r = repr(v)
                return _re.sub(r"e([+-]?)0*(\d)", lambda m: "e" + ("-" if m.group(1) == "-" else "") + m.group(2), r)
            return rust_f64(v)
        if isinstance(v, tuple):
            if v[:1] == ("str",):
                return v[1]
            if v[:1] == ("atom",):
                return v[1]
            if v[:1] == ("enum",):
                ty = self.w.type_of(v)
                if "?" in spec:
                    raise Unknown("Debug formatting of %s" % ty)
                fi = self.w.display.get(ty)
                if fi is None:
                    raise Unknown("no Display impl for %s" % ty)
                buf = PyStr()
                sub = FmtInterp(self.w, env={"self": v, "f": buf}, depth=self.depth + 1)
                try:
                    sub.block(fi.node["body"])
                except Return:
                    pass
                return buf.s
            if v[0] == "Some" and "?" in spec:
                return "Some(%s)" % self.render(v[1], spec)
        if isinstance(v, MutList) and v.kind == "str":
            return "".join(self.render(x) for x in v)
        raise Unknown("cannot render %r" % (v,))

    def format(self, e, args):
        """args: evaluated macro arguments starting at the format string"""
        fs = S(args[0])
        if fs is None:
            raise Unknown("non-literal format string")
        rest = list(args[1:])
        named = {}
        # named arguments `name = expr` are parsed by the engine as assign nodes
        out = []
        idx = [0]

        def sub(m):
            if m.group(0) == "{{":
                return "{"
            if m.group(0) == "}}":
                return "}"
            inner = m.group(1)
            name, _, spec = inner.partition(":")
            if name == "":
                if idx[0] >= len(rest):
                    raise Unknown("format argument missing")
                v = rest[idx[0]]
                idx[0] += 1
            elif name.isdigit():
                v = rest[int(name)]
            else:
                v = self.lookup(name)
                if v is None:
                    raise Unknown("format capture %s" % name)
            if spec in ("x", "X") and isinstance(v, int) and not isinstance(v, bool):
                return ("%x" if spec == "x" else "%X") % v
            if spec not in ("", "?"):
                raise Unknown("format spec {:%s}" % spec)
            return self.render(v, spec)
        return FMT_RE.sub(sub, fs)

    def e_macro(self, e):
        name = e["name"].split("::")[-1]
        if name in ("write", "writeln"):
            args = e.get("args")
            if not args:
                raise Unknown("write! arguments")
            target = self.eval(args[0])
            vals = [self.eval(a) for a in args[1:]]
            text = self.format(e, vals) if vals else ""
            if name == "writeln":
                text += "\n"
            if isinstance(target, PyStr):
                target.s += text
                return ("Ok", ("tuple", []))
            raise Unknown("write! target %r" % (target,))
        if name == "format":
            vals = [self.eval(a) for a in e.get("args") or []]
            return PyStr(self.format(e, vals))
        return super().e_macro(e)

    def e_cast(self, e):
        v = self.eval(e["e"])
        c = S(v)
        if c is not None and len(c) == 1 and e["ty"] in ("u32", "u64", "usize", "i32", "i64"):
            return ord(c)
        return super().e_cast(e)

    def e_call(self, e):
        f = e["f"]
        fname = f.get("p") if f["k"] == "path" else None
        if fname in ("String::new", "String::with_capacity"):
            return PyStr("")
        if fname in ("String::from", "Cow::Borrowed", "Cow::Owned") and e["a"]:
            v = self.eval(e["a"][0])
            s = S(v)
            return PyStr(s) if s is not None and fname == "String::from" else v
        if fname in ("core::str::from_utf8", "std::str::from_utf8", "str::from_utf8") and e["a"]:
            v = self.eval(e["a"][0])
            return ("Ok", v) if S(v) is not None else OPAQUE
        if fname and fname.startswith("crate::") and fname.split("::")[-1] in self.w.free:
            fname = fname.split("::")[-1]
        if fname and fname in self.w.free:
            fi = self.w.free[fname]
            return self.call_fn(fi, None, [self.eval(a) for a in e["a"]])
        return super().e_call(e)

    def call_fn(self, fi, selfv, args):
        env = {}
        names = []
        for inp in fi.node["sig"]["inputs"]:
            if "self" in inp:
                env["self"] = selfv
            elif inp["pat"]["k"] == "pid":
                names.append(inp["pat"]["n"])
            else:
                names.append(None)
        for n, a in zip(names, args):
            if n:
                env[n] = a
        sub = FmtInterp(self.w, env=env, depth=self.depth + 1)
        try:
            return sub.block(fi.node["body"])
        except Return as r:
            return r.v

    def e_mcall(self, e):
        m = e["m"]
        if m == "encode_write" and e["r"].get("k") == "path" and e["r"]["p"].split("::")[-1] in ("HEXLOWER", "HEXUPPER") and len(e["a"]) == 2:
            # data_encoding::HEXLOWER.encode_write(bytes, f): base16 of the bytes, appended to the writer
            data = S(self.eval(e["a"][0]))
            out = self.eval(e["a"][1])
            if data is None or not isinstance(out, PyStr):
                raise Unknown("encode_write of %r" % (e["a"][0].get("s"),))
            h = data.encode().hex()
            out.s += h if e["r"]["p"].endswith("HEXLOWER") else h.upper()
            return ("Ok", ("tuple", []))
        recv = self.eval(e["r"])
        s = S(recv)
        args = None
        if m == "to_string":
            if s is not None:
                return PyStr(s)
            return PyStr(self.render(recv))
        if s is not None:
            args = [self.eval(a) if a["k"] != "closure" else a for a in e["a"]]
            a0 = S(args[0]) if args else None
            if m == "push_str" and isinstance(recv, PyStr) and a0 is not None:
                recv.s += a0
                return ("tuple", [])
            if m == "push" and isinstance(recv, PyStr) and a0 is not None:
                recv.s += a0
                return ("tuple", [])
            if m == "write_str" and isinstance(recv, PyStr) and a0 is not None:
                recv.s += a0
                return ("Ok", ("tuple", []))
            if m == "pop" and isinstance(recv, PyStr):
                if recv.s:
                    c = recv.s[-1]
                    recv.s = recv.s[:-1]
                    return ("Some", ("str", c))
                return ("None",)
            if m in ("trim", "trim_end", "trim_start"):
                return ("str", {"trim": s.strip(), "trim_end": s.rstrip(), "trim_start": s.lstrip()}[m])
            if m == "replace" and len(args) == 2 and a0 is not None and S(args[1]) is not None:
                return PyStr(s.replace(a0, S(args[1])))
            if m in ("ends_with", "starts_with", "contains") and a0 is not None:
                return {"ends_with": s.endswith(a0), "starts_with": s.startswith(a0), "contains": a0 in s}[m]
            if m == "is_empty":
                return s == ""
            if m == "is_control" and len(s) == 1:
                import unicodedata
                return unicodedata.category(s) == "Cc"
            if m == "len":
                return len(s.encode())
            if m in ("as_str", "as_ref", "clone", "to_owned", "borrow", "into", "as_bytes"):
                return recv if m != "clone" else PyStr(s)
            if m == "trim_end_matches" and a0 is not None:
                t = s
                while a0 and t.endswith(a0):
                    t = t[:-len(a0)]
                return ("str", t)
            if m == "lines":
                return ("list", [("str", x) for x in s.split("\n")])
            if m == "chars":
                return ("list", [("str", c) for c in s])
            raise Unknown("string method %s" % m)
        # inherent methods of modelled types
        ty = self.w.type_of(recv)
        if ty and (ty, m) in self.w.methods:
            args = [self.eval(a) for a in e["a"]]
            return self.call_fn(self.w.methods[(ty, m)], recv, args)
        if isinstance(recv, tuple) and recv[:1] == ("atom",):
            if m in ("has_trailing_comments", "any_non_newline", "has_comments_after_rule", "has_entries_with_trailing_comments",
                     "has_entries_with_comments_before_comma"):
                return False
            if m == "has_single_line_type":
                return True
            if m in ("as_ref", "clone", "borrow"):
                return recv
            raise Unknown("method %s on atom" % m)
        return super().e_mcall(e)


def render_node(world, v):
    return FmtInterp(world).render(v)
