"""Verdict tables of the two validators, obtained by abstract interpretation of the *source* of
visit_value / visit_range / seq_match_* on representative points of the order-type domain.
Shared by C01, C02, C04, C09."""
import absint
import vf
from absint import OPAQUE, Interp, Unknown, Return

JSON = "src/validator/json.rs"
CBOR = "src/validator/cbor.rs"
VIS = {"json": (JSON, "JSONValidator"), "cbor": (CBOR, "CBORValidator")}

EPS = 2.220446049250313e-16

INLINE_FREE = {"json_integer", "occurrence_allows_absence"}

CONFIGS = {
    "default": lambda f: f not in ("lsp", "_build-parser"),
    "no-ast-span": lambda f: f not in ("ast-span", "lsp", "_build-parser"),
    "no-additional-controls": lambda f: f not in ("additional-controls", "lsp", "_build-parser"),
}


def cfg_fn(name):
    feat = CONFIGS[name]
    return lambda c: absint.eval_cfg(c, feat)


def ctrl_val(c):
    if c is None:
        return ("None",)
    return ("Some", ("enum", "ControlOperator::" + c, []))


def visitor_fn(facts, which, name):
    file, ty = VIS[which]
    for q in ("<%s as Visitor>::%s" % (ty, name), "%s::%s" % (ty, name), "<%s as Validator>::%s" % (ty, name)):
        r = facts.fn_all(file, q)
        if r:
            return r[0]
    raise vf.Incomplete("%s::%s not found in %s" % (ty, name, file))


class Run:
    """one abstract run of a validator method"""

    def __init__(self, facts, which, cfgname, src_env, env, scripts=None):
        self.facts = facts
        self.which = which
        self.errors = 0
        self.calls = []
        self.scripts = scripts or {}
        self.it = Interp(env=env, src_env=src_env, cfg=cfg_fn(cfgname), on_call=self.on_call)
        # helpers extracted after the rules were written are interpreted (see vf.new_fn_resolver)
        self.it.resolve_fn = vf.new_fn_resolver(facts, (VIS[which][0], "src/validator/mod.rs", "src/validator/control.rs"), cfg_fn(cfgname), self_ty=VIS[which][1])
        self.new_methods = vf.new_methods(facts, *VIS[which])

    def on_call(self, kind, name, node, args, recv):
        if kind == "method":
            if name == "add_error":
                self.errors += 1
                return ("tuple", [])
            if isinstance(recv, tuple) and recv and recv[0] == "num":
                if name in ("as_i64", "as_u64", "as_f64"):
                    v = recv[1].get(name[3:])
                    return ("Some", v) if v is not None else ("None",)
                if name in ("is_i64", "is_u64"):
                    return recv[1].get(name[3:]) is not None and recv[1].get("repr", "int") == "int"
                if name == "is_f64":
                    # serde_json: true only for numbers stored as f64 (as_f64 converts integers, is_f64 does not)
                    return recv[1].get("repr") == "float" if "repr" in recv[1] else recv[1].get("f64") is not None
            if isinstance(recv, tuple) and recv and recv[0] == "text":
                # ("text", byte_length, char_count): RFC 8610 3.8.1 counts bytes for .size on text
                if name == "len":
                    return recv[1]
                if name == "chars":
                    return ("chars", recv[2] if len(recv) > 2 else recv[1])
                if name in ("as_bytes", "bytes", "as_str", "as_ref"):
                    return ("bytes", recv[1]) if name in ("as_bytes", "bytes") else recv
            if isinstance(recv, tuple) and recv and recv[0] == "chars" and name == "count":
                return recv[1]
            if isinstance(recv, tuple) and recv and recv[0] == "bytes" and name == "len":
                return recv[1]
            if name in self.scripts:
                return self.scripts[name](self, node, recv)
            if node["r"].get("s") == "self" and name in getattr(self, "new_methods", ()):
                fi = visitor_fn(self.facts, self.which, name)
                names = [inp["pat"]["n"] if "pat" in inp and inp["pat"]["k"] == "pid" else None for inp in fi.node["sig"]["inputs"] if "self" not in inp]
                # the arguments are evaluated by the interpreter that is executing the call (a sub-interpreter of an inlined helper or a
                # closure scope), not by the run's top-level one
                cur = absint.CURRENT if getattr(absint, "CURRENT", None) is not None else self.it
                a = [cur.eval(x) for x in node["a"]]
                env = {n: v for n, v in zip(names, a) if n}
                env["self"] = recv
                sub = Interp(env=env, src_env=self.it.src_env, cfg=self.it.cfg, on_call=self.it.on_call)
                sub.resolve_fn = self.it.resolve_fn
                try:
                    return sub.block(fi.node["body"])
                except Return as r:
                    return r.v
            if name == "resolve_range_bound" and node["r"].get("s") == "self":
                fi = visitor_fn(self.facts, self.which, "resolve_range_bound")
                a = self.it.eval(node["a"][0])
                sub = Interp(env={"bound": a}, src_env=self.it.src_env, cfg=self.it.cfg, on_call=self.on_call)
                try:
                    return sub.block(fi.node["body"])
                except Return as r:
                    return r.v
            return NotImplemented
        if kind == "fn":
            if name in self.scripts:
                return self.scripts[name](self, node, args)
            # small free helper functions of the validator's own file are interpreted (e.g. json_integer)
            if name and "::" not in name and name in self._free() and name in INLINE_FREE:
                fi = self._free()[name]
                names = [inp["pat"]["n"] if "pat" in inp and inp["pat"]["k"] == "pid" else None for inp in fi.node["sig"]["inputs"]]
                sub = Interp(env={n: a for n, a in zip(names, args) if n}, src_env=self.it.src_env, cfg=self.it.cfg, on_call=self.on_call)
                try:
                    return sub.block(fi.node["body"])
                except Return as r:
                    return r.v
        return NotImplemented

    def _free(self):
        if not hasattr(self, "_free_cache"):
            file = VIS[self.which][0]
            self._free_cache = {fi.name: fi for fi in self.facts.fns(file) if fi.impl_self is None and not fi.in_test}
            # small shared helpers of validator/mod.rs that are interpreted rather than scripted
            for fi in self.facts.fns("src/validator/mod.rs"):
                if fi.impl_self is None and not fi.in_test and fi.name in INLINE_FREE:
                    self._free_cache.setdefault(fi.name, fi)
        return self._free_cache

    def run(self, fnode):
        try:
            v = self.it.block(fnode["body"])
        except Return as r:
            v = r.v
        return v


def num(i64=None, u64=None, f64=None):
    return ("num", {"i64": i64, "u64": u64, "f64": f64})


def json_number(x):
    """serde_json::Number model: what as_i64/as_u64/as_f64 and is_i64/is_u64/is_f64 return for a JSON number x"""
    if isinstance(x, float):
        n = num(None, None, x)
        n[1]["repr"] = "float"
        return n
    n = num(x if -2**63 <= x < 2**63 else None, x if 0 <= x < 2**64 else None, float(x))
    n[1]["repr"] = "int"
    return n


# --------------------------------------------------------------------------
# literal comparison table
# --------------------------------------------------------------------------

CTRLS = [None, "NE", "LT", "LE", "GT", "GE", "AND", "WITHIN"]


def cmp_points(kind, which):
    """(label, literal value, document value) representative points"""
    if kind in ("INT", "UINT"):
        lit = 3 if kind == "UINT" else -3
        pts = [("lt", lit, lit - 1), ("eq", lit, lit), ("gt", lit, lit + 1)]
        # documents outside the literal's own machine type
        if kind == "UINT":
            pts.append(("lt:negative-doc", lit, -1))
            pts.append(("gt:doc>i64::MAX", lit, 2**63 + 5))
        else:
            pts.append(("gt:doc>i64::MAX", lit, 2**63 + 5))
            pts.append(("gt:positive-doc", lit, 7))
        return pts
    if kind == "FLOAT":
        lit = 0.0
        return [("lt:far", lit, -1.0), ("lt:|d|=eps", lit, -EPS), ("lt:|d|<eps", lit, -EPS / 2), ("eq", lit, 0.0),
                ("gt:|d|<eps", lit, EPS / 2), ("gt:|d|=eps", lit, EPS), ("gt:far", lit, 1.0)]
    raise ValueError(kind)


def oracle_cmp(ctrl, label):
    o = label.split(":")[0]
    if ctrl in (None, "AND", "WITHIN"):
        return o == "eq"
    return {"NE": o != "eq", "LT": o == "lt", "LE": o in ("lt", "eq"), "GT": o == "gt", "GE": o in ("gt", "eq")}[ctrl]


def cmp_table(facts, which, cfgname="default"):
    """rows: dict(kind, ctrl, point, verdict ('accept'/'reject'/'unknown: ..'), expected)"""
    fi = visitor_fn(facts, which, "visit_value")
    rows = []
    # text .size N : the size of a text string is its number of bytes (RFC 8610 3.8.1)
    for (label, nbytes, nchars, exp) in (("bytes=N,chars<N", 3, 1, True), ("bytes>N,chars=N", 5, 3, False), ("bytes<N", 2, 2, False), ("bytes=chars=N", 3, 3, True)):
        docv = ("enum", "Value::String" if which == "json" else "Value::Text", [("text", nbytes, nchars)])
        src_env = {("self.json" if which == "json" else "self.cbor"): docv, "self.state.ctrl": ctrl_val("SIZE")}
        r = Run(facts, which, cfgname, src_env, {"value": ("enum", "token::Value::UINT", [3])})
        try:
            r.run(fi.node)
            verdict = "reject" if r.errors else "accept"
        except Unknown as u:
            verdict = "unknown: %s" % u
        rows.append({"kind": "TEXT.size", "ctrl": "SIZE", "point": label, "verdict": verdict,
                     "expected": "accept" if exp else "reject", "line": fi.line, "file": fi.file})
    # uint .size N : the value fits in N bytes (RFC 8610 3.8.1);  uint .bits B with a literal B : only bit B may be set (3.8.2)
    for (rk, ctrl, lit, pts) in (("UINT.size", "SIZE", 2, [("0", 0, True), ("256^N-1", 65535, True), ("256^N", 65536, False)]),
                                 ("UINT.bits", "BITS", 3, [("no bit set", 0, True), ("only bit B", 8, True), ("bit B and bit 0", 9, False),
                                                           ("only bit 0", 1, False)])):
        if which == "json" and ctrl == "BITS":
            continue        # .bits is a CBOR-only control in this crate (documented; C04 lists it)
        for (label, doc, exp) in pts:
            docv = ("enum", "Value::Number", [json_number(doc)]) if which == "json" else ("enum", "Value::Integer", [doc])
            src_env = {("self.json" if which == "json" else "self.cbor"): docv, "self.state.ctrl": ctrl_val(ctrl)}
            r = Run(facts, which, cfgname, src_env, {"value": ("enum", "token::Value::UINT", [lit])})
            try:
                r.run(fi.node)
                verdict = "reject" if r.errors else "accept"
            except Unknown as u:
                verdict = "unknown: %s" % u
            rows.append({"kind": rk, "ctrl": ctrl, "point": label, "verdict": verdict,
                         "expected": "accept" if exp else "reject", "line": fi.line, "file": fi.file})
    for kind in ("INT", "UINT", "FLOAT"):
        for ctrl in CTRLS:
            for (label, lit, doc) in cmp_points(kind, which):
                if which == "json":
                    docv = ("enum", "Value::Number", [json_number(doc)])
                    src_env = {"self.json": docv}
                else:
                    if kind == "FLOAT":
                        docv = ("enum", "Value::Float", [doc])
                    else:
                        docv = ("enum", "Value::Integer", [doc])
                    src_env = {"self.cbor": docv}
                src_env["self.state.ctrl"] = ctrl_val(ctrl)
                env = {"value": ("enum", "token::Value::" + kind, [lit])}
                r = Run(facts, which, cfgname, src_env, env)
                try:
                    r.run(fi.node)
                    verdict = "reject" if r.errors else "accept"
                except Unknown as u:
                    verdict = "unknown: %s" % u
                rows.append({"kind": kind, "ctrl": ctrl or "none", "point": label, "verdict": verdict,
                             "expected": "accept" if oracle_cmp(ctrl, label) else "reject", "line": fi.line, "file": fi.file})
    return rows


# --------------------------------------------------------------------------
# ranges
# --------------------------------------------------------------------------

BOUND_KINDS = [("Int", "Int"), ("Uint", "Uint"), ("Int", "Uint"), ("Uint", "Int"), ("Float", "Float")]


def range_points(lk="Uint", uk="Uint"):
    """(label, l, u, v); Int bounds come from negative literals only, so Uint..Int is realisable only as an empty
    range and Int..Uint never has l = u (except -0..0, ignored)"""
    if (lk, uk) == ("Uint", "Int"):
        return [("l>u,v between", 20, 10, 15), ("l>u,v=l", 20, 10, 20), ("l>u,v=u", 20, 10, 10)]
    if (lk, uk) == ("Int", "Uint"):
        return [("v<l", 10, 20, 5), ("v=l", 10, 20, 10), ("l<v<u", 10, 20, 15), ("v=u", 10, 20, 20), ("v>u", 10, 20, 25)]
    pts = [("v<l", 10, 20, 5), ("v=l", 10, 20, 10), ("l<v<u", 10, 20, 15), ("v=u", 10, 20, 20), ("v>u", 10, 20, 25),
           ("l=u,v<l", 10, 10, 5), ("l=u=v", 10, 10, 10), ("l=u,v>u", 10, 10, 15),
           ("l>u,v between", 20, 10, 15)]
    if (lk, uk) == ("Uint", "Uint"):
        # bounds in the upper half of the u64 range (a narrowing of the bound to a signed type wraps them negative)
        B = 2**63
        pts += [("v=l@2^63", B, B + 10, B), ("l<v<u@2^63", B, B + 10, B + 5), ("v<l@2^63 (v = l - 2^64)", B, B + 10, B - 2**64),
                ("v=0,u=2^64-1", 0, 2**64 - 1, 0), ("v=u=2^64-1", 0, 2**64 - 1, 2**64 - 1)]
    return pts


def oracle_range(label, l, u, v, incl):
    return (l <= v <= u) if incl else (l <= v < u)


def bound(kind, x):
    if kind == "Float":
        return ("enum", "Type2::FloatValue", {"value": float(x)})
    return ("enum", "Type2::%sValue" % kind, {"value": x})


def range_table(facts, which, cfgname="default"):
    fi = visitor_fn(facts, which, "visit_range")
    rows = []
    for (lk, uk) in BOUND_KINDS:
        for incl in (True, False):
            for (label, l, u, v) in range_points(lk, uk):
                for doc in ("number", "text.size"):
                    if doc == "text.size" and ((lk, uk) != ("Uint", "Uint") or "2^6" in label):
                        continue        # a text length is a small non-negative number
                    fl = lk == "Float"
                    vv = float(v) if fl else v
                    if which == "json":
                        if doc == "number":
                            docv = ("enum", "Value::Number", [json_number(vv)])
                        else:
                            docv = ("enum", "Value::String", [("text", v, v - 10)])
                        src_env = {"self.json": docv}
                    else:
                        if doc == "number":
                            docv = ("enum", "Value::Float", [vv]) if fl else ("enum", "Value::Integer", [v])
                        else:
                            docv = ("enum", "Value::Text", [("text", v, v - 10)])
                        src_env = {"self.cbor": docv}
                    src_env["self.state.ctrl"] = ctrl_val("SIZE" if doc == "text.size" else None)
                    env = {"lower": bound(lk, l), "upper": bound(uk, u), "is_inclusive": incl}
                    r = Run(facts, which, cfgname, src_env, env)
                    try:
                        r.run(fi.node)
                        verdict = "reject" if r.errors else "accept"
                    except Unknown as e:
                        verdict = "unknown: %s" % e
                    rows.append({"bounds": "%s..%s" % (lk, uk), "incl": incl, "point": label, "doc": doc, "verdict": verdict,
                                 "expected": "accept" if oracle_range(label, l, u, v, incl) else "reject",
                                 "line": fi.line, "file": fi.file})
    return rows


def named_range_table(facts, which, cfgname="default"):
    """visit_range with a bound written as the name of a rule that is one numeric literal (RFC 8610 2.2.2.1: `byte = 0..max-byte`,
    `max-byte = 255`): the verdict is that of the range with the literal written in place"""
    fi = visitor_fn(facts, which, "visit_range")
    rows = []

    def ident(n):
        return ("enum", "Identifier", {"ident": ("str", n), "socket": ("None",), "span": OPAQUE})

    def named(n):
        return ("enum", "Type2::Typename", {"ident": ident(n), "generic_args": ("None",), "span": OPAQUE})

    def rule(n, t2):
        tc = ("enum", "TypeChoice", {"type1": ("enum", "Type1", {"type2": t2, "operator": ("None",), "span": OPAQUE, "comments_after_type": ("None",)}),
                                      "comments_before_type": ("None",), "comments_after_type": ("None",)})
        return ("enum", "Rule::Type", {"rule": ("enum", "TypeRule", {"name": ident(n), "generic_params": ("None",), "is_type_choice_alternate": False,
                                                                      "value": ("enum", "Type", {"type_choices": absint.MutList([tc]), "span": OPAQUE})}), "span": OPAQUE})
    for kind in ("Uint", "Float"):
        for shape in ("lo..U", "L..hi", "lo..hi"):
            for incl in (True, False):
                for (label, l, u, v) in [("v<l", 10, 20, 5), ("v=l", 10, 20, 10), ("l<v<u", 10, 20, 15), ("v=u", 10, 20, 20), ("v>u", 10, 20, 25)]:
                    fl = kind == "Float"
                    vv = float(v) if fl else v
                    if which == "json":
                        src_env = {"self.json": ("enum", "Value::Number", [json_number(vv)])}
                    else:
                        src_env = {"self.cbor": ("enum", "Value::Float", [vv]) if fl else ("enum", "Value::Integer", [v])}
                    src_env["self.state.ctrl"] = ctrl_val(None)
                    rules = absint.MutList([rule("lo", bound(kind, l)), rule("hi", bound(kind, u)), rule("other", bound(kind, 99))])
                    src_env["self.state.cddl.rules"] = rules
                    src_env["self.state.cddl"] = ("enum", "CDDL", {"rules": rules})
                    env = {"lower": named("lo") if shape.startswith("lo") else bound(kind, l),
                           "upper": named("hi") if shape.endswith("hi") else bound(kind, u), "is_inclusive": incl}
                    r = Run(facts, which, cfgname, src_env, env)
                    try:
                        r.run(fi.node)
                        verdict = "reject" if r.errors else "accept"
                    except Unknown as e:
                        verdict = "unknown: %s" % e
                    rows.append({"bounds": "%s %s" % (kind, shape), "incl": incl, "point": label, "verdict": verdict,
                                 "expected": "accept" if oracle_range(label, l, u, v, incl) else "reject", "line": fi.line, "file": fi.file})
    return rows


# --------------------------------------------------------------------------
# occurrence table and the greedy loop of seq_match_entry
# --------------------------------------------------------------------------

def occ_val(o):
    if o is None:
        return ("None",)
    kind, lo, hi = o
    if kind == "Exact":
        f = {"lower": ("Some", lo) if lo is not None else ("None",), "upper": ("Some", hi) if hi is not None else ("None",)}
    else:
        f = {}
    return ("Some", ("enum", "Occur::" + kind, f))


OCCURS = [None, ("Optional", None, None), ("ZeroOrMore", None, None), ("OneOrMore", None, None),
          ("Exact", 2, 4), ("Exact", None, 3), ("Exact", 2, None), ("Exact", None, None), ("Exact", 0, 1), ("Exact", 1, None),
          ("Exact", 0, None), ("Exact", 3, 3), ("Exact", 1000000000000, None)]


def oracle_minmax(o):
    """RFC 8610 section 3.2"""
    if o is None:
        return (1, 1)
    kind, lo, hi = o
    if kind == "Optional":
        return (0, 1)
    if kind == "ZeroOrMore":
        return (0, None)
    if kind == "OneOrMore":
        return (1, None)
    return (lo if lo is not None else 0, hi)


def occ_name(o):
    if o is None:
        return "(none)"
    kind, lo, hi = o
    if kind == "Exact":
        if lo is None and hi is None:
            return "Exact{None,None}"
        return "%s*%s" % ("" if lo is None else lo, "" if hi is None else hi)
    return {"Optional": "?", "ZeroOrMore": "*", "OneOrMore": "+"}[kind]


def seq_entry_table(facts, which, cfgname="default"):
    """interpret seq_match_entry with a scripted seq_match_entry_once: the entry matches `k` consecutive
    one-element iterations (then fails), or its first iteration is zero-width ('Z')."""
    fi = visitor_fn(facts, which, "seq_match_entry")
    rows = []
    for o in OCCURS:
        for k in (0, 1, 2, 3, 4, 5, "Z"):
            state = {"n": 0}

            def once(run, node, recv, k=k, state=state):
                state["calls"] = state.get("calls", 0) + 1
                if state["calls"] > 40:
                    raise Unknown("more than 40 iterations")
                cur = run.it.eval(node["a"][2])
                if not isinstance(cur, int):
                    raise Unknown("cursor not tracked")
                if k == "Z":
                    return ("Ok", ("Some", cur))
                if state["n"] < k:
                    state["n"] += 1
                    return ("Ok", ("Some", cur + 1))
                return ("Ok", ("None",))

            entry = ("enum", "GroupEntry::TypeGroupname", {"ge": ("enum", "TypeGroupnameEntry", {"occur": OPAQUE})})
            src_env = {"ge.occur.as_ref().map(|o|o.occur)": occ_val(o), "occur.as_ref().map(|o|o.occur)": occ_val(o)}
            # the array holds exactly the elements the scripted iterations consume: after them (and for a
            # zero-width entry from the start) the cursor sits at the end of the array
            avail = k if isinstance(k, int) else 0
            env = {"entry": entry, "elems": absint.MutList([OPAQUE] * (100 + avail)), "cursor": 100, "ctx": OPAQUE}
            r = Run(facts, which, cfgname, src_env, env, scripts={"seq_match_entry_once": once})
            try:
                v = r.run(fi.node)
                if isinstance(v, tuple) and v[0] == "Ok" and isinstance(v[1], tuple) and v[1][0] == "Some":
                    verdict = "match+%d" % (v[1][1] - 100)
                elif isinstance(v, tuple) and v[0] == "Ok" and v[1] == ("None",):
                    verdict = "nomatch"
                else:
                    verdict = "unknown: result %r" % (v,)
            except Unknown as e:
                verdict = "unknown: %s" % e
            mn, mx = oracle_minmax(o)
            if k == "Z":
                # a zero-width iteration must end the loop at once, whatever the lower bound (termination)
                if not verdict.startswith("unknown") and state.get("calls", 0) > 1:
                    verdict += " after %d call(s)" % state.get("calls", 0)
                exp = "match+0"
            else:
                n = k if mx is None else min(k, mx)
                exp = "match+%d" % n if n >= mn else "nomatch"
            rows.append({"occur": occ_name(o), "iterations_available": k, "verdict": verdict, "expected": exp,
                         "line": fi.line, "file": fi.file})
    return rows


def seq_choice_tables(facts, which, cfgname="default"):
    """seq_match_group_choice folds entries left to right; seq_match_group takes the first matching choice."""
    rows = []
    fi = visitor_fn(facts, which, "seq_match_group_choice")
    # entries: each consumes c_i elements or fails (None)
    for script in ([1, 1, 1], [2, 0, 1], [1, None, 1], [None, 1], [], [0, 0]):
        it = iter(script)
        pos = {"i": 0}

        def entry(run, node, recv, script=script, pos=pos):
            cur = run.it.eval(node["a"][2])
            c = script[pos["i"]]
            pos["i"] += 1
            if c is None:
                return ("Ok", ("None",))
            return ("Ok", ("Some", cur + c))
        gc = ("enum", "GroupChoice", {"group_entries": ("list", [("tuple", [("enum", "E%d" % i, []), OPAQUE]) for i in range(len(script))])})
        r = Run(facts, which, cfgname, {}, {"gc": gc, "elems": OPAQUE, "cursor": 100, "ctx": OPAQUE}, scripts={"seq_match_entry": entry})
        try:
            v = r.run(fi.node)
            verdict = _show(v)
        except Unknown as e:
            verdict = "unknown: %s" % e
        if None in script:
            exp = "nomatch"
            calls = script.index(None) + 1
        else:
            exp = "match+%d" % sum(script)
            calls = len(script)
        if not verdict.startswith("unknown") and pos["i"] != calls:
            verdict += " (visited %d entries, expected %d)" % (pos["i"], calls)
        rows.append({"fn": "seq_match_group_choice", "script": str(script), "verdict": verdict, "expected": exp, "line": fi.line, "file": fi.file})
    fi = visitor_fn(facts, which, "seq_match_group")
    for script in ([None, 2, 3], [1, 2], [None, None], []):
        pos = {"i": 0}

        def choice(run, node, recv, script=script, pos=pos):
            cur = run.it.eval(node["a"][2])
            c = script[pos["i"]]
            pos["i"] += 1
            if c is None:
                return ("Ok", ("None",))
            return ("Ok", ("Some", cur + c))
        g = ("enum", "Group", {"group_choices": ("list", [("enum", "GC%d" % i, []) for i in range(len(script))])})
        r = Run(facts, which, cfgname, {}, {"group": g, "elems": OPAQUE, "cursor": 100, "ctx": OPAQUE}, scripts={"seq_match_group_choice": choice})
        try:
            v = r.run(fi.node)
            verdict = _show(v)
        except Unknown as e:
            verdict = "unknown: %s" % e
        first = next((c for c in script if c is not None), None)
        exp = "nomatch" if first is None else "match+%d" % first
        rows.append({"fn": "seq_match_group", "script": str(script), "verdict": verdict, "expected": exp, "line": fi.line, "file": fi.file})
    return rows


def _show(v):
    if isinstance(v, tuple) and v[0] == "Ok" and isinstance(v[1], tuple) and v[1][0] == "Some" and isinstance(v[1][1], int):
        return "match+%d" % (v[1][1] - 100)
    if isinstance(v, tuple) and v[0] == "Ok" and v[1] == ("None",):
        return "nomatch"
    return "unknown: result %r" % (v,)


# --------------------------------------------------------------------------
# visit_control_operator: the mode flag state.ctrl is restored on every Ok exit
# --------------------------------------------------------------------------

def self_obj(which, docv, ctrl=("None",)):
    state = ("enum", "ValidationState", {"ctrl": ctrl, "eval_generic_rule": ("None",), "generic_rules": absint.MutList(),
                                         "is_ctrl_map_equality": False, "occurrence": ("None",), "cddl": OPAQUE,
                                         "is_member_key": False})
    return ("enum", "Self", {"state": state, "json" if which == "json" else "cbor": docv, "errors": absint.MutList()})


def ctrl_restore_table(facts, which, cfgname="default"):
    fi = visitor_fn(facts, which, "visit_control_operator")
    enum = facts.item("src/token.rs", "enum", "ControlOperator")
    rows = []
    if which == "json":
        docs = {"number": ("enum", "Value::Number", [json_number(3)]), "string": ("enum", "Value::String", [("text", 3, 3)]),
                "array": ("enum", "Value::Array", [OPAQUE]), "object": ("enum", "Value::Object", [OPAQUE])}
    else:
        docs = {"number": ("enum", "Value::Integer", [3]), "string": ("enum", "Value::Text", [("text", 3, 3)]),
                "array": ("enum", "Value::Array", [OPAQUE]), "object": ("enum", "Value::Map", [OPAQUE]), "bytes": ("enum", "Value::Bytes", [("bytes", 3)])}
    targets = {"typename": ("enum", "Type2::Typename", {"ident": ("enum", "Identifier", {"ident": ("str", "t")}), "generic_args": ("None",)}),
               "array": ("enum", "Type2::Array", {"group": OPAQUE}), "map": ("enum", "Type2::Map", {"group": OPAQUE}),
               "uint": ("enum", "Type2::UintValue", {"value": 3})}
    for v in enum["variants"]:
        cname = v["name"]
        for tname, tval in targets.items():
            for pred in (True, False):
                for dname, dval in docs.items():
                    obj = self_obj(which, dval)
                    visits = []

                    def visit(run, node, recv, obj=obj, visits=visits):
                        visits.append(obj[2]["state"][2]["ctrl"])
                        return ("Ok", ("tuple", []))

                    def isident(run, node, args, pred=pred):
                        return pred
                    scripts = {"visit_type2": visit, "visit_type": visit, "visit_group": visit}
                    r = Run(facts, which, cfgname, {}, {"self": obj, "target": tval, "ctrl": ("enum", "ControlOperator::" + cname, []),
                                                        "controller": ("enum", "Type2::UintValue", {"value": 3})}, scripts=scripts)
                    base_on_call = r.on_call

                    trace = []

                    def on_call(kind, name, node, args, recv, base=base_on_call, pred=pred, trace=trace):
                        if kind == "fn" and name and (name.startswith("is_ident_") or name.startswith("ident_")):
                            return pred
                        if name and not (kind == "method" and name in ("add_error", "clone", "as_ref", "to_string", "len", "is_empty", "iter", "is_some",
                                                                          "is_none", "as_str", "into", "borrow", "as_deref", "to_owned", "unwrap_or")):
                            if kind == "fn" or (node.get("r") is not None and vf.src(node["r"]).startswith("self")):
                                trace.append(name.split("::")[-1])
                        return base(kind, name, node, args, recv)
                    r.it.on_call = on_call
                    key = "%s|target=%s|preds=%s|doc=%s" % (cname, tname, pred, dname)
                    try:
                        res = r.run(fi.node)
                    except Unknown as e:
                        continue
                    except Return:
                        continue
                    if not (isinstance(res, tuple) and res[0] == "Ok") and res != ("tuple", []) and res is not OPAQUE:
                        if isinstance(res, tuple) and res[0] == "Err":
                            continue
                    after = obj[2]["state"][2]["ctrl"]
                    rows.append({"key": key, "ctrl_after": "None" if after == ("None",) else repr(after)[:60], "visits": len(visits),
                                 "errors": r.errors + len(obj[2]["errors"]), "calls": sorted(set(trace)),
                                 "line": fi.line, "file": fi.file})
    return rows


# --------------------------------------------------------------------------
# generic object-model runs of methods of one impl
# --------------------------------------------------------------------------

class ObjRun:
    """interpret methods of `ty` in `file`; self-method / Self:: calls whose name is in `inline` are interpreted too,
    names in `scripts` are scripted, everything else is opaque"""

    def __init__(self, facts, file, ty, cfgname="default", inline=(), scripts=None):
        self.facts = facts
        self.file = file
        self.ty = ty
        self.cfg = cfg_fn(cfgname)
        self.inline = set(inline)
        self.scripts = scripts or {}
        self.errors = 0
        self.methods = {}
        for fi in facts.fns(file):
            if fi.impl_self == ty and not fi.in_test:
                self.methods.setdefault(fi.name, []).append(fi)
        self.depth = 0
        self.inline |= vf.new_methods(facts, file, ty)
        self.resolve_fn = vf.new_fn_resolver(facts, (file, "src/validator/mod.rs", "src/validator/control.rs"), self.cfg, self_ty=ty)

    def fn(self, name):
        for fi in self.methods.get(name, []):
            if all(self.cfg(c) for c in fi.cfg):
                return fi
        raise vf.Incomplete("%s::%s not found in %s" % (self.ty, name, self.file))

    def call(self, name, self_obj, args):
        fi = self.fn(name)
        env = {}
        pos = []
        for inp in fi.node["sig"]["inputs"]:
            if "self" in inp:
                env["self"] = self_obj
            elif inp["pat"]["k"] == "pid":
                pos.append(inp["pat"]["n"])
            else:
                pos.append(None)
        if isinstance(args, dict):
            env.update(args)
        else:
            for n, a in zip(pos, args):
                if n:
                    env[n] = a
        self.depth += 1
        if self.depth > 30:
            raise Unknown("call depth")
        it = Interp(env=env, cfg=self.cfg, on_call=None)
        it.resolve_fn = self.resolve_fn
        it.on_call = lambda kind, nm, node, a, recv, it=it, so=self_obj: self.on_call(it, so, kind, nm, node, a, recv)
        try:
            return it.block(fi.node["body"])
        except Return as r:
            return r.v
        finally:
            self.depth -= 1

    def on_call(self, it, self_obj, kind, name, node, args, recv):
        if kind == "method":
            if name == "add_error" and node["r"].get("s") == "self":
                self.errors += 1
                return ("tuple", [])
            if name in self.scripts:
                return self.scripts[name](self, it, node, recv)
            if node["r"].get("s") == "self" and name in self.inline:
                a = [it.eval(x) for x in node["a"]]
                return self.call(name, self_obj, a)
            return NotImplemented
        if kind == "fn" and name:
            base = name.split("::")[-1]
            if name in self.scripts or base in self.scripts:
                return (self.scripts.get(name) or self.scripts[base])(self, it, node, args)
            if name.startswith("Self::") and base in self.inline:
                return self.call(base, self_obj, args)
        return NotImplemented


# --------------------------------------------------------------------------
# a literal member key that is absent from the map
# --------------------------------------------------------------------------

ABSENT_OCCS = [None, ("Optional", None, None), ("ZeroOrMore", None, None), ("OneOrMore", None, None), ("Exact", 0, 1), ("Exact", None, 1),
               ("Exact", 0, None), ("Exact", None, None), ("Exact", 1, None), ("Exact", 1, 2)]


def oracle_allows_absence(occ):
    if occ is None:
        return False
    mn, _ = oracle_minmax(occ)
    return mn == 0


def absent_key_table(facts, which, cfgname="default"):
    """rows for: the member's literal key is not in the map; verdict 'skipped' (no error, advance to the next entry) or 'missing' (error)"""
    rows = []
    fi = visitor_fn(facts, which, "validate_object_value" if which == "json" else "visit_value")
    for occ in ABSENT_OCCS:
        doc = ("enum", "Value::Object", [absint.PyMap()]) if which == "json" else ("enum", "Value::Map", [absint.MutList()])
        obj = self_obj(which, doc)
        st = obj[2]["state"][2]
        st.update({"occurrence": occ_val(occ) if occ else ("None",), "is_member_key": True, "is_cut_present": False, "advance_to_next_entry": False,
                   "data_location": ("str", "")})
        obj[2].update({"validated_keys": ("None",), "object_value": ("None",), "cut_value": ("None",), "claimed_map_entries": absint.MutList()})
        scripts = {"find_single_map_entry_matching": lambda run, node, recv: ("None",),
                   "token_value_into_cbor_value": lambda run, node, args: ("str", "KEY")}
        r = Run(facts, which, cfgname, {}, {"self": obj, "value": ("enum", "token::Value::TEXT", [("str", "k")])}, scripts=scripts)
        name = occ_name(occ) if occ else "none"
        try:
            r.run(fi.node)
            nerr = r.errors + len(obj[2]["errors"])
            verdict = "missing" if nerr else ("skipped" if st["advance_to_next_entry"] is True else "accepted-without-skip")
            after = st.get("occurrence")
            occ_after = "none" if after == ("None",) else ("unknown" if absint.has_opaque(after) else "kept")
        except Unknown as u:
            verdict = "unknown: %s" % u
            occ_after = "unknown"
        rows.append({"occ": name, "verdict": verdict, "expected": "skipped" if oracle_allows_absence(occ) else "missing", "file": fi.file, "line": fi.line,
                     "occ_after": occ_after})
    return rows


def present_key_location(facts, key, cfgname="default", occ=None):
    """JSON validate_object_value on a map that contains the member's literal key: the data_location after the run (the text of the
    path segment appended for that key), or ('unknown', reason)"""
    fi = visitor_fn(facts, "json", "validate_object_value")
    m = absint.PyMap()
    m[absint.hkey(("str", key))] = ("enum", "Value::Number", [json_number(1)])
    m.is_map = True
    doc = ("enum", "Value::Object", [m])
    obj = self_obj("json", doc)
    st = obj[2]["state"][2]
    # the location is a shared mutable string: helpers that take `&mut String` write through to it
    locbuf = absint.MutList([("str", "/outer")])
    locbuf.kind = "str"
    st.update({"occurrence": occ_val(occ) if occ else ("None",), "is_member_key": True, "is_cut_present": False, "advance_to_next_entry": False,
               "data_location": locbuf})
    obj[2].update({"validated_keys": ("None",), "object_value": ("None",), "cut_value": ("None",)})
    r = Run(facts, "json", cfgname, {}, {"self": obj, "value": ("enum", "token::Value::TEXT", [("str", key)])}, scripts={})
    r.it.string_places = True
    try:
        r.run(fi.node)
    except Unknown as u:
        return ("unknown", str(u)), fi
    loc = st.get("data_location")
    if isinstance(loc, absint.MutList) and all(isinstance(c, tuple) and c[:1] == ("str",) for c in loc):
        return "".join(c[1] for c in loc), fi
    return (loc[1] if isinstance(loc, tuple) and loc[:1] == ("str",) else ("unknown", "data_location is %r" % (loc,))), fi
