"""Syntactic, name-resolved call graph of the crate (all cfg arms).

Resolution (strong edges only — no guessing on foreign receivers):
  foo(..) / path::foo(..)      -> every non-test free function named foo in the crate
  Self::foo(..) / Type::foo()  -> methods named foo of that type (any impl block of the type)
  self.foo(..)                 -> methods named foo of the enclosing impl's type (inherent and trait impls)
Closures and nested blocks belong to the enclosing function.  Weak edges (x.foo() on another receiver whose
method name is defined in the crate) are returned separately for conservative reachability."""
import vf

SRC_PREFIXES = ("src/",)


class CG:
    def __init__(self, facts, prefixes=SRC_PREFIXES, exclude=("src/parser_tests.rs",)):
        self.facts = facts
        self.fns = []
        for file in sorted(facts.files):
            if not file.startswith(prefixes) or file in exclude:
                continue
            for fi in facts.fns(file):
                if fi.in_test:
                    continue
                self.fns.append(fi)
        self.free = {}
        self.methods = {}     # (type, name) -> [fi]
        self.by_method_name = {}
        for fi in self.fns:
            if fi.impl_self is None:
                self.free.setdefault(fi.name, []).append(fi)
            else:
                self.methods.setdefault((fi.impl_self, fi.name), []).append(fi)
                self.by_method_name.setdefault(fi.name, []).append(fi)
        self.key = {id(fi): "%s::%s" % (fi.file, fi.qual) for fi in self.fns}
        self.strong = {}
        self.weak = {}
        self.callsites = {}
        for fi in self.fns:
            s, w, sites = self._edges(fi)
            self.strong[id(fi)] = s
            self.weak[id(fi)] = w
            self.callsites[id(fi)] = sites
        self.byid = {id(fi): fi for fi in self.fns}

    def _edges(self, fi):
        strong, weak, sites = set(), set(), []
        for n in vf.walk(fi.node.get("body") or {}):
            k = n["k"]
            if k == "call" and n["f"]["k"] == "path":
                p = n["f"]["p"]
                segs = p.split("::")
                name = segs[-1]
                tgt = []
                if len(segs) >= 2 and (segs[-2] == "Self" or segs[-2][:1].isupper()):
                    ty = fi.impl_self if segs[-2] == "Self" else segs[-2]
                    tgt = self.methods.get((ty, name), [])
                else:
                    tgt = self.free.get(name, [])
                for t in tgt:
                    strong.add(id(t))
                    sites.append((n, t))
            elif k == "mcall":
                r = vf.src(n["r"])
                if r == "self" and fi.impl_self:
                    for t in self.methods.get((fi.impl_self, n["m"]), []):
                        strong.add(id(t))
                        sites.append((n, t))
                elif n["m"] in self.by_method_name:
                    for t in self.by_method_name[n["m"]]:
                        weak.add(id(t))
        return strong, weak, sites

    def sccs(self, edges=None):
        """Tarjan over strong edges; returns list of lists of fn ids (only cyclic components)"""
        edges = self.strong if edges is None else edges
        index = {}
        low = {}
        onstack = set()
        stack = []
        out = []
        counter = [0]
        import sys
        sys.setrecursionlimit(10000)

        def strongconnect(v):
            index[v] = low[v] = counter[0]
            counter[0] += 1
            stack.append(v)
            onstack.add(v)
            for w in edges.get(v, ()):
                if w not in index:
                    strongconnect(w)
                    low[v] = min(low[v], low[w])
                elif w in onstack:
                    low[v] = min(low[v], index[w])
            if low[v] == index[v]:
                comp = []
                while True:
                    w = stack.pop()
                    onstack.discard(w)
                    comp.append(w)
                    if w == v:
                        break
                if len(comp) > 1 or v in edges.get(v, ()):
                    out.append(comp)
        for v in list(edges):
            if v not in index:
                strongconnect(v)
        return out

    def reachable(self, roots, weak=True):
        seen = set()
        stack = [id(r) for r in roots]
        while stack:
            v = stack.pop()
            if v in seen:
                continue
            seen.add(v)
            stack.extend(self.strong.get(v, ()))
            if weak:
                stack.extend(self.weak.get(v, ()))
        return seen
