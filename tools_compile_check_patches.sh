#!/bin/sh
# usage: tools_compile_check_patches.sh : every kept patch (seeded*/, refactors/) must still apply to /repo's HEAD *and* compile there
# (`git apply --check` alone accepted a patch that renamed a variable a later fix: commit uses). Works in a scratch worktree /tmp/ck.
git -C /repo worktree add --detach /tmp/ck HEAD -q || exit 9
cd /tmp/ck; export CARGO_NET_OFFLINE=true
cargo check --offline --workspace 2>&1 | tail -1
rc=0
for d in /verif/seeded /verif/seeded2 /verif/seeded3 /verif/seeded4 /verif/seeded5 /verif/seeded6 /verif/refactors; do
  for id in $(ls $d | grep "^C[0-9][0-9]"); do
    git checkout -q -- .
    git apply $d/$id/patch.diff 2>/dev/null || { echo "$d/$id: does not apply"; continue; }
    r=$(cargo check --offline --workspace 2>&1 | grep -E "^error" | head -1)
    [ -n "$r" ] && { echo "$d/$id: COMPILE ERROR $r"; rc=1; }
  done
done
cd /; git -C /repo worktree remove --force /tmp/ck
exit $rc
