#!/bin/sh
# usage: tools_refac_matrix_subset.sh "<check ids>" : like tools_refac_matrix.sh, but runs only the named checks on every refactor patch
# (used after a change to a few rules; the full matrix takes about an hour). C19 (cargo feature matrix) only when named.
cd /verif
# MX_REPO=<scratch worktree of /repo> runs the matrix there (VERIF_REPO) and leaves /repo alone
REPO=${MX_REPO:-/repo}
[ -n "$MX_REPO" ] && export VERIF_REPO=$MX_REPO
CHECKS=${1:-"C01 C02 C03 C04 C05 C06 C07 C08 C09 C10 C11 C12 C13 C14 C15 C16 C17 C18 C20"}
rc=0
for d in /verif/refactors/*/; do
  id=$(basename $d)
  git -C $REPO apply $d/patch.diff 2>/dev/null || { echo "$id PATCH-DOES-NOT-APPLY"; continue; }
  line="$id:"
  for c in $CHECKS; do
    out=$(./check $c 2>&1); r=$?
    v=$(echo "$out" | grep -c '^VIOLATION'); i=$(echo "$out" | grep -c '^ANALYSIS')
    [ $v -ne 0 ] && { line="$line $c:FALSE-ALARM($v)"; rc=1; }
    [ $v -eq 0 ] && [ $i -ne 0 ] && line="$line $c:incomplete($i)"
  done
  echo "$line"
  git -C $REPO checkout -- .
done
exit $rc
