#!/bin/sh
# usage: tools_try_refac.sh <id> [C19] : applies the behaviour-preserving refactor (/tmp/refac/<id>/OUT/patch.diff, else /verif/refactors/<id>/patch.diff) to /repo, runs the checks (C19 only when named), reverts.
# Any VIOLATION here is a false alarm of the machinery (the refactor keeps behaviour and passes the suite).
id=$1
p=/tmp/refac3/$id/OUT/patch.diff; [ -f $p ] || p=/tmp/refac/$id/OUT/patch.diff; [ -f $p ] || p=/verif/refactors/$id/patch.diff; git -C /repo apply $p || { echo "patch does not apply"; exit 3; }
cd /verif
for c in C01 C02 C03 C04 C05 C06 C07 C08 C09 C10 C11 C12 C13 C14 C15 C16 C17 C18 C20 $2; do
  out=$(./check $c 2>&1); rc=$?
  [ $rc -ne 0 ] && { echo "$c exit=$rc violations=$(echo "$out" | grep -c '^VIOLATION') incomplete=$(echo "$out" | grep -c '^ANALYSIS')"; echo "$out" | grep -v "^VIOLATION\|^KNOWN\|^note" | grep "\[C\|^ANALYSIS" | cut -c1-300 | head -8; }
done
echo "done $id"
git -C /repo checkout -- .; git -C /repo status --short | head -3
