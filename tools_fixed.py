#!/usr/bin/env python3
"""usage: tools_fixed.py <commit> <property> <what> <key-substring>...  — moves known findings whose key contains one of the substrings to `fixed`"""
import json, sys
commit, prop, what = sys.argv[1:4]
subs = sys.argv[4:]
kf = json.load(open('/verif/known_findings.json'))
keep, moved = [], []
for k in kf['known']:
    if any(s in k['key'] for s in subs):
        moved.append(k)
    else:
        keep.append(k)
kf['known'] = keep
props = sorted({m['property'] for m in moved}) or [prop]
for p in props:
    kf['fixed'].append("fixed: property=%s %s %s" % (p, commit, what))
kf.setdefault('fixed_detail', []).extend({"commit": commit, "property": m['property'], "key": m['key'], "what": m['what'], "demo": m['demo']} for m in moved)
json.dump(kf, open('/verif/known_findings.json', 'w'), indent=1)
print("moved", len(moved), "entries:", [m['key'][:70] for m in moved])
