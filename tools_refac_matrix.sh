#!/bin/sh
# usage: tools_refac_matrix.sh : applies each behaviour-preserving refactor under /verif/refactors/<id>/patch.diff to /repo, runs ALL checks, reverts.
# These patches keep behaviour and pass the crate's test suite, so any VIOLATION printed here is a false alarm of the machinery.
# ANALYSIS-INCOMPLETE (exit 2) is acceptable: the rule says it cannot decide the rewritten code and asks for review.
cd /verif
rc=0
for d in /verif/refactors/*/; do
  id=$(basename $d)
  git -C /repo apply $d/patch.diff 2>/dev/null || { echo "$id PATCH-DOES-NOT-APPLY"; continue; }
  line="$id:"
  for c in C01 C02 C03 C04 C05 C06 C07 C08 C09 C10 C11 C12 C13 C14 C15 C16 C17 C18 C19 C20; do
    out=$(./check $c 2>&1); r=$?
    v=$(echo "$out" | grep -c '^VIOLATION'); i=$(echo "$out" | grep -c '^ANALYSIS')
    [ $v -ne 0 ] && { line="$line $c:FALSE-ALARM($v)"; rc=1; }
    [ $v -eq 0 ] && [ $i -ne 0 ] && line="$line $c:incomplete($i)"
  done
  echo "$line"
  git -C /repo checkout -- .
done | tee /verif/refactors/MATRIX.txt
exit $rc
