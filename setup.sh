#!/bin/sh
# Builds the engines offline from the cargo cache and warms the fact cache for /repo's current tree.
set -e
cd "$(dirname "$0")"
export CARGO_NET_OFFLINE=true
(cd engine/srcfacts && cargo build --offline 2>&1 | tail -2)
if [ -d engine/mirfacts ]; then
  (cd engine/mirfacts && cargo +nightly build --offline 2>&1 | tail -2)
fi
mkdir -p .cache .work evidence
python3 -c "
import sys; sys.path.insert(0,'lib')
import vf
vf.Facts()
print('facts ready for tree', vf.tree_hash())
"
# warm the dependency build of the cfg matrix (target dir under .work, ignored by git)
./check C19 --tier quick > .work/setup_c19.log 2>&1 || true
echo "setup done"
