#!/usr/bin/env python3
"""Development tool: freezes the names of the functions and methods that exist in /repo today (spec/known_fns.json).
The interpretive rules leave calls to *these* opaque unless a rule scripts or inlines them explicitly; a function that is not in the
list (a helper extracted by a later refactoring) is resolved and interpreted, so that moving code into a helper does not hide it."""
import json, sys
sys.path[:0] = ['/verif/lib', '/verif/rules']
import vf
f = vf.Facts()
out = {}
for file in sorted(f.files):
    if not (file.startswith("src/") or file.startswith("cddl-derive/src/")):
        continue
    names = sorted({("%s::%s" % (fi.impl_self, fi.name)) if fi.impl_self else fi.name for fi in f.fns(file) if not fi.in_test})
    out[file] = names
json.dump({"_comment": "function / method names present when the rules were written (tools_gen_known_fns.py)", "files": out}, open('/verif/spec/known_fns.json', 'w'), indent=0)
print(sum(len(v) for v in out.values()), "names")
