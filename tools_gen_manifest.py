#!/usr/bin/env python3
"""Regenerates MANIFEST.json from the rule modules present (claimed) and NOT_APPLICABLE below."""
import importlib
import json
import os
import sys

HERE = os.path.dirname(os.path.abspath(__file__))
sys.path.insert(0, HERE)
sys.path.insert(0, os.path.join(HERE, "lib"))
sys.path.insert(0, os.path.join(HERE, "rules"))

NOT_BUILT = "check not built yet in this session (see DESIGN.md section 3 for the planned static clauses)"

props = [json.loads(l) for l in open(os.path.join(HERE, "properties.jsonl"))]
checks, na = [], []
for p in props:
    pid = p["id"]
    path = os.path.join(HERE, "rules", pid.lower() + ".py")
    if not os.path.exists(path):
        na.append({"property_id": pid, "reason": NOT_BUILT})
        continue
    mod = importlib.import_module("rules." + pid.lower())
    if getattr(mod, "NOT_APPLICABLE", None):
        na.append({"property_id": pid, "reason": mod.NOT_APPLICABLE})
        continue
    m = mod.META
    checks.append({
        "property_id": pid,
        "quick_cmd": "./check %s --tier quick" % pid,
        "thorough_cmd": "./check %s --tier thorough" % pid,
        "evidence_file": "/verif/evidence/%s.json" % pid,
        "replay_cmd_template": "./check %s --replay {path}" % pid,
        "engine": m.get("engine", "srcfacts+rules"),
        "level_claimed": {
            "category": m["level"],
            "text": m.get("level_text", "static rule set: structural necessary conditions of the property decided for all "
                                        "inputs from the source of /repo's working tree; the behavioural remainder is not decided"),
            "design_ref": "DESIGN.md section 3 / %s" % pid,
        },
        "level_note": m.get("level_note", "; ".join(m.get("assumptions", [])) or "trusted: syn/pest_meta parsers, rule layer"),
        "technique": m.get("technique", "static analysis: custom syntax-tree/grammar rules with table extraction and sibling cross-checks"),
    })
man = {
    "version": 1,
    "setup_cmd": "./setup.sh",
    "hooks": {
        "guard": "anweiss_cddl_verif",
        "enable": "none needed: static analysis compiles no instrumentation into the repository (cfg name reserved, no source commits)",
        "baseline_off_cmd": "cd /repo && cargo nextest run --workspace --no-fail-fast --tool-config-file pb:/w/lib/nextest.toml --profile pb --test-threads 8 --offline",
        "source_commits": [],
        "add_only": True,
    },
    "engines": [
        {"name": "srcfacts", "path": "engine/srcfacts", "serves_properties": [c["property_id"] for c in checks],
         "kind_free_text": "syn 2 + pest_meta dumper: all-cfg syntax trees of every .rs file and the pest grammar AST as JSON"},
        {"name": "rules", "path": "rules/ lib/ check", "serves_properties": [c["property_id"] for c in checks],
         "kind_free_text": "python rule layer: table extraction, order-type evaluation, path/census rules, known-finding subtraction, evidence"},
    ],
    "checks": checks,
    "not_applicable": na,
    "notes": "Family: static analysis. Every check inspects /repo's current working tree (facts cached by content hash). "
             "Known genuine defects are listed in known_findings.json by exact site key and printed as KNOWN-FINDING.",
}
extra = os.path.join(HERE, "manifest_extra.json")
if os.path.exists(extra):
    ex = json.load(open(extra))
    man["engines"].extend(ex.get("engines", []))
json.dump(man, open(os.path.join(HERE, "MANIFEST.json"), "w"), indent=1)
print("claimed:", [c["property_id"] for c in checks])
print("not_applicable:", [n["property_id"] for n in na])
