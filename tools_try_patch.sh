#!/bin/sh
# usage: tools_try_patch.sh <patch.diff> [ids...]  — applies to /repo, runs checks, reverts
P=$1; shift
cd /repo && git apply "$P" || { echo "patch does not apply"; exit 3; }
cd /verif
IDS="$@"
[ -z "$IDS" ] && IDS=$(python3 -c "import json;print(' '.join(c['property_id'] for c in json.load(open('MANIFEST.json'))['checks']))")
for id in $IDS; do
  ./check $id > /tmp/try_$id.log 2>&1; rc=$?
  echo "$id rc=$rc $(grep -c '^VIOLATION' /tmp/try_$id.log) violation(s) $(grep -c 'ANALYSIS-INCOMPLETE' /tmp/try_$id.log) incomplete"
  grep -B1 '^VIOLATION' /tmp/try_$id.log | grep -v '^VIOLATION' | grep -v '^--' | cut -c1-300 | head -8
  grep 'ANALYSIS-INCOMPLETE' /tmp/try_$id.log | cut -c1-300 | head -4
done
cd /repo && git checkout -- . && git status --short | head -3
