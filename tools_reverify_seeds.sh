#!/bin/sh
# usage: tools_reverify_seeds.sh [ids...] — re-confirms every seeded change against /repo's current HEAD in ONE scratch worktree
# (/tmp/seedv, removed at the end): patch applies, pinned suite passes with it, demo fails with it, demo passes without it.
export CARGO_NET_OFFLINE=true
W=/tmp/seedv
git -C /repo worktree remove --force $W 2>/dev/null; rm -rf $W
git -C /repo worktree add -q --detach $W HEAD || exit 9
cd $W
ids="$@"; [ -z "$ids" ] && ids=$(ls /verif/seeded)
for id in $ids; do
  S=/verif/seeded/$id
  git checkout -q -- . ; git clean -fdq -e target
  rm -rf OUT; mkdir OUT; cp $S/* OUT/
  if ! git apply OUT/patch.diff; then echo "RESULT $id patch-does-not-apply"; continue; fi
  demo=""; pkgflag=""
  if [ -f OUT/seed_demo.rs ]; then
    demo=tests/seed_demo.rs
    grep -q 'path = "../src/codegen.rs"' OUT/seed_demo.rs && { demo=cddl-derive/tests/seed_demo.rs; pkgflag="-p cddl-derive"; }
    mkdir -p $(dirname $demo); cp OUT/seed_demo.rs $demo
  fi
  filt="all()"; [ -n "$demo" ] && filt="not binary(seed_demo)"
  cargo nextest run --workspace --no-fail-fast --offline --test-threads 12 -E "$filt" > /tmp/seedv.$id.suite.log 2>&1
  suite=$(grep -E "Summary" /tmp/seedv.$id.suite.log | head -1)
  [ -z "$suite" ] && suite="NO-SUMMARY: $(grep -E "^error" /tmp/seedv.$id.suite.log | head -3 | tr '\n' ' ')"
  grep -E "^\s+FAIL" /tmp/seedv.$id.suite.log | sort -u | head -5
  if [ -f OUT/demo.sh ]; then
    sh OUT/demo.sh >/dev/null 2>&1; with=$?
    git apply -R OUT/patch.diff
    sh OUT/demo.sh >/dev/null 2>&1; without=$?
  else
    cargo test --offline $pkgflag --test seed_demo >/dev/null 2>&1; with=$?
    git apply -R OUT/patch.diff
    cargo test --offline $pkgflag --test seed_demo >/dev/null 2>&1; without=$?
  fi
  echo "RESULT $id suite=[$suite] demo_with_change_exit=$with demo_without_change_exit=$without"
done
cd /; git -C /repo worktree remove --force $W; rm -rf $W
echo ALL-DONE
