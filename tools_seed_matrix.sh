#!/bin/sh
# usage: tools_seed_matrix.sh — applies each seeded change to /repo in turn, runs its property's check, reverts; prints which rules fire
cd /verif
DIR=${1:-seeded}
# MX_REPO=<scratch worktree of /repo> runs the matrix there (VERIF_REPO) and leaves /repo alone
REPO=${MX_REPO:-/repo}
[ -n "$MX_REPO" ] && export VERIF_REPO=$MX_REPO
for id in $(ls $DIR | grep "^C[0-9][0-9]$"); do
  if ! git -C $REPO apply --check /verif/$DIR/$id/patch.diff 2>/dev/null; then echo "$id PATCH-DOES-NOT-APPLY"; continue; fi
  git -C $REPO apply /verif/$DIR/$id/patch.diff
  out=$(./check $id 2>&1); rc=$?
  git -C $REPO checkout -- .
  rules=$(echo "$out" | grep -v "^VIOLATION\|^KNOWN\|^note\|^ANALYSIS" | grep -o "\[C[0-9a-z]*\.[a-z0-9-]*" | sort | uniq -c | tr '\n' ' ')
  echo "$id exit=$rc violations=$(echo "$out" | grep -c '^VIOLATION') incomplete=$(echo "$out" | grep -c '^ANALYSIS') rules: $rules"
done
git -C $REPO status --short
