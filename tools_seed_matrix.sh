#!/bin/sh
# usage: tools_seed_matrix.sh — applies each seeded change to /repo in turn, runs its property's check, reverts; prints which rules fire
cd /verif
DIR=${1:-seeded}
for id in $(ls $DIR | grep "^C[0-9][0-9]$"); do
  if ! git -C /repo apply --check /verif/$DIR/$id/patch.diff 2>/dev/null; then echo "$id PATCH-DOES-NOT-APPLY"; continue; fi
  git -C /repo apply /verif/$DIR/$id/patch.diff
  out=$(./check $id 2>&1); rc=$?
  git -C /repo checkout -- .
  rules=$(echo "$out" | grep -v "^VIOLATION\|^KNOWN\|^note\|^ANALYSIS" | grep -o "\[C[0-9a-z]*\.[a-z0-9-]*" | sort | uniq -c | tr '\n' ' ')
  echo "$id exit=$rc violations=$(echo "$out" | grep -c '^VIOLATION') incomplete=$(echo "$out" | grep -c '^ANALYSIS') rules: $rules"
done
git -C /repo status --short
