#!/bin/sh
# usage: tools_try_seed4.sh <id> [check ids...] : applies /tmp/seed4/<id>/OUT/patch.diff to /repo, runs checks, reverts
id=$1; shift; ids="$@"; [ -z "$ids" ] && ids=$id
p=/verif/seeded4/$id/patch.diff; [ -f $p ] || p=/tmp/seed4/$id/OUT/patch.diff; git -C /repo apply $p || { echo "patch does not apply"; exit 3; }
cd /verif
for c in $ids; do
  out=$(./check $c 2>&1); rc=$?
  echo "$c exit=$rc violations=$(echo "$out" | grep -c '^VIOLATION') incomplete=$(echo "$out" | grep -c '^ANALYSIS')"
  echo "$out" | grep -v "^VIOLATION\|^KNOWN\|^note" | grep "\[C" | cut -c1-260 | head -6
  echo "$out" | grep "^ANALYSIS" | cut -c1-200 | head -3
done
git -C /repo checkout -- .; git -C /repo status --short | head -3
