#!/bin/sh
# usage: tools_verify_seed6.sh <id> : confirms in the scratch worktree /tmp/seed/<id> that OUT/patch.diff (a) is exactly the
# source change, (b) compiles and passes the pinned suite, (c) makes the demo fail, (d) the demo passes without it.
id=$1; W=/tmp/seed6/$id; cd $W || exit 9
export CARGO_NET_OFFLINE=true
demo=tests/seed_demo.rs; pkgflag=""
[ -f cddl-derive/tests/seed_demo.rs ] && { demo=cddl-derive/tests/seed_demo.rs; pkgflag="-p cddl-derive"; }
# reset to pristine + patch
git checkout -q -- . ; git apply OUT/patch.diff || { echo "VERIFY $id: patch does not apply"; exit 1; }
mkdir -p $(dirname $demo); cp OUT/seed_demo.rs $demo
echo "== changed files:"; git diff --stat | tail -3
echo "== suite with change"; cargo nextest run --workspace --no-fail-fast --offline -E 'not binary(seed_demo)' 2>&1 | grep -E "Summary|FAIL|error(\[|:)" | head -8
echo "== demo with change (expect failure)"; cargo test --offline $pkgflag --test seed_demo 2>&1 | grep -E "^test result|error(\[|:)|panicked" | head -5
git apply -R OUT/patch.diff
echo "== demo without change (expect ok)"; cargo test --offline $pkgflag --test seed_demo 2>&1 | grep -E "^test result|error(\[|:)" | head -5
git apply OUT/patch.diff
echo "VERIFY $id done"
