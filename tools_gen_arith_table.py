#!/usr/bin/env python3
"""Development tool (never run by a check): proposes spec/c05_arith_reviewed.json entries for arithmetic sites of the current tree.
Existing reviewed entries are kept; sites the classifier below does not recognise are printed and must be classified by hand."""
import json, re, sys
sys.path[:0] = ['/verif/lib', '/verif/rules']
import vf, c05

P = '/verif/spec/c05_arith_reviewed.json'


def cls(key):
    file, fn, expr = key.split("|", 2)
    e = expr.replace(" ", "")
    if fn == "integer_sum":
        return None
    if "1000f64" in expr or "1e9" in expr or ("f64" in expr and "isize" not in expr and fn == "plus_operation"):
        return ("float", "f64 arithmetic cannot panic; a following `as` cast saturates")
    if fn == "plus_operation" and e == "value+controller":
        return ("float", "after the integer cases were moved to integer_sum the only remaining `value + controller` adds two f64")
    if fn == "try_unescape_text":
        return ("bounded", "code_point is range-checked to D800..=DBFF and low_surrogate to DC00..=DFFF before the arithmetic")
    if "-1i128" in expr:
        return ("bounded", "i128 arithmetic on a value widened from u64: cannot overflow")
    if "1u128<<total_bits" in e:
        return ("bounded", "guarded by total_bits > 0 && total_bits < 128 (the >= 128 case takes u128::MAX)")
    if fn == "read_exact_bounded":
        return ("bounded", "take = remaining.min(MAX_PREALLOC) <= remaining; start = buf.len()")
    if fn == "apply_width_flags":
        return ("bounded", "inside the match arm `Some(w) if w > raw.len()`, so w - raw.len() >= 1 and w - 1 >= 0")
    if fn in ("validate_cddl", "push_error_with_offset"):
        return ("structural", "line / byte offsets of rule blocks of the input text (start_line >= 1)")
    if fn == "entry_counts_from_group":
        return ("structural", "counts group entries of the schema (u64), bounded by the schema size")
    if re.search(r"\.len\(\)|\.count\(\)|errors\.len|error_count", expr):
        return ("structural", "length / count of data already in memory")
    if re.fullmatch(r"(c\.line|i|idx|pos|start|c|l|line|column|col|depth|count|cursor|match_count|ai|lo|byte_pos|arg_idx|found_pos)(\+=|-=|\+|-)1", e):
        return ("structural", "loop counter / position bounded by the length of the text or list being scanned")
    return None


f = vf.Facts()
sites, where = c05.arith_sites(f)
old = json.load(open(P))["sites"] if len(sys.argv) < 2 else {}
tab = {}
for k, n in sorted(sites.items()):
    if k in old:
        tab[k] = dict(old[k], count=n)
        continue
    c = cls(k)
    if c is None:
        print("UNCLASSIFIED", k, where[k])
        continue
    tab[k] = {"class": c[0], "why": c[1], "count": n}
json.dump({"_comment": "C05.arith: every arithmetic expression of the cddl crate (non-test), read and classified 2026-09-22. Keys are file|function|expression text.",
           "sites": tab}, open(P, 'w'), indent=1)
print(len(tab), "entries")
