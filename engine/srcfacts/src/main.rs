//! E1 `srcfacts`: all-cfg syntax facts.
//!
//! Dumps every `.rs` file given on the command line (no cfg stripping, no macro
//! expansion beyond parsing the arguments of function-like macros as
//! expressions) as a generic JSON tree, and a pest grammar as pest_meta's
//! optimiser-free AST. The rule layer (python) pattern-matches on these trees.
//!
//! usage: srcfacts <out.json> --root <dir> [--pest <file>]... <file.rs>...
use proc_macro2::Span;
use quote::ToTokens;
use serde_json::{json, Map, Value as J};
use syn::parse::{Parse, ParseStream, Parser};
use syn::punctuated::Punctuated;
use syn::spanned::Spanned;
use syn::*;

fn line(sp: Span) -> usize {
    sp.start().line
}
fn endline(sp: Span) -> usize {
    sp.end().line
}

fn toks<T: ToTokens>(t: &T) -> String {
    norm(&t.to_token_stream().to_string())
}

/// normalise a token string: drop spaces around punctuation so that keys are
/// stable under rustfmt differences
fn norm(s: &str) -> String {
    let mut out = String::with_capacity(s.len());
    let cs: Vec<char> = s.chars().collect();
    let mut i = 0;
    let mut in_str = false;
    while i < cs.len() {
        let c = cs[i];
        if in_str {
            out.push(c);
            if c == '\\' && i + 1 < cs.len() {
                out.push(cs[i + 1]);
                i += 2;
                continue;
            }
            if c == '"' {
                in_str = false;
            }
            i += 1;
            continue;
        }
        if c == '"' {
            in_str = true;
            out.push(c);
            i += 1;
            continue;
        }
        if c == ' ' {
            let prev = out.chars().last().unwrap_or(' ');
            let next = if i + 1 < cs.len() { cs[i + 1] } else { ' ' };
            let wordy = |x: char| x.is_alphanumeric() || x == '_' || x == '"' || x == '\'';
            if wordy(prev) && wordy(next) {
                out.push(' ');
            }
            i += 1;
            continue;
        }
        out.push(c);
        i += 1;
    }
    out
}

fn attrs_cfg(attrs: &[Attribute]) -> Vec<String> {
    let mut v = vec![];
    for a in attrs {
        if a.path().is_ident("cfg") {
            if let Meta::List(l) = &a.meta {
                v.push(norm(&l.tokens.to_string()));
            }
        }
    }
    v
}
fn attrs_other(attrs: &[Attribute]) -> Vec<String> {
    let mut v = vec![];
    for a in attrs {
        if a.path().is_ident("cfg") || a.path().is_ident("doc") {
            continue;
        }
        v.push(toks(&a.meta));
    }
    v
}
fn derives(attrs: &[Attribute]) -> Vec<String> {
    let mut v = vec![];
    for a in attrs {
        if a.path().is_ident("derive") {
            if let Meta::List(l) = &a.meta {
                for t in l.tokens.to_string().split(',') {
                    let t = t.trim();
                    if !t.is_empty() {
                        v.push(norm(t));
                    }
                }
            }
        }
        // cfg_attr(feature="x", derive(..)) is kept in attrs_other
    }
    v
}

fn node(k: &str, sp: Span) -> Map<String, J> {
    let mut m = Map::new();
    m.insert("k".into(), J::String(k.into()));
    m.insert("l".into(), json!(line(sp)));
    m
}
fn put(m: &mut Map<String, J>, k: &str, v: J) {
    m.insert(k.into(), v);
}
fn put_attrs(m: &mut Map<String, J>, attrs: &[Attribute]) {
    let c = attrs_cfg(attrs);
    if !c.is_empty() {
        put(m, "cfg", json!(c));
    }
    let o = attrs_other(attrs);
    if !o.is_empty() {
        put(m, "attrs", json!(o));
    }
}

fn path_str(p: &Path) -> String {
    // path without generic arguments
    let mut s = String::new();
    if p.leading_colon.is_some() {
        s.push_str("::");
    }
    for (i, seg) in p.segments.iter().enumerate() {
        if i > 0 {
            s.push_str("::");
        }
        s.push_str(&seg.ident.to_string());
    }
    s
}
fn path_generics(p: &Path) -> Option<String> {
    let mut any = false;
    for seg in p.segments.iter() {
        if !matches!(seg.arguments, PathArguments::None) {
            any = true;
        }
    }
    if any {
        Some(toks(p))
    } else {
        None
    }
}

struct MatchesArgs {
    e: Expr,
    pat: Pat,
    guard: Option<Expr>,
}
impl Parse for MatchesArgs {
    fn parse(input: ParseStream) -> Result<Self> {
        let e: Expr = input.parse()?;
        input.parse::<Token![,]>()?;
        let pat = Pat::parse_multi_with_leading_vert(input)?;
        let guard = if input.peek(Token![if]) {
            input.parse::<Token![if]>()?;
            Some(input.parse::<Expr>()?)
        } else {
            None
        };
        let _ = input.parse::<Option<Token![,]>>();
        Ok(MatchesArgs { e, pat, guard })
    }
}

fn mac(m: &Macro, sp: Span) -> J {
    let mut n = node("macro", sp);
    let name = path_str(&m.path);
    put(&mut n, "name", json!(name));
    let last = name.rsplit("::").next().unwrap_or("").to_string();
    if last == "matches" {
        if let Ok(a) = syn::parse2::<MatchesArgs>(m.tokens.clone()) {
            put(&mut n, "e", expr(&a.e));
            put(&mut n, "pat", pat(&a.pat));
            if let Some(g) = &a.guard {
                put(&mut n, "guard", expr(g));
            }
            return J::Object(n);
        }
    }
    let parser = Punctuated::<Expr, Token![,]>::parse_terminated;
    match parser.parse2(m.tokens.clone()) {
        Ok(p) => {
            put(&mut n, "args", J::Array(p.iter().map(expr).collect()));
        }
        Err(_) => {
            // vec![x; n]
            let parser2 = |input: ParseStream| -> Result<(Expr, Expr)> {
                let a: Expr = input.parse()?;
                input.parse::<Token![;]>()?;
                let b: Expr = input.parse()?;
                Ok((a, b))
            };
            if let Ok((a, b)) = parser2.parse2(m.tokens.clone()) {
                put(&mut n, "repeat", json!([expr(&a), expr(&b)]));
            } else if let Ok(b) = syn::parse2::<BlockBody>(m.tokens.clone()) {
                put(&mut n, "stmts", J::Array(b.0.iter().map(stmt).collect()));
            }
        }
    }
    let t = m.tokens.to_string();
    if t.len() < 4000 {
        put(&mut n, "toks", json!(norm(&t)));
    }
    J::Object(n)
}
struct BlockBody(Vec<Stmt>);
impl Parse for BlockBody {
    fn parse(input: ParseStream) -> Result<Self> {
        Ok(BlockBody(Block::parse_within(input)?))
    }
}

fn block(b: &Block) -> J {
    let mut n = node("block", b.span());
    put(&mut n, "le", json!(endline(b.span())));
    put(&mut n, "stmts", J::Array(b.stmts.iter().map(stmt).collect()));
    J::Object(n)
}

fn stmt(s: &Stmt) -> J {
    match s {
        Stmt::Local(l) => {
            let mut n = node("local", l.span());
            put_attrs(&mut n, &l.attrs);
            put(&mut n, "pat", pat(&l.pat));
            if let Some(init) = &l.init {
                put(&mut n, "init", expr(&init.expr));
                if let Some((_, d)) = &init.diverge {
                    put(&mut n, "els", expr(d));
                }
            }
            J::Object(n)
        }
        Stmt::Item(i) => {
            let mut n = node("sitem", i.span());
            put(&mut n, "item", item(i));
            J::Object(n)
        }
        Stmt::Expr(e, semi) => {
            let mut n = node("sexpr", e.span());
            put(&mut n, "e", expr(e));
            put(&mut n, "semi", json!(semi.is_some()));
            J::Object(n)
        }
        Stmt::Macro(m) => {
            let mut n = node("sexpr", m.span());
            let mut mm = mac(&m.mac, m.span());
            if let J::Object(o) = &mut mm {
                put_attrs(o, &m.attrs);
            }
            put(&mut n, "e", mm);
            put(&mut n, "semi", json!(m.semi_token.is_some()));
            J::Object(n)
        }
    }
}

fn expr_attrs(e: &Expr) -> &[Attribute] {
    match e {
        Expr::Array(x) => &x.attrs,
        Expr::Assign(x) => &x.attrs,
        Expr::Async(x) => &x.attrs,
        Expr::Await(x) => &x.attrs,
        Expr::Binary(x) => &x.attrs,
        Expr::Block(x) => &x.attrs,
        Expr::Break(x) => &x.attrs,
        Expr::Call(x) => &x.attrs,
        Expr::Cast(x) => &x.attrs,
        Expr::Closure(x) => &x.attrs,
        Expr::Continue(x) => &x.attrs,
        Expr::Field(x) => &x.attrs,
        Expr::ForLoop(x) => &x.attrs,
        Expr::If(x) => &x.attrs,
        Expr::Index(x) => &x.attrs,
        Expr::Let(x) => &x.attrs,
        Expr::Lit(x) => &x.attrs,
        Expr::Loop(x) => &x.attrs,
        Expr::Macro(x) => &x.attrs,
        Expr::Match(x) => &x.attrs,
        Expr::MethodCall(x) => &x.attrs,
        Expr::Paren(x) => &x.attrs,
        Expr::Path(x) => &x.attrs,
        Expr::Range(x) => &x.attrs,
        Expr::Reference(x) => &x.attrs,
        Expr::Repeat(x) => &x.attrs,
        Expr::Return(x) => &x.attrs,
        Expr::Struct(x) => &x.attrs,
        Expr::Try(x) => &x.attrs,
        Expr::Tuple(x) => &x.attrs,
        Expr::Unary(x) => &x.attrs,
        Expr::Unsafe(x) => &x.attrs,
        Expr::While(x) => &x.attrs,
        _ => &[],
    }
}

fn opt_expr(e: &Option<Box<Expr>>) -> J {
    match e {
        Some(e) => expr(e),
        None => J::Null,
    }
}

fn expr(e: &Expr) -> J {
    let sp = e.span();
    let mut n;
    match e {
        Expr::Paren(p) => return expr(&p.expr),
        Expr::Group(p) => return expr(&p.expr),
        Expr::Lit(l) => {
            n = node("lit", sp);
            match &l.lit {
                Lit::Str(s) => {
                    put(&mut n, "t", json!("str"));
                    put(&mut n, "v", json!(s.value()));
                }
                Lit::ByteStr(s) => {
                    put(&mut n, "t", json!("bytestr"));
                    put(&mut n, "v", json!(String::from_utf8_lossy(&s.value()).to_string()));
                }
                Lit::Byte(b) => {
                    put(&mut n, "t", json!("byte"));
                    put(&mut n, "v", json!(b.value()));
                }
                Lit::Char(c) => {
                    put(&mut n, "t", json!("char"));
                    put(&mut n, "v", json!(c.value().to_string()));
                }
                Lit::Int(i) => {
                    put(&mut n, "t", json!("int"));
                    put(&mut n, "v", json!(i.base10_digits()));
                    put(&mut n, "suffix", json!(i.suffix()));
                }
                Lit::Float(f) => {
                    put(&mut n, "t", json!("float"));
                    put(&mut n, "v", json!(f.base10_digits()));
                    put(&mut n, "suffix", json!(f.suffix()));
                }
                Lit::Bool(b) => {
                    put(&mut n, "t", json!("bool"));
                    put(&mut n, "v", json!(b.value));
                }
                other => {
                    put(&mut n, "t", json!("other"));
                    put(&mut n, "v", json!(toks(other)));
                }
            }
        }
        Expr::Path(p) => {
            n = node("path", sp);
            put(&mut n, "p", json!(path_str(&p.path)));
            if let Some(g) = path_generics(&p.path) {
                put(&mut n, "g", json!(g));
            }
            if let Some(q) = &p.qself {
                put(&mut n, "qself", json!(toks(&q.ty)));
            }
        }
        Expr::Call(c) => {
            n = node("call", sp);
            put(&mut n, "f", expr(&c.func));
            put(&mut n, "a", J::Array(c.args.iter().map(expr).collect()));
        }
        Expr::MethodCall(c) => {
            n = node("mcall", sp);
            put(&mut n, "r", expr(&c.receiver));
            put(&mut n, "m", json!(c.method.to_string()));
            put(&mut n, "ml", json!(line(c.method.span())));
            if let Some(t) = &c.turbofish {
                put(&mut n, "tf", json!(toks(t)));
            }
            put(&mut n, "a", J::Array(c.args.iter().map(expr).collect()));
        }
        Expr::Macro(m) => {
            let mut mm = mac(&m.mac, sp);
            if let J::Object(o) = &mut mm {
                put_attrs(o, &m.attrs);
                short_src(o, e);
            }
            return mm;
        }
        Expr::Match(m) => {
            n = node("match", sp);
            put(&mut n, "le", json!(endline(sp)));
            put(&mut n, "e", expr(&m.expr));
            let arms: Vec<J> = m
                .arms
                .iter()
                .map(|a| {
                    let mut an = node("arm", a.span());
                    put_attrs(&mut an, &a.attrs);
                    put(&mut an, "le", json!(endline(a.span())));
                    put(&mut an, "pat", pat(&a.pat));
                    if let Some((_, g)) = &a.guard {
                        put(&mut an, "guard", expr(g));
                    }
                    put(&mut an, "body", expr(&a.body));
                    J::Object(an)
                })
                .collect();
            put(&mut n, "arms", J::Array(arms));
        }
        Expr::If(i) => {
            n = node("if", sp);
            put(&mut n, "le", json!(endline(sp)));
            put(&mut n, "c", expr(&i.cond));
            put(&mut n, "t", block(&i.then_branch));
            if let Some((_, e)) = &i.else_branch {
                put(&mut n, "e", expr(e));
            }
        }
        Expr::Let(l) => {
            n = node("let", sp);
            put(&mut n, "pat", pat(&l.pat));
            put(&mut n, "e", expr(&l.expr));
        }
        Expr::Block(b) => {
            n = node("eblock", sp);
            if let Some(l) = &b.label {
                put(&mut n, "label", json!(l.name.ident.to_string()));
            }
            put(&mut n, "b", block(&b.block));
        }
        Expr::Unsafe(b) => {
            n = node("unsafe", sp);
            put(&mut n, "b", block(&b.block));
        }
        Expr::Binary(b) => {
            n = node("bin", sp);
            put(&mut n, "op", json!(toks(&b.op)));
            put(&mut n, "a", expr(&b.left));
            put(&mut n, "b", expr(&b.right));
        }
        Expr::Unary(u) => {
            n = node("un", sp);
            put(&mut n, "op", json!(toks(&u.op)));
            put(&mut n, "e", expr(&u.expr));
        }
        Expr::Field(f) => {
            n = node("field", sp);
            put(&mut n, "e", expr(&f.base));
            put(
                &mut n,
                "f",
                json!(match &f.member {
                    Member::Named(i) => i.to_string(),
                    Member::Unnamed(i) => i.index.to_string(),
                }),
            );
        }
        Expr::Index(i) => {
            n = node("index", sp);
            put(&mut n, "e", expr(&i.expr));
            put(&mut n, "i", expr(&i.index));
        }
        Expr::Reference(r) => {
            n = node("ref", sp);
            put(&mut n, "mut", json!(r.mutability.is_some()));
            put(&mut n, "e", expr(&r.expr));
        }
        Expr::Return(r) => {
            n = node("ret", sp);
            put(&mut n, "e", opt_expr(&r.expr));
        }
        Expr::Break(b) => {
            n = node("break", sp);
            if let Some(l) = &b.label {
                put(&mut n, "label", json!(l.ident.to_string()));
            }
            put(&mut n, "e", opt_expr(&b.expr));
        }
        Expr::Continue(c) => {
            n = node("continue", sp);
            if let Some(l) = &c.label {
                put(&mut n, "label", json!(l.ident.to_string()));
            }
        }
        Expr::Try(t) => {
            n = node("try", sp);
            put(&mut n, "e", expr(&t.expr));
        }
        Expr::Closure(c) => {
            n = node("closure", sp);
            put(&mut n, "params", J::Array(c.inputs.iter().map(pat).collect()));
            put(&mut n, "mv", json!(c.capture.is_some()));
            put(&mut n, "body", expr(&c.body));
        }
        Expr::Struct(s) => {
            n = node("struct", sp);
            put(&mut n, "p", json!(path_str(&s.path)));
            let fields: Vec<J> = s
                .fields
                .iter()
                .map(|f| {
                    let mut fnode = node("fieldval", f.span());
                    put_attrs(&mut fnode, &f.attrs);
                    put(
                        &mut fnode,
                        "n",
                        json!(match &f.member {
                            Member::Named(i) => i.to_string(),
                            Member::Unnamed(i) => i.index.to_string(),
                        }),
                    );
                    put(&mut fnode, "e", expr(&f.expr));
                    put(&mut fnode, "shorthand", json!(f.colon_token.is_none()));
                    J::Object(fnode)
                })
                .collect();
            put(&mut n, "fields", J::Array(fields));
            put(&mut n, "rest", opt_expr(&s.rest));
        }
        Expr::Tuple(t) => {
            n = node("tuple", sp);
            put(&mut n, "e", J::Array(t.elems.iter().map(expr).collect()));
        }
        Expr::Array(t) => {
            n = node("array", sp);
            put(&mut n, "e", J::Array(t.elems.iter().map(expr).collect()));
        }
        Expr::Repeat(r) => {
            n = node("repeat", sp);
            put(&mut n, "e", expr(&r.expr));
            put(&mut n, "n", expr(&r.len));
        }
        Expr::Cast(c) => {
            n = node("cast", sp);
            put(&mut n, "e", expr(&c.expr));
            put(&mut n, "ty", json!(toks(&c.ty)));
        }
        Expr::Range(r) => {
            n = node("range", sp);
            put(&mut n, "a", opt_expr(&r.start));
            put(&mut n, "b", opt_expr(&r.end));
            put(&mut n, "incl", json!(matches!(r.limits, RangeLimits::Closed(_))));
        }
        Expr::Loop(l) => {
            n = node("loop", sp);
            if let Some(lb) = &l.label {
                put(&mut n, "label", json!(lb.name.ident.to_string()));
            }
            put(&mut n, "b", block(&l.body));
        }
        Expr::While(w) => {
            n = node("while", sp);
            if let Some(lb) = &w.label {
                put(&mut n, "label", json!(lb.name.ident.to_string()));
            }
            put(&mut n, "c", expr(&w.cond));
            put(&mut n, "b", block(&w.body));
        }
        Expr::ForLoop(f) => {
            n = node("for", sp);
            if let Some(lb) = &f.label {
                put(&mut n, "label", json!(lb.name.ident.to_string()));
            }
            put(&mut n, "pat", pat(&f.pat));
            put(&mut n, "e", expr(&f.expr));
            put(&mut n, "b", block(&f.body));
        }
        Expr::Assign(a) => {
            n = node("assign", sp);
            put(&mut n, "a", expr(&a.left));
            put(&mut n, "b", expr(&a.right));
        }
        Expr::Await(a) => {
            n = node("await", sp);
            put(&mut n, "e", expr(&a.base));
        }
        Expr::Async(a) => {
            n = node("async", sp);
            put(&mut n, "b", block(&a.block));
        }
        other => {
            n = node("other_expr", sp);
            put(&mut n, "toks", json!(toks(other)));
        }
    }
    put_attrs(&mut n, expr_attrs(e));
    short_src(&mut n, e);
    J::Object(n)
}

fn short_src(n: &mut Map<String, J>, e: &Expr) {
    let sp = e.span();
    if endline(sp) - line(sp) <= 3 {
        let s = toks(e);
        if s.len() <= 240 {
            put(n, "s", json!(s));
        }
    }
}

fn pat(p: &Pat) -> J {
    let sp = p.span();
    let mut n;
    match p {
        Pat::Paren(p) => return pat(&p.pat),
        Pat::Ident(i) => {
            n = node("pid", sp);
            put(&mut n, "n", json!(i.ident.to_string()));
            put(&mut n, "by_ref", json!(i.by_ref.is_some()));
            put(&mut n, "mut", json!(i.mutability.is_some()));
            if let Some((_, s)) = &i.subpat {
                put(&mut n, "sub", pat(s));
            }
        }
        Pat::Path(pp) => {
            n = node("ppath", sp);
            put(&mut n, "p", json!(path_str(&pp.path)));
        }
        Pat::TupleStruct(t) => {
            n = node("pts", sp);
            put(&mut n, "p", json!(path_str(&t.path)));
            put(&mut n, "e", J::Array(t.elems.iter().map(pat).collect()));
        }
        Pat::Struct(s) => {
            n = node("pstruct", sp);
            put(&mut n, "p", json!(path_str(&s.path)));
            let f: Vec<J> = s
                .fields
                .iter()
                .map(|f| {
                    let mut fnode = Map::new();
                    put_attrs(&mut fnode, &f.attrs);
                    put(
                        &mut fnode,
                        "n",
                        json!(match &f.member {
                            Member::Named(i) => i.to_string(),
                            Member::Unnamed(i) => i.index.to_string(),
                        }),
                    );
                    put(&mut fnode, "pat", pat(&f.pat));
                    J::Object(fnode)
                })
                .collect();
            put(&mut n, "f", J::Array(f));
            put(&mut n, "rest", json!(s.rest.is_some()));
        }
        Pat::Tuple(t) => {
            n = node("ptuple", sp);
            put(&mut n, "e", J::Array(t.elems.iter().map(pat).collect()));
        }
        Pat::Or(o) => {
            n = node("por", sp);
            put(&mut n, "c", J::Array(o.cases.iter().map(pat).collect()));
        }
        Pat::Wild(_) => {
            n = node("pwild", sp);
        }
        Pat::Lit(l) => {
            n = node("plit", sp);
            put(&mut n, "e", expr(&Expr::Lit(l.clone())));
        }
        Pat::Reference(r) => {
            n = node("pref", sp);
            put(&mut n, "pat", pat(&r.pat));
        }
        Pat::Range(r) => {
            n = node("prange", sp);
            put(&mut n, "toks", json!(toks(r)));
        }
        Pat::Slice(s) => {
            n = node("pslice", sp);
            put(&mut n, "e", J::Array(s.elems.iter().map(pat).collect()));
        }
        Pat::Rest(_) => {
            n = node("prest", sp);
        }
        Pat::Type(t) => {
            n = node("ptype", sp);
            put(&mut n, "pat", pat(&t.pat));
            put(&mut n, "ty", json!(toks(&t.ty)));
        }
        other => {
            n = node("other_pat", sp);
            put(&mut n, "toks", json!(toks(other)));
        }
    }
    let s = toks(p);
    if s.len() <= 200 {
        put(&mut n, "s", json!(s));
    }
    J::Object(n)
}

fn fields(f: &Fields) -> J {
    let v: Vec<J> = f
        .iter()
        .enumerate()
        .map(|(i, f)| {
            let mut n = node("fielddef", f.span());
            put_attrs(&mut n, &f.attrs);
            put(
                &mut n,
                "n",
                json!(f.ident.as_ref().map(|i| i.to_string()).unwrap_or(i.to_string())),
            );
            put(&mut n, "ty", json!(toks(&f.ty)));
            put(&mut n, "vis", json!(toks(&f.vis)));
            J::Object(n)
        })
        .collect();
    J::Array(v)
}

fn sig(s: &Signature) -> J {
    let inputs: Vec<J> = s
        .inputs
        .iter()
        .map(|a| match a {
            FnArg::Receiver(r) => {
                let mut n = Map::new();
                put_attrs(&mut n, &r.attrs);
                put(&mut n, "self", json!(toks(r)));
                J::Object(n)
            }
            FnArg::Typed(t) => {
                let mut n = Map::new();
                put_attrs(&mut n, &t.attrs);
                put(&mut n, "pat", pat(&t.pat));
                put(&mut n, "ty", json!(toks(&t.ty)));
                J::Object(n)
            }
        })
        .collect();
    json!({
        "inputs": inputs,
        "output": match &s.output { ReturnType::Default => J::Null, ReturnType::Type(_, t) => json!(toks(&**t)) },
        "generics": toks(&s.generics),
        "where": s.generics.where_clause.as_ref().map(|w| toks(w)),
    })
}

fn item(i: &Item) -> J {
    let sp = i.span();
    let mut n;
    match i {
        Item::Fn(f) => {
            n = node("fn", sp);
            put_attrs(&mut n, &f.attrs);
            put(&mut n, "le", json!(endline(sp)));
            put(&mut n, "name", json!(f.sig.ident.to_string()));
            put(&mut n, "nl", json!(line(f.sig.ident.span())));
            put(&mut n, "vis", json!(toks(&f.vis)));
            put(&mut n, "sig", sig(&f.sig));
            put(&mut n, "body", block(&f.block));
        }
        Item::Impl(im) => {
            n = node("impl", sp);
            put_attrs(&mut n, &im.attrs);
            put(&mut n, "le", json!(endline(sp)));
            if let Some((_, p, _)) = &im.trait_ {
                put(&mut n, "trait", json!(path_str(p)));
                put(&mut n, "trait_full", json!(toks(p)));
            }
            put(&mut n, "self_ty", json!(toks(&*im.self_ty)));
            put(&mut n, "generics", json!(toks(&im.generics)));
            let items: Vec<J> = im
                .items
                .iter()
                .map(|ii| match ii {
                    ImplItem::Fn(f) => {
                        let mut fnode = node("fn", f.span());
                        put_attrs(&mut fnode, &f.attrs);
                        put(&mut fnode, "le", json!(endline(f.span())));
                        put(&mut fnode, "name", json!(f.sig.ident.to_string()));
                        put(&mut fnode, "nl", json!(line(f.sig.ident.span())));
                        put(&mut fnode, "vis", json!(toks(&f.vis)));
                        put(&mut fnode, "sig", sig(&f.sig));
                        put(&mut fnode, "body", block(&f.block));
                        J::Object(fnode)
                    }
                    ImplItem::Const(c) => {
                        let mut cn = node("const", c.span());
                        put_attrs(&mut cn, &c.attrs);
                        put(&mut cn, "name", json!(c.ident.to_string()));
                        put(&mut cn, "ty", json!(toks(&c.ty)));
                        put(&mut cn, "e", expr(&c.expr));
                        J::Object(cn)
                    }
                    ImplItem::Type(t) => {
                        let mut tn = node("type", t.span());
                        put_attrs(&mut tn, &t.attrs);
                        put(&mut tn, "name", json!(t.ident.to_string()));
                        put(&mut tn, "ty", json!(toks(&t.ty)));
                        J::Object(tn)
                    }
                    ImplItem::Macro(m) => mac(&m.mac, m.span()),
                    other => json!({"k":"other_implitem","toks":toks(other)}),
                })
                .collect();
            put(&mut n, "items", J::Array(items));
        }
        Item::Enum(e) => {
            n = node("enum", sp);
            put_attrs(&mut n, &e.attrs);
            put(&mut n, "name", json!(e.ident.to_string()));
            put(&mut n, "vis", json!(toks(&e.vis)));
            put(&mut n, "generics", json!(toks(&e.generics)));
            put(&mut n, "derives", json!(derives(&e.attrs)));
            let vs: Vec<J> = e
                .variants
                .iter()
                .map(|v| {
                    let mut vn = node("variant", v.span());
                    put_attrs(&mut vn, &v.attrs);
                    put(&mut vn, "name", json!(v.ident.to_string()));
                    put(
                        &mut vn,
                        "shape",
                        json!(match &v.fields {
                            Fields::Named(_) => "named",
                            Fields::Unnamed(_) => "tuple",
                            Fields::Unit => "unit",
                        }),
                    );
                    put(&mut vn, "fields", fields(&v.fields));
                    if let Some((_, d)) = &v.discriminant {
                        put(&mut vn, "disc", expr(d));
                    }
                    J::Object(vn)
                })
                .collect();
            put(&mut n, "variants", J::Array(vs));
        }
        Item::Struct(s) => {
            n = node("structdef", sp);
            put_attrs(&mut n, &s.attrs);
            put(&mut n, "name", json!(s.ident.to_string()));
            put(&mut n, "vis", json!(toks(&s.vis)));
            put(&mut n, "generics", json!(toks(&s.generics)));
            put(&mut n, "derives", json!(derives(&s.attrs)));
            put(
                &mut n,
                "shape",
                json!(match &s.fields {
                    Fields::Named(_) => "named",
                    Fields::Unnamed(_) => "tuple",
                    Fields::Unit => "unit",
                }),
            );
            put(&mut n, "fields", fields(&s.fields));
        }
        Item::Mod(m) => {
            n = node("mod", sp);
            put_attrs(&mut n, &m.attrs);
            put(&mut n, "name", json!(m.ident.to_string()));
            put(&mut n, "vis", json!(toks(&m.vis)));
            if let Some((_, items)) = &m.content {
                put(&mut n, "items", J::Array(items.iter().map(item).collect()));
            }
        }
        Item::Const(c) => {
            n = node("const", sp);
            put_attrs(&mut n, &c.attrs);
            put(&mut n, "name", json!(c.ident.to_string()));
            put(&mut n, "vis", json!(toks(&c.vis)));
            put(&mut n, "ty", json!(toks(&*c.ty)));
            put(&mut n, "e", expr(&c.expr));
        }
        Item::Static(c) => {
            n = node("static", sp);
            put_attrs(&mut n, &c.attrs);
            put(&mut n, "name", json!(c.ident.to_string()));
            put(&mut n, "vis", json!(toks(&c.vis)));
            put(&mut n, "mut", json!(matches!(c.mutability, StaticMutability::Mut(_))));
            put(&mut n, "ty", json!(toks(&*c.ty)));
            put(&mut n, "e", expr(&c.expr));
        }
        Item::Use(u) => {
            n = node("use", sp);
            put_attrs(&mut n, &u.attrs);
            put(&mut n, "vis", json!(toks(&u.vis)));
            put(&mut n, "tree", json!(toks(&u.tree)));
        }
        Item::Trait(t) => {
            n = node("trait", sp);
            put_attrs(&mut n, &t.attrs);
            put(&mut n, "name", json!(t.ident.to_string()));
            put(&mut n, "vis", json!(toks(&t.vis)));
            let items: Vec<J> = t
                .items
                .iter()
                .map(|ti| match ti {
                    TraitItem::Fn(f) => {
                        let mut fnode = node("fn", f.span());
                        put_attrs(&mut fnode, &f.attrs);
                        put(&mut fnode, "le", json!(endline(f.span())));
                        put(&mut fnode, "name", json!(f.sig.ident.to_string()));
                        put(&mut fnode, "nl", json!(line(f.sig.ident.span())));
                        put(&mut fnode, "sig", sig(&f.sig));
                        if let Some(b) = &f.default {
                            put(&mut fnode, "body", block(b));
                        }
                        J::Object(fnode)
                    }
                    other => json!({"k":"other_traititem","toks":toks(other)}),
                })
                .collect();
            put(&mut n, "items", J::Array(items));
        }
        Item::Type(t) => {
            n = node("type", sp);
            put_attrs(&mut n, &t.attrs);
            put(&mut n, "name", json!(t.ident.to_string()));
            put(&mut n, "vis", json!(toks(&t.vis)));
            put(&mut n, "ty", json!(toks(&*t.ty)));
        }
        Item::Macro(m) => {
            n = node("imacro", sp);
            put_attrs(&mut n, &m.attrs);
            put(&mut n, "name", json!(path_str(&m.mac.path)));
            if let Some(id) = &m.ident {
                put(&mut n, "ident", json!(id.to_string()));
            }
            let t = m.mac.tokens.to_string();
            if t.len() < 20000 {
                put(&mut n, "toks", json!(norm(&t)));
            }
            // best effort: items inside a macro invocation body (e.g. impl_parent!)
            if m.ident.is_none() {
                if let J::Object(o) = mac(&m.mac, sp) {
                    if let Some(a) = o.get("args") {
                        put(&mut n, "args", a.clone());
                    }
                }
            }
        }
        Item::ExternCrate(e) => {
            n = node("extern_crate", sp);
            put_attrs(&mut n, &e.attrs);
            put(&mut n, "name", json!(e.ident.to_string()));
        }
        other => {
            n = node("other_item", sp);
            put(&mut n, "toks", json!(toks(other)));
        }
    }
    J::Object(n)
}

// ---------------- pest grammar ----------------

fn pexpr(e: &pest_meta::ast::Expr) -> J {
    use pest_meta::ast::Expr as E;
    match e {
        E::Str(s) => json!({"k":"str","v":s}),
        E::Insens(s) => json!({"k":"insens","v":s}),
        E::Range(a, b) => json!({"k":"range","a":a,"b":b}),
        E::Ident(s) => json!({"k":"ident","v":s}),
        E::PeekSlice(a, b) => json!({"k":"peek","a":a,"b":b}),
        E::PosPred(x) => json!({"k":"pos","e":pexpr(x)}),
        E::NegPred(x) => json!({"k":"neg","e":pexpr(x)}),
        E::Seq(a, b) => {
            // flatten right-nested sequences
            let mut v = vec![];
            fn fl(e: &pest_meta::ast::Expr, v: &mut Vec<J>) {
                if let pest_meta::ast::Expr::Seq(a, b) = e {
                    fl(a, v);
                    fl(b, v);
                } else {
                    v.push(pexpr(e));
                }
            }
            fl(a, &mut v);
            fl(b, &mut v);
            json!({"k":"seq","e":v})
        }
        E::Choice(a, b) => {
            let mut v = vec![];
            fn fl(e: &pest_meta::ast::Expr, v: &mut Vec<J>) {
                if let pest_meta::ast::Expr::Choice(a, b) = e {
                    fl(a, v);
                    fl(b, v);
                } else {
                    v.push(pexpr(e));
                }
            }
            fl(a, &mut v);
            fl(b, &mut v);
            json!({"k":"choice","e":v})
        }
        E::Opt(x) => json!({"k":"opt","e":pexpr(x)}),
        E::Rep(x) => json!({"k":"rep","e":pexpr(x)}),
        E::RepOnce(x) => json!({"k":"rep1","e":pexpr(x)}),
        E::RepExact(x, n) => json!({"k":"repn","e":pexpr(x),"min":n,"max":n}),
        E::RepMin(x, n) => json!({"k":"repn","e":pexpr(x),"min":n,"max":J::Null}),
        E::RepMax(x, n) => json!({"k":"repn","e":pexpr(x),"min":0,"max":n}),
        E::RepMinMax(x, a, b) => json!({"k":"repn","e":pexpr(x),"min":a,"max":b}),
        E::Skip(v) => json!({"k":"skip","v":v}),
        E::Push(x) => json!({"k":"push","e":pexpr(x)}),
        #[allow(unreachable_patterns)]
        _ => json!({"k":"other"}),
    }
}

fn grammar(path: &str) -> J {
    use pest::Parser as _;
    let src = std::fs::read_to_string(path).expect("read pest");
    let pairs = match pest_meta::parser::PestParser::parse(pest_meta::parser::Rule::grammar_rules, &src) {
        Ok(p) => p,
        Err(e) => return json!({"error": e.to_string()}),
    };
    // line of every rule definition
    let mut lines = Map::new();
    for p in pairs.clone() {
        if p.as_rule() == pest_meta::parser::Rule::grammar_rule {
            let (l, _) = p.as_span().start_pos().line_col();
            if let Some(id) = p.clone().into_inner().next() {
                lines.insert(id.as_str().to_string(), json!(l));
            }
        }
    }
    let rules = match pest_meta::parser::consume_rules(pairs) {
        Ok(r) => r,
        Err(e) => return json!({"error": format!("{:?}", e)}),
    };
    let v: Vec<J> = rules
        .iter()
        .map(|r| {
            json!({
                "name": r.name,
                "ty": format!("{:?}", r.ty),
                "l": lines.get(&r.name).cloned().unwrap_or(J::Null),
                "expr": pexpr(&r.expr),
            })
        })
        .collect();
    json!({"rules": v})
}

fn main() {
    let args: Vec<String> = std::env::args().collect();
    if args.len() < 3 {
        eprintln!("usage: srcfacts <out.json> --root <dir> [--pest f] files...");
        std::process::exit(2);
    }
    let out = &args[1];
    let mut root = String::new();
    let mut files = vec![];
    let mut pests = vec![];
    let mut i = 2;
    while i < args.len() {
        if args[i] == "--root" {
            root = args[i + 1].clone();
            i += 2;
        } else if args[i] == "--pest" {
            pests.push(args[i + 1].clone());
            i += 2;
        } else {
            files.push(args[i].clone());
            i += 1;
        }
    }
    let mut res = Map::new();
    let mut fm = Map::new();
    for f in &files {
        let src = match std::fs::read_to_string(f) {
            Ok(s) => s,
            Err(e) => {
                eprintln!("srcfacts: cannot read {}: {}", f, e);
                std::process::exit(3);
            }
        };
        let rel = f.strip_prefix(&root).unwrap_or(f).trim_start_matches('/').to_string();
        match syn::parse_file(&src) {
            Ok(file) => {
                let mut n = Map::new();
                put(&mut n, "cfg", json!(attrs_cfg(&file.attrs)));
                put(&mut n, "attrs", json!(attrs_other(&file.attrs)));
                put(&mut n, "items", J::Array(file.items.iter().map(item).collect()));
                put(&mut n, "nlines", json!(src.lines().count()));
                fm.insert(rel, J::Object(n));
            }
            Err(e) => {
                fm.insert(rel, json!({"error": e.to_string(), "l": e.span().start().line}));
            }
        }
    }
    res.insert("files".into(), J::Object(fm));
    let mut gm = Map::new();
    for p in &pests {
        let rel = p.strip_prefix(&root).unwrap_or(p).trim_start_matches('/').to_string();
        gm.insert(rel, grammar(p));
    }
    res.insert("grammars".into(), J::Object(gm));
    let s = serde_json::to_string(&J::Object(res)).unwrap();
    std::fs::write(out, s).expect("write out");
}
